#!/bin/bash
# Build the overlay interpreter /verif/.venv (python 3.12 = the interpreter the
# repository runs on) from files on disk only.  Idempotent, offline, ~15 s.
#   - wheels z3-solver cvc5 icontract deal crosshair-tool jsonschema from /opt/veriftools/wheels
#   - a .pth that adds /venv's site-packages (numpy, pandas, scipy, statsmodels,
#     and the editable install of /repo)
set -euo pipefail
cd "$(dirname "$0")"
export PIP_NO_INDEX=1 PIP_DISABLE_PIP_VERSION_CHECK=1
VENV=.venv
STAMP=$VENV/.mmverif-ok
exec 9>.venv.lock
flock 9
if [ -f "$STAMP" ] && "$VENV/bin/python" -c "import z3, icontract, pandas, matched_markets" 2>/dev/null; then
  exit 0
fi
rm -rf "$VENV"
/venv/bin/python -m venv "$VENV"
"$VENV/bin/python" -m pip install -q --no-index --find-links /opt/veriftools/wheels \
    z3-solver cvc5 icontract deal crosshair-tool jsonschema >/dev/null
SP=$("$VENV/bin/python" -c "import sysconfig; print(sysconfig.get_paths()['purelib'])")
echo "import site; site.addsitedir('/venv/lib/python3.12/site-packages')" > "$SP/zz_repo_overlay.pth"
"$VENV/bin/python" -c "import z3, cvc5, icontract, pandas, numpy, scipy, matched_markets; print('overlay venv ok', z3.get_version_string())"
touch "$STAMP"
