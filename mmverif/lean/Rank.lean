/-
Finite-set ranking lemma used by the termination argument of the greedy
search (C09): for a finite family S of candidates with scores f : S → β and a
strict (irreflexive, transitive) order lt on scores, the function
  rank b := #{z ∈ S | lt (f z) b}
is bounded by #S and strictly increasing along lt on the scores of S.
The SMT obligation `greedy_search/variant` assumes two instances of exactly
this statement (S = the control groups within the control-eligible geos for a
fixed treatment group, f = score tuple of the design, lt = lexicographic order
on real tuples).
-/
import Mathlib.Data.Finset.Card
import Mathlib.Data.Prod.Lex
import Mathlib.Data.Real.Basic

open Finset

theorem rank_exists {α β : Type*} (S : Finset α) (f : α → β)
    (lt : β → β → Prop) [DecidableRel lt]
    (irr : ∀ a, ¬ lt a a) (tr : ∀ a b c, lt a b → lt b c → lt a c) :
    ∃ r : β → ℕ, (∀ b, r b ≤ S.card) ∧
      (∀ x ∈ S, ∀ y ∈ S, lt (f x) (f y) → r (f x) < r (f y)) := by
  refine ⟨fun b => (S.filter (fun z => lt (f z) b)).card, ?_, ?_⟩
  · intro b
    exact card_filter_le _ _
  · intro x hx y _ hxy
    apply card_lt_card
    rw [ssubset_iff_of_subset]
    · exact ⟨x, by simp [hx, hxy], by simp [irr]⟩
    · intro z hz
      simp only [mem_filter] at hz ⊢
      exact ⟨hz.1, tr _ _ _ hz.2 hxy⟩

/-- Lexicographic order on 6-tuples of reals is irreflexive and transitive
    (instance: any linear order, componentwise lexicographic product). -/
theorem lex6_irrefl 
    (a : ℝ ×ₗ ℝ ×ₗ ℝ ×ₗ ℝ ×ₗ ℝ ×ₗ ℝ) : ¬ a < a := lt_irrefl a

theorem lex6_trans 
    (a b c : ℝ ×ₗ ℝ ×ₗ ℝ ×ₗ ℝ ×ₗ ℝ ×ₗ ℝ) : a < b → b < c → a < c := lt_trans
