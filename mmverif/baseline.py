"""python -m mmverif.baseline [IDs...]: record which obligations are discharged
on the unchanged tree (function | kind | label, without line numbers), so that
a later run can tell "an obligation that passed on the unchanged tree and now
does not" (reported as a violation, with the solver output) from an obligation
that was never provable (reported as undecided).  Run on the unchanged tree
only; the file is committed and never written by the checks."""
import json
import os
import sys

from mmverif import common
from mmverif import prove
from mmverif.props import registry

PATH = os.path.join(common.VERIF, 'baseline_obligations.json')


def key(o):
  return '%s|%s|%s' % (o.func, o.kind, o.label)


def load():
  if not os.path.exists(PATH):
    return {}
  with open(PATH) as f:
    return json.load(f)


def main(argv):
  ids = argv or sorted(list(registry.DEFS) + ['C14'])
  data = load()
  for pid in ids:
    mod = registry.get(pid)
    targets = mod.proof_targets('quick')
    if not targets:
      data[pid] = []
      continue
    res = prove.prove(targets, props={pid}, timeout_ms=20000)
    if res.errors:
      print(pid, 'ERRORS', res.errors)
    keys = sorted({key(o) for o, r in res.obligations
                   if r['verdict'] == 'discharged'})
    bad = [o.name for o, r in res.obligations if r['verdict'] != 'discharged']
    data[pid] = keys
    print(pid, len(keys), 'distinct discharged obligation keys;',
          len(bad), 'not discharged', bad[:3])
  with open(PATH, 'w') as f:
    json.dump(data, f, indent=0, sort_keys=True)


if __name__ == '__main__':
  sys.path.insert(0, common.REPO)
  main(sys.argv[1:])
