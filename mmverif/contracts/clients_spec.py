"""Class shapes and call-site contracts of the small classes the searches use:
TBRMMDesignParameters (fields only), TBRMMDiagnostics, TBRMMScore, TBRMMDesign.

The numeric content of the diagnostics is abstracted by uninterpreted spec
functions (EST, CORR, SCOREk); their link to the code is the business of the
TBRMMDiagnostics contracts (C08) and of the bounded monitors of C04-C06.
"""
import z3

from mmverif.engine.lib import uf
from mmverif.engine.specops import *  # pylint: disable=wildcard-import
from mmverif.engine.specs import LoopSpec, ModuleSpec, register
from mmverif.engine.values import *  # pylint: disable=wildcard-import

I = z3.IntSort()
R = z3.RealSort()
Arr = sort_named('Arr')

from mmverif.contracts.params_view import *  # pylint: disable=wildcard-import
from mmverif.contracts.params_view import pspec, PARAM_FIELDS, valid_params, par_terms

# ---------------------------------------------------------------------------
# TBRMMDiagnostics: the full sidecar lives in tbrmmdiagnostics_spec.py (C08);
# here only the vocabulary the searches use.

from mmverif.contracts import tbrmmdiagnostics_spec as dg   # noqa: E402
dspec = dg.dspec
NPR = TReal(np=True)
LEN = dg.LEN


def arr(v):
  v = unwrap(v)
  if isinstance(v, VOpt):
    v = v.val
  return v.t


def RIv(x, y, par):
  """Required impact of a design with control series x, treatment series y."""
  return N(dg.F_at('required_impact', z3.BoolVal(False), x, y, par).val)


def CORRv(x, y, par):
  return N(dg.F_at('corr', z3.BoolVal(False), x, y, par).val)


def EST0(y, par, rho):
  """Optimistic required impact of a treatment series at correlation rho
  (no control series attached)."""
  return N(dg.F_at('estimate_required_impact', z3.BoolVal(True), dg.NOARR, y,
                   par, [rho]))


# ---------------------------------------------------------------------------
# TBRMMScore

sspec = register(ModuleSpec('matched_markets/methodology/tbrmmscore.py'))
SCORING = TTuple([TInt(), TInt(), TInt(), TInt(), NPR, NPR],
                 names=['corr_test', 'aa_test', 'bb_test', 'dw_test', 'corr',
                        'inv_required_impact'], tname='Scoring')
sspec.cls('TBRMMScore', fields={'diag': TObj('TBRMMDiagnostics'),
                                '_score': TOpt(SCORING)})


def SCORE(x, y, par, k):
  """k-th entry of the documented score tuple of the design with control
  series x and treatment series y: (correlation test, A/A test, Brownian
  bridge test, Durbin-Watson test, correlation rounded to two decimals,
  1 / required impact), in terms of the diagnostics spec functions."""
  no = z3.BoolVal(False)

  def b2i(t):
    return z3.If(t, z3.IntVal(1), z3.IntVal(0))
  if k == 0:
    return b2i(unwrap(dg.F_at('corr_test', no, x, y, par)).val.t)
  if k == 1:
    aa = unwrap(dg.F_at('aatest', no, x, y, par)).val
    return b2i(aa.items[0].val.t)
  if k == 2:
    return b2i(unwrap(dg.F_at('bbtest', no, x, y, par)).val.items[0].t)
  if k == 3:
    return b2i(unwrap(dg.F_at('dwtest', no, x, y, par)).val.items[0].t)
  if k == 4:
    return uf('round', [unwrap(dg.F_at('corr', no, x, y, par)).val,
                        VInt(2)], R)
  return 1 / N(unwrap(dg.F_at('required_impact', no, x, y, par)).val)


def score_is(tup, x, y, par):
  t = unwrap(tup)
  return z3.And([N(t.items[k]) == SCORE(x, y, par, k) for k in range(6)])


sspec.contract(
    'TBRMMScore.__post_init__',
    params={},
    modifies=['self.diag.' + f for f in dg.CACHES],
    props=('C04', 'C09'),
    requires=[('diag satisfies its invariant', lambda s: dg.inv(s.self.diag)),
              ('correlation strictly between -1 and 1', lambda s: Or(
                  IsNone(s.self.diag._x), dg.corr_in_range(s.self.diag)))],
    raises={'ValueError': ('no control series',
                           lambda s: IsNone(s.self.diag._x))},
    ensures=[('diag invariant kept', lambda s: dg.inv(s.self.diag))])

sspec.contract(
    'TBRMMScore.score',
    params={}, result=SCORING,
    modifies=['self._score'] + ['self.diag.' + f for f in dg.CACHES],
    props=('C04', 'C03', 'C09'),
    requires=[
        ('the score is cached, or it can be computed: the diagnostics hold a '
         'control series, the correlation is strictly inside (-1, 1) and at '
         'least 3 pre-test points remain for the A/A test (else its outcome '
         'is None and int(None) raises TypeError)',
         lambda s: comparable(s.self)),
    ],
    ensures=[
        ('cached score is returned, otherwise the score of the current '
         'series', lambda s: And(
             Not(IsNone(s.self._score)),
             Eq(Val(s.self._score), s.result),
             Or(Not(IsNone(s.old.self._score)),
                score_is(s.result, arr(s.self.diag._x), arr(s.self.diag._y),
                         s.self.diag._par)),
             Or(IsNone(s.old.self._score),
                Eq(Val(s.old.self._score), s.result)),
             dg.inv(s.self.diag))),
    ])

sspec.contract(
    'TBRMMScore.score.setter',
    params={'value': SCORING},
    modifies=['self._score'],
    props=('C04',),
    ensures=[('stored', lambda s: And(Not(IsNone(s.self._score)),
                                      Eq(Val(s.self._score), s.value)))])

# ---------------------------------------------------------------------------
# TBRMMDesign

gspec = register(ModuleSpec('matched_markets/methodology/tbrmmdesign.py'))
gspec.cls('TBRMMDesign', fields={
    'score': TObj('TBRMMScore'), 'treatment_geos': TSet(),
    'control_geos': TSet(), 'diag': TOpt(TObj('TBRMMDiagnostics'))})

gspec.contract(
    'TBRMMDesign.__post_init__',
    params={},
    modifies=[],
    props=('C01', 'C09'),
    raises={'ValueError': ('a group is empty or the groups overlap',
                           lambda s: Or(IsEmpty(s.self.treatment_geos),
                                        IsEmpty(s.self.control_geos),
                                        Not(Disjoint(s.self.treatment_geos,
                                                     s.self.control_geos))))},
    ensures=[])

def comparable(o):
  """A score object whose score tuple can be produced without raising."""
  d = o.diag
  return And(dg.inv(d), Or(Not(IsNone(o._score)), And(
      Not(IsNone(d._x)), dg.corr_in_range(d),
      LEN(arr(d._y)) - N(d._par.n_test) >= 3)))


def SV(o, old=False):
  """Score tuple of a score object: the cached one, else that of its series."""
  sc = unwrap(o._score)
  d = o.diag
  out = []
  for k in range(6):
    out.append(z3.If(sc.none, SCORE(arr(d._x), arr(d._y), d._par, k),
                     N(sc.val.items[k])))
  return out


def lex_lt(a, b):
  res = z3.BoolVal(False)
  for k in range(5, -1, -1):
    x, y = a[k], b[k]
    if x.sort() != y.sort():
      x = z3.ToReal(x) if x.sort() == I else x
      y = z3.ToReal(y) if y.sort() == I else y
    res = z3.Or(x < y, z3.And(x == y, res))
  return res


gspec.contract(
    'TBRMMDesign.__lt__',
    params={'other': TObj('TBRMMDesign')}, result=TBool(),
    modifies=['self.score._score', 'other.score._score'] +
    ['self.score.diag.' + f for f in dg.CACHES] +
    ['other.score.diag.' + f for f in dg.CACHES],
    props=('C03', 'C14'),
    requires=[('both scores can be produced', lambda s: And(
        comparable(s.self.score), comparable(s.other.score)))],
    ensures=[('designs are ordered by the lexicographic order of their score '
              'tuples', lambda s: Iff(s.result, lex_lt(
                  SV(s.old.self.score), SV(s.old.other.score))))])

sspec.contract(
    'TBRMMScore.__lt__',
    params={'other': TObj('TBRMMScore')}, result=TBool(),
    modifies=['self._score', 'other._score'] +
    ['self.diag.' + f for f in dg.CACHES] +
    ['other.diag.' + f for f in dg.CACHES],
    props=('C03', 'C14', 'C09'),
    requires=[('both scores can be produced',
               lambda s: And(comparable(s.self), comparable(s.other)))],
    ensures=[
        ('lexicographic order of the score tuples',
         lambda s: Iff(s.result, lex_lt(SV(s.old.self), SV(s.old.other)))),
        ('scores are now cached and unchanged in value', lambda s: And(
            Not(IsNone(s.self._score)), Not(IsNone(s.other._score)),
            z3.And([a == b for a, b in zip(SV(s.self), SV(s.old.self))]),
            z3.And([a == b for a, b in zip(SV(s.other), SV(s.old.other))]),
            dg.inv(s.self.diag), dg.inv(s.other.diag))),
    ])

SCORE_FUNCTIONS = ['TBRMMScore.__post_init__', 'TBRMMScore.score',
                   'TBRMMScore.score.setter', 'TBRMMScore.__lt__']
DESIGN_FUNCTIONS = ['TBRMMDesign.__post_init__', 'TBRMMDesign.__lt__']
FUNCTIONS = list(dg.FUNCTIONS)
LEMMAS = list(dg.LEMMAS)
# contracts used at call sites whose bodies are verified elsewhere / later
