"""Class shapes and call-site contracts of the small classes the searches use:
TBRMMDesignParameters (fields only), TBRMMDiagnostics, TBRMMScore, TBRMMDesign.

The numeric content of the diagnostics is abstracted by uninterpreted spec
functions (EST, CORR, SCOREk); their link to the code is the business of the
TBRMMDiagnostics contracts (C08) and of the bounded monitors of C04-C06.
"""
import z3

from mmverif.engine.lib import uf
from mmverif.engine.specops import *  # pylint: disable=wildcard-import
from mmverif.engine.specs import LoopSpec, ModuleSpec, register
from mmverif.engine.values import *  # pylint: disable=wildcard-import

I = z3.IntSort()
R = z3.RealSort()
Arr = sort_named('Arr')

# ---------------------------------------------------------------------------
# TBRMMDesignParameters: shapes of an ACCEPTED object (C17 proves that
# __post_init__ returns only for values in this domain; integer fields are
# stored as ints by the validator).

pspec = register(ModuleSpec(
    'matched_markets/methodology/tbrmmdesignparameters.py'))
RANGE_R = TOpt(TTuple([TReal(), TReal()]))
RANGE_I = TOpt(TTuple([TInt(), TInt()]))
PARAM_FIELDS = {
    'n_test': TInt(), 'iroas': TReal(),
    'volume_ratio_tolerance': TOpt(TReal()),
    'geo_ratio_tolerance': TOpt(TReal()),
    'treatment_share_range': RANGE_R, 'budget_range': RANGE_R,
    'treatment_geos_range': RANGE_I, 'control_geos_range': RANGE_I,
    'n_geos_max': TOpt(TInt()), 'n_pretest_max': TInt(), 'n_designs': TInt(),
    'sig_level': TReal(), 'power_level': TReal(), 'min_corr': TReal(),
    'rho_max': TReal(), 'flevel': TReal(),
}
pspec.cls('TBRMMDesignParameters', fields=dict(PARAM_FIELDS))


def _opt(v, f):
  v = unwrap(v)
  return z3.Or(v.none, f(v.val))


def valid_params(p):
  """Domain of an accepted parameter object (postcondition of C17)."""
  def rng(v, lo_ok, strict):
    def f(t):
      a, b = N(t.items[0]), N(t.items[1])
      return z3.And(lo_ok(a), (a < b) if strict else (a <= b))
    return _opt(v, f)
  return And(
      N(p.n_test) >= 1, N(p.iroas) >= 0,
      _opt(p.volume_ratio_tolerance, lambda t: N(t) > 0),
      _opt(p.geo_ratio_tolerance, lambda t: N(t) > 0),
      _opt(p.treatment_share_range, lambda t: z3.And(
          N(t.items[0]) > 0, N(t.items[0]) < N(t.items[1]),
          N(t.items[1]) < 1)),
      rng(p.budget_range, lambda a: a >= 0, True),
      rng(p.treatment_geos_range, lambda a: a >= 1, False),
      rng(p.control_geos_range, lambda a: a >= 1, False),
      _opt(p.n_geos_max, lambda t: N(t) >= 2),
      N(p.n_pretest_max) >= 3, N(p.n_designs) >= 1,
      N(p.rho_max) >= z3.RealVal('0.9'), N(p.rho_max) < 1,
      N(p.sig_level) > 0, N(p.sig_level) < 1,
      N(p.power_level) > 0, N(p.power_level) < 1,
      N(p.min_corr) >= z3.RealVal('0.8'), N(p.min_corr) < 1,
      N(p.flevel) >= z3.RealVal('0.9'), N(p.flevel) < 1)


def par_terms(p):
  """The fields the diagnostics depend on, as z3 terms (UF arguments)."""
  return [N(p.n_test), N(p.sig_level), N(p.power_level), N(p.flevel),
          N(p.min_corr)]


# ---------------------------------------------------------------------------
# TBRMMDiagnostics (client view)

dspec = register(ModuleSpec('matched_markets/methodology/tbrmmdiagnostics.py'))
NPR = TReal(np=True)
DIAG_FIELDS = {
    '_x': TOpt(TOpaque('Arr')), '_y': TOpt(TOpaque('Arr')),
    '_par': TObj('TBRMMDesignParameters'),
    '_corr': TOpt(NPR), '_required_impact': TOpt(NPR),
    '_x_mean': TOpt(NPR), '_y_mean': TOpt(NPR),
}
dspec.cls('TBRMMDiagnostics', fields=dict(DIAG_FIELDS))


def LEN(arr_term):
  return z3.Function('len_Arr', Arr, I)(arr_term)


def EST(y, par, corr):
  return uf('EST', [y] + par_terms(par) + [corr], R)


def CORR(x, y):
  return uf('CORR', [x, y], R)


def arr(v):
  v = unwrap(v)
  if isinstance(v, VOpt):
    v = v.val
  return v.t


dspec.contract(
    'TBRMMDiagnostics.__init__',
    params={'y': TOpaque('Arr'), 'par': TObj('TBRMMDesignParameters')},
    modifies=['self.*'],
    props=('C08', 'C04', 'C09'),
    raises={'ValueError': ('fewer than 3 time points',
                           lambda s: LEN(arr(s.y)) < 3)},
    ensures=[
        ('y stored, x cleared, parameters attached', lambda s: And(
            Not(IsNone(s.self._y)), arr(s.self._y) == arr(s.y),
            IsNone(s.self._x), IsNone(s.self._corr),
            IsNone(s.self._required_impact))),
    ],
    binds={'self._par': lambda s: s.par})

dspec.contract(
    'TBRMMDiagnostics.x.setter',
    params={'value': TOpt(TOpaque('Arr'))},
    modifies=['self._x', 'self._x_mean', 'self._corr',
              'self._required_impact'],
    props=('C08', 'C04', 'C09'),
    requires=[('y is set', lambda s: Not(IsNone(s.self._y)))],
    raises={'ValueError': ('x and y differ in length', lambda s: And(
        Not(IsNone(s.value)), LEN(arr(s.value)) != LEN(arr(s.self._y))))},
    ensures=[
        ('x stored, cached results dropped', lambda s: And(
            Eq(IsNone(s.self._x), IsNone(s.value)),
            Or(IsNone(s.value), arr(s.self._x) == arr(s.value)),
            IsNone(s.self._corr), IsNone(s.self._required_impact))),
    ])

dspec.contract(
    'TBRMMDiagnostics.estimate_required_impact',
    params={'corr': TReal(np=True)},
    result=NPR,
    modifies=[],
    props=('C05', 'C02', 'C09'),
    requires=[('y is set', lambda s: Not(IsNone(s.self._y)))],
    raises={'ValueError': ('|corr| >= 1',
                           lambda s: Or(N(s.corr) <= -1, N(s.corr) >= 1))},
    ensures=[('value', lambda s: N(s.result) == EST(
        arr(s.self._y), s.self._par, N(s.corr)))])

dspec.contract(
    'TBRMMDiagnostics.corr',
    params={}, result=TOpt(NPR),
    modifies=['self._corr'],
    props=('C08', 'C04'),
    requires=[('y is set', lambda s: Not(IsNone(s.self._y)))],
    ensures=[('correlation of the current series', lambda s: And(
        Eq(IsNone(s.result), IsNone(s.self._x)),
        Or(IsNone(s.result), N(Val(s.result)) == CORR(arr(s.self._x),
                                                      arr(s.self._y)))))])

dspec.contract(
    'TBRMMDiagnostics.required_impact',
    params={}, result=TOpt(NPR),
    modifies=['self._corr', 'self._required_impact'],
    props=('C08', 'C04', 'C02'),
    requires=[
        ('y is set', lambda s: Not(IsNone(s.self._y))),
        # correlation of real data is strictly inside (-1, 1) (non-constant,
        # not collinear series): otherwise estimate_required_impact raises
        ('correlation strictly between -1 and 1', lambda s: Or(
            IsNone(s.self._x), And(
                CORR(arr(s.self._x), arr(s.self._y)) > -1,
                CORR(arr(s.self._x), arr(s.self._y)) < 1))),
    ],
    ensures=[('required impact of the current series', lambda s: And(
        Eq(IsNone(s.result), IsNone(s.self._x)),
        Or(IsNone(s.result), N(Val(s.result)) == EST(
            arr(s.self._y), s.self._par,
            CORR(arr(s.self._x), arr(s.self._y))))))])

# ---------------------------------------------------------------------------
# TBRMMScore

sspec = register(ModuleSpec('matched_markets/methodology/tbrmmscore.py'))
SCORING = TTuple([TInt(), TInt(), TInt(), TInt(), NPR, NPR],
                 names=['corr_test', 'aa_test', 'bb_test', 'dw_test', 'corr',
                        'inv_required_impact'], tname='Scoring')
sspec.cls('TBRMMScore', fields={'diag': TObj('TBRMMDiagnostics'),
                                '_score': TOpt(SCORING)})


def SCORE(x, y, par, k):
  srt = I if k < 4 else R
  return uf('SCORE%d' % k, [x, y] + par_terms(par), srt)


def score_is(tup, x, y, par):
  t = unwrap(tup)
  return z3.And([N(t.items[k]) == SCORE(x, y, par, k) for k in range(6)])


sspec.contract(
    'TBRMMScore.__post_init__',
    params={},
    modifies=['self.diag._corr', 'self.diag._required_impact'],
    props=('C04', 'C09'),
    requires=[('diag has y', lambda s: Not(IsNone(s.self.diag._y))),
              ('correlation strictly between -1 and 1', lambda s: Or(
                  IsNone(s.self.diag._x), And(
                      CORR(arr(s.self.diag._x), arr(s.self.diag._y)) > -1,
                      CORR(arr(s.self.diag._x), arr(s.self.diag._y)) < 1)))],
    raises={'ValueError': ('no control series',
                           lambda s: IsNone(s.self.diag._x))},
    ensures=[])

sspec.contract(
    'TBRMMScore.score',
    params={}, result=SCORING,
    modifies=['self._score', 'self.diag._corr', 'self.diag._required_impact'],
    props=('C04', 'C03', 'C09'),
    requires=[
        ('diag has x and y', lambda s: And(Not(IsNone(s.self.diag._x)),
                                           Not(IsNone(s.self.diag._y)))),
        ('at least 3 pre-test points remain for the A/A test (else the test '
         'outcome is None and int(None) raises TypeError)', lambda s: Or(
             Not(IsNone(s.self._score)),
             LEN(arr(s.self.diag._y)) - N(s.self.diag._par.n_test) >= 3)),
        ('correlation strictly between -1 and 1', lambda s: And(
            CORR(arr(s.self.diag._x), arr(s.self.diag._y)) > -1,
            CORR(arr(s.self.diag._x), arr(s.self.diag._y)) < 1)),
    ],
    ensures=[
        ('cached score is returned, otherwise the score of the current '
         'series', lambda s: And(
             Not(IsNone(s.self._score)),
             Eq(Val(s.self._score), s.result),
             Or(Not(IsNone(s.old.self._score)),
                score_is(s.result, arr(s.self.diag._x), arr(s.self.diag._y),
                         s.self.diag._par)),
             Or(IsNone(s.old.self._score),
                Eq(Val(s.old.self._score), s.result)))),
    ])

sspec.contract(
    'TBRMMScore.score.setter',
    params={'value': SCORING},
    modifies=['self._score'],
    props=('C04',),
    ensures=[('stored', lambda s: And(Not(IsNone(s.self._score)),
                                      Eq(Val(s.self._score), s.value)))])

# ---------------------------------------------------------------------------
# TBRMMDesign

gspec = register(ModuleSpec('matched_markets/methodology/tbrmmdesign.py'))
gspec.cls('TBRMMDesign', fields={
    'score': TObj('TBRMMScore'), 'treatment_geos': TSet(),
    'control_geos': TSet(), 'diag': TOpt(TObj('TBRMMDiagnostics'))})

gspec.contract(
    'TBRMMDesign.__post_init__',
    params={},
    modifies=[],
    props=('C01', 'C09'),
    raises={'ValueError': ('a group is empty or the groups overlap',
                           lambda s: Or(IsEmpty(s.self.treatment_geos),
                                        IsEmpty(s.self.control_geos),
                                        Not(Disjoint(s.self.treatment_geos,
                                                     s.self.control_geos))))},
    ensures=[])

# trivial getters are inlined at call sites (return self._y / self._x)
dspec.inline.update({'TBRMMDiagnostics.y', 'TBRMMDiagnostics.x'})


def comparable(o):
  """A score object whose score tuple can be produced without raising."""
  d = o.diag
  return Or(Not(IsNone(o._score)), And(
      Not(IsNone(d._x)), Not(IsNone(d._y)),
      LEN(arr(d._y)) - N(d._par.n_test) >= 3))


def SV(o, old=False):
  """Score tuple of a score object: the cached one, else that of its series."""
  sc = unwrap(o._score)
  d = o.diag
  out = []
  for k in range(6):
    out.append(z3.If(sc.none, SCORE(arr(d._x), arr(d._y), d._par, k),
                     N(sc.val.items[k])))
  return out


def lex_lt(a, b):
  res = z3.BoolVal(False)
  for k in range(5, -1, -1):
    x, y = a[k], b[k]
    if x.sort() != y.sort():
      x = z3.ToReal(x) if x.sort() == I else x
      y = z3.ToReal(y) if y.sort() == I else y
    res = z3.Or(x < y, z3.And(x == y, res))
  return res


sspec.contract(
    'TBRMMScore.__lt__',
    params={'other': TObj('TBRMMScore')}, result=TBool(),
    modifies=['self._score', 'self.diag._corr', 'self.diag._required_impact',
              'other._score', 'other.diag._corr',
              'other.diag._required_impact'],
    props=('C03', 'C14', 'C09'),
    requires=[('both scores can be produced',
               lambda s: And(comparable(s.self), comparable(s.other)))],
    ensures=[
        ('lexicographic order of the score tuples',
         lambda s: Iff(s.result, lex_lt(SV(s.old.self), SV(s.old.other)))),
        ('scores are now cached and unchanged in value', lambda s: And(
            Not(IsNone(s.self._score)), Not(IsNone(s.other._score)),
            z3.And([a == b for a, b in zip(SV(s.self), SV(s.old.self))]),
            z3.And([a == b for a, b in zip(SV(s.other), SV(s.old.other))]))),
    ])

FUNCTIONS = []
LEMMAS = []
# contracts used at call sites whose bodies are verified elsewhere / later
