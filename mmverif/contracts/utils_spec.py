"""Sidecar contracts for the exclusion-day helpers (C20 proved core):
utils.find_days_to_exclude, utils.expand_time_windows,
common_classes.TimeWindow.__post_init__.

Which strings parse to which day, and which days a range contains, is
pandas/dateutil (uninterpreted functions TS, DR here) and is covered by the
bounded monitor against a datetime.date oracle.  What is proved is the
structure: one window per entry (1 piece -> day, 2 pieces -> range, otherwise
ValueError), only ValueError escapes, reversed ranges are rejected, and the
expansion is the duplicate-free union of the per-window day sets.
"""
import z3

from mmverif.engine import libcontracts as lc
from mmverif.engine.specops import *  # pylint: disable=wildcard-import
from mmverif.engine.specs import LoopSpec, ModuleSpec, register
from mmverif.engine.symexec import ObjView, unwrap
from mmverif.engine.values import *  # pylint: disable=wildcard-import

I = z3.IntSort()
Str, Ts = lc.StrSort, lc.TsSort

cspec = register(ModuleSpec('matched_markets/methodology/common_classes.py',
                            safety_props=('C20',)))
cspec.cls('TimeWindow', fields={'first_day': TOpaque('Ts'),
                                'last_day': TOpaque('Ts')})
cspec.contract(
    'TimeWindow.__post_init__', params={}, modifies=[], props=('C20',),
    raises={'ValueError': ('first day after last day', lambda s: lc.TS_GT(
        unwrap(s.self.first_day).t, unwrap(s.self.last_day).t))},
    ensures=[])

spec = register(ModuleSpec('matched_markets/methodology/utils.py',
                           safety_props=('C20',)))

W_FIRST = z3.Function('W_FIRST', ItemSort, Ts)
W_LAST = z3.Function('W_LAST', ItemSort, Ts)
W_SRC = z3.Function('W_SRC', ItemSort, Str)


def _lift(ctx, item):
  obj = ctx.new_object('TimeWindow', 'window')
  ctx.objects[obj.oid].fields['first_day'] = VOpaque(W_FIRST(item), 'Ts')
  ctx.objects[obj.oid].fields['last_day'] = VOpaque(W_LAST(item), 'Ts')
  return obj


def _reflect(ctx, obj, item):
  rec = ctx.objects[obj.oid].fields
  ctx.assume(W_FIRST(item) == rec['first_day'].t)
  ctx.assume(W_LAST(item) == rec['last_day'].t)


lc.ITEM_HOOKS_BY_MODULE['utils'] = {'lift': _lift, 'reflect': _reflect}


def window_of_entry(w, e):
  """Window w is what entry e denotes: a day, or a closed range."""
  n = lc.NPIECES(e)
  return z3.And(
      z3.Or(n == 1, n == 2),
      W_FIRST(w) == lc.TS(lc.PIECE(e, 0)),
      W_LAST(w) == lc.TS(lc.PIECE(e, n - 1)),
      z3.Not(lc.TS_GT(W_FIRST(w), W_LAST(w))))


def _fd_windows(s, seq):
  w = z3.Const('w!fd', ItemSort)
  src = unwrap(s.dates_to_exclude)
  return z3.ForAll([w], z3.Implies(z3.IsMember(w, seq.elems), z3.And(
      z3.IsMember(W_SRC(w), src.elems), window_of_entry(w, W_SRC(w)))))


def _fd_ghost_src(s):
  item = lc.item_term(unwrap(s.args[0]))
  s.ctx.assume(W_SRC(item) == unwrap(s.x).t)
  return z3.BoolVal(True)


spec.contract(
    'find_days_to_exclude',
    params={'dates_to_exclude': TSeq(Str)}, result=TSeq(ItemSort),
    modifies=[], props=('C20',),
    raises_only=['ValueError'],
    locals_shapes={'days_exclude': TSeq(ItemSort)},
    at_calls={'days_exclude.append': [
        ('ghost: the window comes from the current entry', _fd_ghost_src, ())]},
    ensures=[
        ('C20 one window per entry', lambda s: unwrap(s.result).length ==
         unwrap(s.dates_to_exclude).length),
        ('C20 every window is the day / closed range its entry denotes and is '
         'not reversed', lambda s: _fd_windows(s, unwrap(s.result))),
    ],
    loops=[LoopSpec(('x', 'dates_to_exclude'), invariants=[
        ('one window per visited entry', lambda s: z3.And(
            unwrap(s.days_exclude).length == N(s.iter_index),
            _fd_windows(s, unwrap(s.days_exclude))))])])


def _covered(s, dayset, windows):
  """dayset is the union of the day sets of the windows."""
  d = z3.Const('d!ex', Ts)
  w = z3.Const('w!ex', ItemSort)
  return z3.ForAll([d], z3.IsMember(d, dayset) == z3.Exists([w], z3.And(
      z3.IsMember(w, windows), z3.IsMember(d, lc.DR(W_FIRST(w), W_LAST(w))))))


spec.contract(
    'expand_time_windows',
    params={'periods': TSeq(ItemSort)}, result=TSeq(Ts),
    modifies=[], props=('C20',),
    raises_only=['ValueError'],
    locals_shapes={'days_exclude': TSeq(Ts)},
    ensures=[
        ('C20 the expansion holds exactly the days covered by some window',
         lambda s: _covered(s, unwrap(s.result).elems,
                            unwrap(s.periods).elems)),
        ('C20 every day occurs once', lambda s: unwrap(s.result).length ==
         Card(unwrap(s.result).elems)),
    ],
    loops=[LoopSpec(('window', 'periods'), invariants=[
        ('days collected so far are those of the visited windows',
         lambda s: _covered(s, unwrap(s.days_exclude).elems, S(s.visited)))])])

LEMMAS = []
FUNCTIONS = ['find_days_to_exclude', 'expand_time_windows']
CC_FUNCTIONS = ['TimeWindow.__post_init__']

# ---------------------------------------------------------------------------
# common_classes.EstimatedTimeSeriesWithConfidenceInterval.__init__ (C18
# proved core): the container accepts exactly the frames with the four
# columns whose every row has lower <= estimate <= upper.  `self` IS the
# frame (the class derives from pd.DataFrame); super().__init__ builds it from
# the arguments and is not interpreted.

from mmverif.engine import frame_ledger as _fl                      # noqa
from mmverif.engine.lib import ASSUMPTIONS as _ASSUME, builtin as _builtin, lib as _lib  # noqa
from mmverif.engine.pandas_ledger import VBound as _VBound          # noqa

R = z3.RealSort()
CIF = sort_named('CIFrame')
CI_NROWS = z3.Function('CI_NROWS', CIF, I)
CI_CELL = z3.Function('CI_CELL', CIF, I, I, R)
CI_COLS = z3.Function('CI_COLS', CIF, z3.SetSort(I))

_ASSUME.extend([
    'pandas (series container): after DataFrame.__init__ the object is a '
    'frame with a set of column names and real cells; set.issubset(columns) '
    'is membership of names; df[a] > df[b] flags the rows where the cell of a '
    'exceeds the cell of b; np.any(mask) is "some row is flagged"',
])


class VCIFrame(V):
  kind = 'ciframe'

  def __init__(self, t):
    self.t = t

  def flatten(self):
    return [self.t]

  def py_getattr(self, ex, name, node):
    if name == 'columns':
      return VCICols(self)
    ex.unsupported(node, 'series container attribute %s' % name)

  def py_getitem(self, ex, idx, node):
    if isinstance(idx, VStr):
      return VCICol(self, _fl.colcode(idx.s))
    ex.unsupported(node, 'series container [%s]' % idx.kind)


class VCICols(V):
  kind = 'ciframe.columns'

  def __init__(self, f):
    self.f = f

  def py_toset(self, ex, node):
    return VSet(CI_COLS(self.f.t), I)


class VCICol(V):
  kind = 'ciframe.col'

  def __init__(self, f, col):
    self.f = f
    self.col = col

  def py_compare(self, ex, op, other, node):
    import ast
    if not (isinstance(other, VCICol) and other.f.t.eq(self.f.t)):
      ex.unsupported(node, 'column comparison')
    t, a, b = self.f.t, self.col, other.col
    f = {ast.Gt: lambda x, y: x > y, ast.Lt: lambda x, y: x < y,
         ast.GtE: lambda x, y: x >= y, ast.LtE: lambda x, y: x <= y}.get(
             type(op))
    if f is None:
      ex.unsupported(node, 'column comparison operator')
    return VCIMask(self.f, lambda i: f(CI_CELL(t, a, i), CI_CELL(t, b, i)))


class VCIMask(V):
  kind = 'ciframe.mask'

  def __init__(self, f, pred):
    self.f = f
    self.pred = pred

  def py_any(self, ex, node):
    i = z3.Int(ex.ctx.sym('i'))
    return VBool(z3.Exists([i], z3.And(i >= 0, i < CI_NROWS(self.f.t),
                                       self.pred(i))))


@_lib('numpy.any')
def _np_any(ex, args, kwargs, node):
  v = args[0]
  if hasattr(v, 'py_any'):
    return v.py_any(ex, node)
  ex.unsupported(node, 'np.any of %s' % v.kind)


class VSuper(V):
  kind = 'super'

  def py_getattr(self, ex, name, node):
    if name == '__init__':
      return _VBound(lambda ex_, a, k, n: NONE)
    ex.unsupported(node, 'super().%s' % name)


@_builtin('super')
def _super(ex, args, kwargs, node):
  return VSuper()


def _ci_setup(ctx, env, values):
  """`self` is the frame itself."""
  f = VCIFrame(z3.Const(ctx.sym('self_frame'), CIF))
  ctx.assume(CI_NROWS(f.t) >= 0)
  values['self'] = f
  env.vars['self'] = f


def _ci_missing(s):
  t = unwrap(s.self).t
  return z3.Not(z3.And([z3.IsMember(_fl.colcode(c), CI_COLS(t))
                        for c in ('date', 'estimate', 'lower', 'upper')]))


def _ci_bad(s):
  t = unwrap(s.self).t
  i = z3.Int('i!ci')
  est, lo, up = (_fl.colcode(c) for c in ('estimate', 'lower', 'upper'))
  return z3.Exists([i], z3.And(i >= 0, i < CI_NROWS(t), z3.Or(
      CI_CELL(t, lo, i) > CI_CELL(t, est, i),
      CI_CELL(t, up, i) < CI_CELL(t, est, i))))


cspec.contract(
    'EstimatedTimeSeriesWithConfidenceInterval.__init__',
    params={'args': TOpaque('Args'), 'kwargs': TOpaque('KwDict')},
    modifies=[], props=('C18',), setup=_ci_setup,
    raises={
        'KeyError': ('one of the columns date / estimate / lower / upper is '
                     'missing', _ci_missing),
        'ValueError': ('the columns are present and some row has lower > '
                       'estimate or upper < estimate',
                       lambda s: z3.And(z3.Not(_ci_missing(s)), _ci_bad(s))),
    },
    ensures=[('C18 an accepted series has lower <= estimate <= upper on '
              'every row', lambda s: z3.Not(_ci_bad(s)))])

CC_FUNCTIONS.append('EstimatedTimeSeriesWithConfidenceInterval.__init__')
