"""Contracts of the search functions of tbrmatchedmarkets.py (second part of
the sidecar): exhaustive_search, its closure skip_if_subset, search_results,
greedy_search, count_max_designs."""
import z3

from mmverif.contracts import clients_spec as cl
from mmverif.contracts import heapdict_spec as hd
from mmverif.contracts import tbrmmdata_spec as td
from mmverif.contracts.tbrmatchedmarkets_spec import *  # pylint: disable=wildcard-import
from mmverif.contracts.tbrmatchedmarkets_spec import (spec, CLS, MOD, GA, INV,
                                                      installed, legal_t,
                                                      legal_c, in_range,
                                                      tol_ok, SHI, GA_MOD)
from mmverif.engine import cardlemmas
from mmverif.engine import libcontracts as lc
from mmverif.engine.specops import *  # pylint: disable=wildcard-import
from mmverif.engine.specs import LoopSpec
from mmverif.engine.specs import clauses as _clauses
from mmverif.engine.values import *  # pylint: disable=wildcard-import

I = z3.IntSort()
SetI = z3.SetSort(I)
card = cardlemmas.card

# ---------------------------------------------------------------------------
# background assumptions of the searches (stated in C09's precondition)

Arr = sort_named('Arr')
WIDTH = z3.Function('WIDTH', sort_named('PanelData'), I)


def _agg_len_axiom(ctx):
  tag = z3.Const('tag!ax', sort_named('PanelData'))
  sid = z3.Int('sid!ax')
  st = z3.Const('S!ax', SetI)
  agg = z3.Function('AGG', sort_named('PanelData'), I, SetI, Arr)
  return z3.ForAll([tag, sid, st], cl.LEN(agg(tag, sid, st)) == WIDTH(tag))


def _corr_axiom(ctx):
  """Correlations of real (non-constant, non-collinear) series lie strictly
  inside (-1, 1): stated on the spec function of `corr`."""
  x, y = z3.Consts('x!ax y!ax', Arr)
  ps = [z3.Int('p0!ax')] + [z3.Real('p%d!ax' % i) for i in range(1, 5)]
  xn = z3.Bool('xn!ax')
  f = z3.Function('F_corr#r.val', z3.BoolSort(), Arr, Arr, I,
                  z3.RealSort(), z3.RealSort(), z3.RealSort(),
                  z3.RealSort(), z3.RealSort())
  t = f(xn, x, y, *ps)
  return z3.ForAll([xn, x, y] + ps, z3.And(t > -1, t < 1))


spec.axioms.append(('aggregate series have one entry per date of the '
                    'analysis window', _agg_len_axiom))
spec.axioms.append(('series are non-constant and not collinear: correlations '
                    'lie strictly inside (-1, 1) (precondition of C09; floats '
                    'as reals, no NaN)', _corr_axiom))


def window_ok(s):
  """C09's precondition: the analysis window has >= n_test + 3 time points."""
  tag = unwrap(s.self.data.df).tag
  return WIDTH(tag) >= N(s.self.parameters.n_test) + 3


def heap_ok(s):
  h = s.lheap
  r = z3.Int('r!hk')
  e = z3.Const('e!hk', ItemSort)
  return z3.And(z3.ForAll([r, e], z3.Select(z3.Select(h['bag'], r), e) >= 0),
                z3.ForAll([r], z3.Select(h['len'], r) >= 0), h['alloc'] >= 0)


SEARCH_REQ = INV + [('the analysis window holds at least n_test + 3 dates',
                     window_ok),
                    ('list heap well formed', heap_ok)]

# ---------------------------------------------------------------------------
# spec predicates at index level


def agg_y(s, sset):
  d = s.self.data
  return td.AGG(unwrap(d._array).val.tag, unwrap(d._array).val.labels, sset)


def RI(s, t, c):
  """Required impact of the design (T, C)."""
  return cl.RIv(agg_y(s, c), agg_y(s, t), s.self.parameters)


def legal(s, t, c):
  ga = GA(s)
  return z3.And(t != z3.EmptySet(I), c != z3.EmptySet(I),
                z3.SetIntersect(t, c) == z3.EmptySet(I),
                legal_t(ga, t), legal_c(ga, t, c),
                z3.IsSubset(t, S(ga.all)), z3.IsSubset(c, S(ga.all)))


def sizes_ok(s, t, c):
  p = s.self.parameters
  return z3.And(in_range(card(t), p.treatment_geos_range),
                in_range(card(c), p.control_geos_range),
                tol_ok(z3.ToReal(card(c)) / z3.ToReal(card(t)),
                       p.geo_ratio_tolerance))


def share1_ok(s, t):
  return in_range(SHI(s, t), s.self.parameters.treatment_share_range)


def vol_ok(s, t, c):
  return tol_ok(SHI(s, c) / SHI(s, t), s.self.parameters.volume_ratio_tolerance)


def budget_ok(s, t, c):
  p = s.self.parameters
  return in_range(RI(s, t, c) / N(p.iroas), p.budget_range)


# ---------------------------------------------------------------------------
# stored designs as heap items (see search_results below)

IT_T = z3.Function('IT_T', ItemSort, SetI)
IT_C = z3.Function('IT_C', ItemSort, SetI)
KEY0 = z3.Function('key_int', I, KeySort)(z3.IntVal(0))


def _stored_ok(s):
  """Every design stored under key 0 has groups made of positions of the
  installed geo index; no other key is used."""
  dd = unwrap(s.results._result)
  bag = hd.bag_of(dd, s.lheap, KEY0)
  ga = GA(s)
  it = z3.Const('it!so', ItemSort)
  k = z3.Const('k!so', KeySort)
  return z3.And(
      z3.ForAll([k], z3.Implies(z3.IsMember(k, dd.dom), k == KEY0)),
      z3.ForAll([it], z3.Implies(z3.Select(bag, it) >= 1, z3.And(
          z3.IsSubset(IT_T(it), S(ga.all)), z3.IsSubset(IT_C(it), S(ga.all))))))


def _reflect_push(s):
  """Ghost definition: the heap item standing for the pushed design object
  carries the design's groups."""
  item = lc.item_term(unwrap(s.design))
  s.ctx.assume(IT_T(item) == S(s.design.treatment_geos))
  s.ctx.assume(IT_C(item) == S(s.design.control_geos))
  return z3.BoolVal(True)


# ---------------------------------------------------------------------------
# closure skip_if_subset

spec.contract(
    CLS + '.exhaustive_search.skip_if_subset',
    params={'geos': TSet()},
    captured={'skip_treatment_geo_patterns': TSeq(SetI)},
    result=TBool(), modifies=[], props=('C03',),
    ensures=[('true exactly when a stored pattern is a subset of the geos',
              lambda s: Iff(s.result, Exists(SetI, lambda p: z3.And(
                  z3.IsMember(p, unwrap(s.skip_treatment_geo_patterns).elems),
                  z3.IsSubset(p, S(s.geos))))))],
    loops=[LoopSpec(('p', 'skip_treatment_geo_patterns'), invariants=[
        ('no visited pattern is a subset', lambda s: ForAll(
            SetI, lambda p: z3.Implies(z3.IsMember(p, S(s.visited)),
                                       z3.Not(z3.IsSubset(p, S(s.geos))))))])])

# ---------------------------------------------------------------------------
# exhaustive_search


def _results_wf(s):
  return hd.wf(unwrap(s.results._result), s.lheap)


def _push_c01(s):
  return legal(s, S(s.treatment_group), S(s.control_group))


def _push_c02_sizes(s):
  return sizes_ok(s, S(s.treatment_group), S(s.control_group))


def _push_c02_share(s):
  return share1_ok(s, S(s.treatment_group))


def _push_c02_vol(s):
  return vol_ok(s, S(s.treatment_group), S(s.control_group))


def _push_c02_budget(s):
  return budget_ok(s, S(s.treatment_group), S(s.control_group))


def _diag_is(dv, s, t, c):
  return z3.And(z3.Not(unwrap(dv._x).none), z3.Not(unwrap(dv._y).none),
                cl.arr(dv._x) == agg_y(s, c), cl.arr(dv._y) == agg_y(s, t))


def _push_c04_series(s):
  d = s.design
  t, c = S(s.treatment_group), S(s.control_group)
  return And(SetEq(d.treatment_geos, t), SetEq(d.control_geos, c),
             Not(IsNone(d.diag)),
             _diag_is(ObjView(s.ctx, unwrap(d.diag).val, None), s, t, c),
             _diag_is(d.score.diag, s, t, c))


def _push_c04_score(s):
  d = s.design
  t, c = S(s.treatment_group), S(s.control_group)
  p = s.self.parameters
  sc = unwrap(d.score._score)
  x, y = agg_y(s, c), agg_y(s, t)
  b = unwrap(p.budget_range)
  first5 = [N(sc.val.items[k]) == cl.SCORE(x, y, p, k) for k in range(5)]
  last = z3.If(b.none, N(sc.val.items[5]) == cl.SCORE(x, y, p, 5),
               N(sc.val.items[5]) == 1 / (RI(s, t, c) / N(b.val.items[1])))
  return z3.And(z3.Not(sc.none), last, *first5)


def _freeze(s):
  """Ownership: everything reachable from the stored design was allocated in
  this iteration (fresh copies), and is never written again."""
  ctx = s.ctx
  d = unwrap(s.design)
  seen = {}
  stack = [d]
  ok = True
  bad = []
  while stack:
    o = stack.pop()
    if o.oid in seen:
      continue
    seen[o.oid] = o
    for f, v in ctx.objects[o.oid].fields.items():
      if isinstance(v, VOpt):
        v = v.val
      if isinstance(v, VObj):
        stack.append(v)
  for oid, o in seen.items():
    rec = ctx.objects[oid]
    if o.cls == 'TBRMMDesignParameters' and rec.symbolic:
      continue       # the caller's parameter object is never written (frames)
    if rec.epoch != ctx.epoch or rec.symbolic:
      bad.append(o.cls)
    ctx.frozen[oid] = 'stored design'
  return z3.BoolVal(not bad)


EX_LOOP_MOD = ['results._result', '@lheap'] + [
    'self.data.' + f for f in ('_geo_index', 'geo_assignments', '_array',
                               '_array_geo_share')]
EX_INV = [('result heap well formed', _results_wf),
          ('the geo index of geo_assignments is installed', installed),
          ('stored designs are made of index positions', _stored_ok,
           ('C01', 'C04', 'C09', 'C10'))]

def optbud(s, t):
  """Optimistic required budget of a treatment group (at rho_max)."""
  p = s.self.parameters
  return cl.EST0(agg_y(s, t), p, N(p.rho_max)) / N(p.iroas)


def _skip_t_documented(s):
  """A treatment group is skipped only for a documented reason: its share of
  the response is outside the share range; or (no share range) a recorded
  over-budget treatment group is contained in it; or its optimistic required
  budget is outside the budget range."""
  p = s.self.parameters
  t = S(s.treatment_group)
  sr, br = unwrap(p.treatment_share_range), unwrap(p.budget_range)
  pat = z3.Const('p!sk', SetI)
  skipped = z3.Exists([pat], z3.And(
      z3.IsMember(pat, unwrap(s.skip_treatment_geo_patterns).elems),
      z3.IsSubset(pat, t)))
  ob = optbud(s, t)
  return z3.Or(
      z3.And(z3.Not(sr.none), z3.Not(share1_ok(s, t))),
      z3.And(sr.none, skipped),
      z3.And(z3.Not(br.none), z3.Or(ob > N(br.val.items[1]),
                                    ob < N(br.val.items[0]))))


def _skip_c_documented(s):
  """A (treatment, control) pair is skipped only when its volume ratio or its
  required budget is outside the inclusive bounds."""
  p = s.self.parameters
  t, c = S(s.treatment_group), S(s.control_group)
  vt, br = unwrap(p.volume_ratio_tolerance), unwrap(p.budget_range)
  return z3.Or(z3.And(z3.Not(vt.none), z3.Not(vol_ok(s, t, c))),
               z3.And(z3.Not(br.none), z3.Not(budget_ok(s, t, c))))


spec.contract(
    CLS + '.exhaustive_search', params={},
    result=TSeq(ItemSort),
    at_continue={
        'treatment_group': [
            ('C03 a treatment group is skipped only for a documented reason '
             '(share outside range, superset of a recorded over-budget group, '
             'optimistic budget outside range)', _skip_t_documented,
             ('C03',))],
        'control_group': [
            ('C03 a design is skipped only when its volume ratio or required '
             'budget is outside the inclusive bounds', _skip_c_documented,
             ('C03', 'C02'))],
    },
    modifies=GA_MOD + ['self._search_results'],
    props=('C01', 'C02', 'C04', 'C09', 'C10'),
    requires=SEARCH_REQ,
    locals_shapes={'skip_treatment_geo_patterns': TSeq(SetI)},
    at_calls={'results.push': [
        ('C01 pushed design is a legal assignment (index level)', _push_c01,
         ('C01',)),
        ('C02 pushed design: group sizes and geo ratio within bounds',
         _push_c02_sizes, ('C02',)),
        ('C02 pushed design: treatment share within range', _push_c02_share,
         ('C02',)),
        ('C02 pushed design: volume ratio within tolerance', _push_c02_vol,
         ('C02',)),
        ('C02 pushed design: required budget within range', _push_c02_budget,
         ('C02',)),
        ('C04 stored series are the aggregates of the stored groups',
         _push_c04_series, ('C04',)),
        ('C04 stored score is the score of the stored groups',
         _push_c04_score, ('C04',)),
        ('C04 stored design owns fresh copies (not shared with the loop)',
         _freeze, ('C04',)),
        ('ghost: item view of the pushed design', _reflect_push, ()),
    ]},
    ensures=[],
    loops=[
        LoopSpec(('treatment_group_size', 'treatment_group_sizes'),
                 invariants=EX_INV, extra_modifies=EX_LOOP_MOD,
                 must_iterate='treatment_group', no_break=True),
        LoopSpec(('treatment_group', 'treatment_groups'),
                 invariants=EX_INV, extra_modifies=EX_LOOP_MOD,
                 must_iterate='control_group', no_break=True),
        LoopSpec(('control_group', 'control_groups'),
                 invariants=EX_INV, must_call='results.push', no_break=True,
                 extra_modifies=EX_LOOP_MOD + ['diag._x', 'diag._x_mean'] + [
                     'diag.' + f for f in cl.dg.CACHES]),
    ])

# ---------------------------------------------------------------------------
# stored designs as heap items: IT_T / IT_C give the index groups of a stored
# item, RT / RC the ID groups of a returned (copied) design object.

RT = z3.Function('RT', ItemSort, SetI)
RC = z3.Function('RC', ItemSort, SetI)
SRC = z3.Function('SRC', ItemSort, ItemSort)   # stored item a copy came from
IMG = z3.Function('IMG', I, SetI, SetI)


def _lift(ctx, item):
  """Object view of a stored design item (only the groups are interpreted)."""
  obj = ctx.new_object('TBRMMDesign', 'stored_design')
  rec = ctx.objects[obj.oid]
  rec.fields['treatment_geos'] = VSet(IT_T(item), I)
  rec.fields['control_geos'] = VSet(IT_C(item), I)
  rec.fields['score'] = VOpaque(z3.Function('IT_SCORE', ItemSort, sort_named(
      'ScoreRef'))(item), 'ScoreRef')
  rec.fields['diag'] = VOpaque(z3.Function('IT_DIAG', ItemSort, sort_named(
      'DiagRef'))(item), 'DiagRef')
  obj.lifted_from = item
  # the object IS the stored design: writing to it changes the stored result
  ctx.frozen[obj.oid] = 'stored design'
  ctx.lifted = getattr(ctx, 'lifted', {})
  ctx.lifted[obj.oid] = item
  return obj


def _reflect(ctx, obj, item):
  """Facts about the item that stands for an object stored into a list."""
  rec = ctx.objects[obj.oid]
  t = rec.fields.get('treatment_geos')
  c = rec.fields.get('control_geos')
  if isinstance(t, VSet):
    ctx.assume(RT(item) == t.t)
  if isinstance(c, VSet):
    ctx.assume(RC(item) == c.t)
  src = getattr(ctx, 'lifted', {}).get(getattr(obj, 'copy_of', obj.oid))
  if src is not None:
    ctx.assume(SRC(item) == src)


lc.ITEM_HOOKS_BY_MODULE['tbrmatchedmarkets'] = {'lift': _lift,
                                                'reflect': _reflect}


def stored_bag(s, hd_obj, lheap_):
  dd = unwrap(hd_obj._result)
  return hd.bag_of(dd, lheap_, KEY0), hd.len_of(dd, lheap_, KEY0), dd


def _sr_requires(s):
  bag, ln, dd = stored_bag(s, s.self._search_results, s.lheap)
  idx = unwrap(s.self.data._geo_index).val
  it = z3.Const('it!sr', ItemSort)
  k = z3.Const('k!sr', KeySort)
  rng = cardlemmas.range_set(z3.IntVal(0), idx.length)
  return z3.And(
      hd.wf(dd, s.lheap),
      z3.ForAll([k], z3.Implies(z3.IsMember(k, dd.dom), k == KEY0)),
      z3.ForAll([it], z3.Implies(z3.Select(bag, it) >= 1, z3.And(
          z3.IsSubset(IT_T(it), rng), z3.IsSubset(IT_C(it), rng)))))


def _sr_elems(s, seq):
  """Every returned design is a copy of a stored one with both groups mapped
  through the geo index."""
  bag, ln, dd = stored_bag(s, s.old.self._search_results, s.old_lheap)
  idx = unwrap(s.self.data._geo_index).val
  it = z3.Const('it!se', ItemSort)
  return z3.ForAll([it], z3.Implies(z3.IsMember(it, seq.elems), z3.And(
      z3.Select(bag, SRC(it)) >= 1,
      RT(it) == IMG(idx.sid, IT_T(SRC(it))),
      RC(it) == IMG(idx.sid, IT_C(SRC(it))))))


def _sr_post_elems(s):
  return _sr_elems(s, unwrap(s.result))


def _sr_post_len(s):
  bag, ln, dd = stored_bag(s, s.old.self._search_results, s.old_lheap)
  return unwrap(s.result).length == ln


def _sr_inv(s):
  seq = unwrap(s.output_result)
  return z3.And(_sr_elems(s, seq), seq.length == N(s.iter_index))


def _sr_heap_kept(s):
  return hd._lists_unchanged(s)


spec.contract(
    CLS + '.search_results', params={}, result=TSeq(ItemSort),
    modifies=[], props=('C01', 'C04', 'C10', 'C14'),
    requires=[('a search has stored well-formed designs over the installed '
               'geo index', _sr_requires),
              ('the geo index of geo_assignments is installed', installed),
              ('list heap well formed', heap_ok)],
    locals_shapes={'output_result': TSeq(ItemSort)},
    ensures=[
        ('C01/C04 every returned design is a stored design with its groups '
         'mapped index -> ID through the geo index', _sr_post_elems,
         ('C01', 'C04')),
        ('C14 as many designs as stored (at most n_designs), in heap order',
         _sr_post_len, ('C14',)),
        ('C10 the stored designs are not modified', _sr_heap_kept, ('C10',)),
    ],
    loops=[LoopSpec(('d', 'design'), invariants=[
        ('copies so far are mapped stored designs', _sr_inv),
        ('stored lists unchanged', _sr_heap_kept)],
                    extra_modifies=[])])

def _search_post_elems(s):
  """Returned designs are the stored designs of this search, groups mapped
  index -> ID through the installed geo index."""
  dd = unwrap(s.self._search_results._result)
  bag = hd.bag_of(dd, s.lheap, KEY0)
  idx = unwrap(s.self.data._geo_index).val
  seq = unwrap(s.result)
  ga = GA(s)
  it = z3.Const('it!sp', ItemSort)
  return z3.ForAll([it], z3.Implies(z3.IsMember(it, seq.elems), z3.And(
      z3.Select(bag, SRC(it)) >= 1,
      RT(it) == IMG(idx.sid, IT_T(SRC(it))),
      RC(it) == IMG(idx.sid, IT_C(SRC(it))),
      z3.IsSubset(IT_T(SRC(it)), S(ga.all)),
      z3.IsSubset(IT_C(SRC(it)), S(ga.all)))))


def _search_post_len(s):
  dd = unwrap(s.self._search_results._result)
  return unwrap(s.result).length == hd.len_of(dd, s.lheap, KEY0)


FUNCTIONS2 = [CLS + '.exhaustive_search.skip_if_subset',
              CLS + '.exhaustive_search', CLS + '.search_results']

# ---------------------------------------------------------------------------
# greedy_search

DSET = TDict(I, TSet())


def ctl_ok(ga, c, t):
  """Control group c is admissible next to treatment group t (= legal_c)."""
  e = z3.EmptySet(I)
  return z3.And(z3.IsSubset(S(ga.c_fixed), c), z3.IsSubset(c, S(ga.c)),
                z3.SetIntersect(c, t) == e,
                z3.IsSubset(S(ga.ct), z3.SetUnion(t, c)))


def dget(d, k):
  d = unwrap(d)
  return z3.Select(d.val, k)


def _kappa0(s):
  return card(S(GA(s).t_fixed))


def _J(s):
  ga = GA(s)
  trt, cst = unwrap(s.group_star_trt), unwrap(s.group_star_ctl)
  k = N(s.k)
  nm = B(s.needs_matching)
  gc = S(s.group_ctl)
  k0 = _kappa0(s)
  j = z3.Int('j!J')
  return z3.And(
      k >= k0,
      trt.dom == cardlemmas.range_set(k0, k + 1),
      cst.dom == z3.If(nm, cardlemmas.range_set(k0, k),
                       cardlemmas.range_set(k0, k + 1)),
      z3.ForAll([j], z3.Implies(z3.And(j >= k0, j <= k), z3.And(
          legal_t(ga, z3.Select(trt.val, j)),
          z3.IsSubset(z3.Select(trt.val, j), S(ga.all))))),
      z3.ForAll([j], z3.Implies(
          z3.And(j >= k0, z3.If(nm, j < k, j <= k)),
          ctl_ok(ga, z3.Select(cst.val, j), z3.Select(trt.val, j)))),
      ctl_ok(ga, gc, z3.Select(trt.val, k)))


def SVset(s, t, c):
  """Score tuple of the design (treatment group t, control group c)."""
  x, y = agg_y(s, c), agg_y(s, t)
  return [cl.SCORE(x, y, s.self.parameters, k) for k in range(6)]


def _sv_eq(a, b):
  return z3.And([(z3.ToReal(x) if x.sort() != y.sort() and x.sort() == I
                  else x) ==
                 (z3.ToReal(y) if x.sort() != y.sort() and y.sort() == I
                  else y) for x, y in zip(a, b)])


def _inner_match_inv(s):
  ga = GA(s)
  trt = unwrap(s.group_star_trt)
  return z3.And(ctl_ok(ga, S(s.group_ctl_tmp), z3.Select(trt.val, N(s.k))),
                B(cl.comparable(s.current_score)))


def _inner_match_score(s):
  """The best score so far is the score of the best control group so far."""
  trt = unwrap(s.group_star_trt)
  return _sv_eq(cl.SV(s.current_score),
                SVset(s, z3.Select(trt.val, N(s.k)), S(s.group_ctl_tmp)))


# Termination of the greedy walk (C09).  RANK(x, y) = number of control groups
# C' within the control-eligible geos whose design (T, C') scores strictly
# below the design with control series x, for the treatment series y.  It is a
# count over a finite family, so it lies in [0, RANK_MAX], and a strictly
# better admissible control group has a strictly larger rank because the
# lexicographic order on real tuples is irreflexive and transitive.  The
# instance used at the back edge is passed to the obligation as a hypothesis
# and listed as an assumption (a mathematical lemma about finite sets, not
# about the code).
RANK = z3.Function('GREEDY_RANK', cl.Arr, cl.Arr, I)
RANK_MAX = z3.Int('GREEDY_RANK_MAX')


class _VT(tuple):
  snap = None


def _greedy_variant(s):
  trt = unwrap(s.group_star_trt)
  k, mx = N(s.k), N(s.max_treatment_size)
  t = z3.Select(trt.val, k)
  gc = S(s.group_ctl)
  v = _VT([z3.If(k < mx, mx - k, z3.IntVal(0)),
           z3.If(B(s.needs_matching), z3.IntVal(1), z3.IntVal(0)),
           RANK_MAX - RANK(agg_y(s, gc), agg_y(s, t))])
  v.snap = (t, gc, SVset(s, t, gc), z3.IsSubset(gc, S(GA(s).c)))
  return v


def _greedy_rank_lemma(s, v0, v1):
  t0, c0, sv0, in0 = v0.snap
  t1, c1, sv1, in1 = v1.snap
  r0 = RANK(agg_y(s, c0), agg_y(s, t0))
  r1 = RANK(agg_y(s, c1), agg_y(s, t1))
  return [
      ('finite-set ranking: ranks lie in [0, RANK_MAX]',
       z3.And(r0 >= 0, r0 <= RANK_MAX, r1 >= 0, r1 <= RANK_MAX)),
      ('finite-set ranking: a strictly better admissible control group for '
       'the same treatment group has a strictly larger rank',
       z3.Implies(z3.And(in0, in1, t0 == t1, cl.lex_lt(sv0, sv1)), r0 < r1)),
  ]


def _inner_add_inv(s):
  ga = GA(s)
  return z3.And(legal_t(ga, S(s.group_trt)),
                z3.IsSubset(S(s.group_trt), S(ga.all)),
                ctl_ok(ga, S(s.group_ctl), S(s.group_trt)),
                B(cl.comparable(s.current_score)))


def _g_push_c01(s):
  k = N(s.k)
  return legal(s, dget(s.group_star_trt, k), dget(s.group_star_ctl, k))


def _g_push_c02(s):
  k = N(s.k)
  t, c = dget(s.group_star_trt, k), dget(s.group_star_ctl, k)
  p = s.self.parameters
  ga = GA(s)
  return z3.And(sizes_ok(s, t, c), vol_ok(s, t, c),
                in_range(SHI(s, t) / SHI(s, S(ga.all)),
                         p.treatment_share_range))


def _g_push_budget(s):
  k = N(s.k)
  return budget_ok(s, dget(s.group_star_trt, k), dget(s.group_star_ctl, k))


def _g_push_c04(s):
  d = s.design
  k = N(s.k)
  t, c = dget(s.group_star_trt, k), dget(s.group_star_ctl, k)
  return And(SetEq(d.treatment_geos, t), SetEq(d.control_geos, c),
             Not(IsNone(d.diag)),
             _diag_is(ObjView(s.ctx, unwrap(d.diag).val, None), s, t, c),
             _diag_is(d.score.diag, s, t, c),
             IsNone(d.score._score))


GA_FIELDS_MOD = ['self.data.' + f for f in (
    '_geo_index', 'geo_assignments', '_array', '_array_geo_share')]

spec.contract(
    CLS + '.greedy_search', params={}, result=TSeq(ItemSort),
    modifies=GA_MOD + ['self._search_results'],
    props=('C01', 'C02', 'C04', 'C09', 'C10', 'C13'),
    requires=SEARCH_REQ,
    locals_shapes={'group_star_ctl': DSET},
    at_calls={'results.push': [
        ('C01 greedy: pushed design is a legal assignment (index level)',
         _g_push_c01, ('C01', 'C13')),
        ('C02 greedy: sizes, geo ratio, volume ratio and share within bounds',
         _g_push_c02, ('C02', 'C13')),
        ('C02 greedy: required budget within range', _g_push_budget,
         ('C02',)),
        ('C04 greedy: stored series are the aggregates of the stored groups',
         _g_push_c04, ('C04',)),
        ('C04 greedy: stored design owns objects of this iteration only',
         _freeze, ('C04',)),
        ('ghost: item view of the pushed design', _reflect_push, ()),
    ]},
    loops=[
        LoopSpec(('while', '(k < max_treatment_size) | needs_matching'),
                 invariants=[
                     ('greedy invariant: stored and current groups are legal',
                      _J, ('C01', 'C09', 'C13')),
                     ('the geo index of geo_assignments is installed',
                      installed)],
                 variant=_greedy_variant, variant_lemmas=_greedy_rank_lemma,
                 extra_modifies=GA_FIELDS_MOD),
        LoopSpec(('geo', 'reassignable_geos'),
                 invariants=[('candidate control group is admissible',
                              _inner_match_inv, ('C01', 'C09', 'C13')),
                             ('C09 termination: the best score so far is the '
                              'score of the best control group so far',
                              _inner_match_score, ('C09',)),
                             ('index installed', installed)],
                 extra_modifies=GA_FIELDS_MOD),
        LoopSpec(('geo', 'r_treatment'),
                 invariants=[('candidate groups are admissible',
                              _inner_add_inv, ('C01', 'C09', 'C13')),
                             ('index installed', installed)],
                 extra_modifies=GA_FIELDS_MOD),
        LoopSpec(('k', 'group_star_trt'),
                 invariants=[('result heap well formed', _results_wf),
                             ('index installed', installed),
                             ('stored designs are made of index positions',
                              _stored_ok, ('C01', 'C04', 'C09', 'C10'))],
                 # `self._search_results` is in the havoc set so that a body
                 # that stores the heap inside this loop is still analysed
                 # (the own-heap postcondition then decides)
                 extra_modifies=EX_LOOP_MOD + ['self._search_results']),
    ])

FUNCTIONS2.append(CLS + '.greedy_search')

def _own_heap(s):
  """No hidden state: the heap the search leaves on the object was created
  by THIS call (so it holds only designs pushed by this call), on every path,
  also when nothing was pushed."""
  h = unwrap(s.self._search_results)
  if isinstance(h, VOpt):
    if z3.is_true(z3.simplify(h.none)):
      return z3.BoolVal(False)
    h = h.val
  rec = s.ctx.objects[h.oid]
  return z3.BoolVal(not rec.symbolic)


for _q in ('exhaustive_search', 'greedy_search'):
  spec.contracts[CLS + '.' + _q].ensures.extend(_clauses([
      ('C10 the stored result heap is the one created by this call (no '
       'designs of an earlier search survive, whether or not anything was '
       'pushed)', _own_heap, ('C10', 'C03', 'C13')),
      ('C01/C04 the returned list holds exactly copies of the stored designs '
       'with index groups mapped to geo IDs', _search_post_elems,
       ('C01', 'C04')),
      ('C14 one returned design per stored design (the heap keeps at most '
       'n_designs)', _search_post_len, ('C14',)),
  ], ('C01',)))


# ---------------------------------------------------------------------------
# exactness of the control size generator and count_max_designs (C11)

from mmverif.contracts.tbrmatchedmarkets_spec import (ctl_size_ok, trt_bounds,
                                                      ctl_bounds)  # noqa


def _csg_exact(s):
  """The yielded control sizes are exactly the admissible ones."""
  ga = GA(s)
  m = z3.Int('m!cx')
  ys = S(s.yielded)
  return z3.ForAll([m], z3.IsMember(m, ys) == ctl_size_ok(
      s, ga, m, N(s.n_treatment_geos)))


def _csg_loop_inv(s):
  ga = GA(s)
  m = z3.Int('m!ci')
  ys = S(s.yielded)
  lo = N(s.n_geos_from)
  k = N(s.iter_index)
  return z3.ForAll([m], z3.IsMember(m, ys) == z3.And(
      m < lo + k, ctl_size_ok(s, ga, m, N(s.n_treatment_geos))))


_c = spec.contracts[CLS + '._control_group_size_generator']
_c.gen_post = _clauses([('C11 exactly the admissible control sizes are '
                         'yielded', _csg_exact, ('C11', 'C03'))], ('C11',))
_c.loops = [LoopSpec(('n_control_geos', 'range(n_geos_from, n_geos_to + 1)'),
                     invariants=[('sizes yielded so far are exactly the '
                                  'admissible ones below the current size',
                                  _csg_loop_inv, ('C11', 'C03'))])]

BIN = lc.BINOM
S1 = z3.Function('CMD_S1', I, I)
S2 = z3.Function('CMD_S2', I, I, I)
S3 = z3.Function('CMD_S3', I, I, I, I)
S4 = z3.Function('CMD_S4', I, I, I, I, I)
S5 = z3.Function('CMD_S5', I, I, I, I, I, I)


def _counts(s):
  ga = GA(s)
  return {k: card(S(getattr(ga, k))) for k in
          ('t_fixed', 'c_fixed', 'cx', 'tx', 'ct', 'ctx')}


def _TS(s, n):
  lo, hi = trt_bounds(s, GA(s))
  return z3.And(n >= lo, n <= hi)


def _CS(s, m, n):
  return ctl_size_ok(s, GA(s), m, n)


def _cmd_defs(s):
  """Recursive definitions of the partial sums (the spec of the count)."""
  c = _counts(s)
  a, b, cc, d, e, m = z3.Ints('a!d b!d c!d d!d e!d m!d')
  ntrt = c['t_fixed'] + b + cc + a
  nctl = c['c_fixed'] + d + e + (c['ct'] - a)
  prod = BIN(c['ct'], a) * BIN(c['tx'], b) * BIN(c['ctx'], cc) * BIN(
      c['cx'], d) * BIN(c['ctx'] - cc, e)
  term = z3.If(_CS(s, nctl, ntrt), prod, 0)
  ntrt3 = c['t_fixed'] + b + m + a
  return z3.And(
      z3.ForAll([a, b, cc, d], S5(a, b, cc, d, 0) == 0),
      z3.ForAll([a, b, cc, d, e], z3.Implies(
          e >= 0, S5(a, b, cc, d, e + 1) == S5(a, b, cc, d, e) + term)),
      z3.ForAll([a, b, cc], S4(a, b, cc, 0) == 0),
      z3.ForAll([a, b, cc, m], z3.Implies(
          m >= 0, S4(a, b, cc, m + 1) == S4(a, b, cc, m) + S5(
              a, b, cc, m, 1 + c['ctx'] - cc))),
      z3.ForAll([a, b], S3(a, b, 0) == 0),
      z3.ForAll([a, b, m], z3.Implies(
          m >= 0, S3(a, b, m + 1) == S3(a, b, m) + z3.If(
              _TS(s, ntrt3), S4(a, b, m, 1 + c['cx']), 0))),
      z3.ForAll([a], S2(a, 0) == 0),
      z3.ForAll([a, m], z3.Implies(
          m >= 0, S2(a, m + 1) == S2(a, m) + S3(a, m, 1 + c['ctx']))),
      S1(0) == 0,
      z3.ForAll([m], z3.Implies(
          m >= 0, S1(m + 1) == S1(m) + S2(m, 1 + c['tx']))))


def _cmd_sets(s):
  """The pre-computed size sets are the admissible sizes."""
  n, m = z3.Ints('n!cs m!cs')
  ts = S(s.trt_sizes)
  cgs = unwrap(s.control_group_sizes)
  return z3.And(
      z3.ForAll([n], z3.IsMember(n, ts) == _TS(s, n)),
      cgs.dom == ts,
      z3.ForAll([n, m], z3.Implies(
          z3.IsMember(n, ts),
          z3.IsMember(m, z3.Select(cgs.val, n)) == _CS(s, m, n))))


def _cmd_sets_inv(s):
  n, m = z3.Ints('n!ci m!ci')
  ts = S(s.trt_sizes)
  cgs = unwrap(s.control_group_sizes)
  vis = S(s.visited)
  return z3.And(
      z3.ForAll([n], z3.IsMember(n, ts) == _TS(s, n)),
      cgs.dom == vis,
      z3.ForAll([n, m], z3.Implies(
          z3.IsMember(n, vis),
          z3.IsMember(m, z3.Select(cgs.val, n)) == _CS(s, m, n))))


def _nd(s):
  return N(s.n_designs)


def _inv1(s):
  return z3.And(_cmd_sets(s), _nd(s) == S1(N(s.iter_index)))


def _inv2(s):
  return _nd(s) == S1(N(s.i_ct)) + S2(N(s.i_ct), N(s.iter_index))


def _inv3(s):
  return _nd(s) == S1(N(s.i_ct)) + S2(N(s.i_ct), N(s.i_tx)) + S3(
      N(s.i_ct), N(s.i_tx), N(s.iter_index))


def _inv4(s):
  return _nd(s) == S1(N(s.i_ct)) + S2(N(s.i_ct), N(s.i_tx)) + S3(
      N(s.i_ct), N(s.i_tx), N(s.i_ctx)) + S4(
          N(s.i_ct), N(s.i_tx), N(s.i_ctx), N(s.iter_index))


def _inv5(s):
  return _nd(s) == S1(N(s.i_ct)) + S2(N(s.i_ct), N(s.i_tx)) + S3(
      N(s.i_ct), N(s.i_tx), N(s.i_ctx)) + S4(
          N(s.i_ct), N(s.i_tx), N(s.i_ctx), N(s.i_cx)) + S5(
              N(s.i_ct), N(s.i_tx), N(s.i_ctx), N(s.i_cx), N(s.iter_index))


def _cmd_post(s):
  c = _counts(s)
  return N(s.result) == S1(1 + c['ct'])


DEFS = ('definition of the partial sums', _cmd_defs, ())
spec.contract(
    CLS + '.count_max_designs', params={}, result=TInt(),
    modifies=GA_MOD, props=('C11',),
    requires=INV + [DEFS],
    locals_shapes={'control_group_sizes': TDict(I, TSet())},
    ensures=[('C11 the count is the five-fold sum of binomial products over '
              'admissible treatment and control sizes', _cmd_post, ('C11',)),
             ('afterwards the geo index of geo_assignments is installed',
              installed, ('C10',))],
    loops=[
        LoopSpec(('n_trt', 'trt_sizes'), invariants=[
            ('control size sets computed so far are exact', _cmd_sets_inv),
            ('index installed', installed)], extra_modifies=GA_FIELDS_MOD),
        LoopSpec(('i_ct', 'range(1 + n_ct)'), invariants=[
            ('partial sum 1', _inv1)]),
        LoopSpec(('i_tx', 'range(1 + n_tx)'), invariants=[
            ('partial sum 2', _inv2)]),
        LoopSpec(('i_ctx', 'range(1 + n_ctx)'), invariants=[
            ('partial sum 3', _inv3)]),
        LoopSpec(('i_cx', 'range(1 + n_cx)'), invariants=[
            ('partial sum 4', _inv4)]),
        LoopSpec(('i_cctx', 'range(1 + n_ctx - i_ctx)'), invariants=[
            ('partial sum 5', _inv5)]),
    ])
FUNCTIONS2.append(CLS + '.count_max_designs')
