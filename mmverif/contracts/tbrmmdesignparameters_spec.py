"""Sidecar contracts for tbrmmdesignparameters.py (C17), IEEE-exact.

Every field of the object under construction holds an arbitrary dynamic value
(None, bool, int of any size, binary64 float incl. inf/NaN, pair, other tuple,
other object).  The documented domain of each field is written here from the
class docstring, independently of the code.  The three validator helpers are
verified once per call site of __post_init__ (the constant arguments are read
mechanically from the AST of the tree under test), __post_init__ is then
verified against those helper contracts.
"""
import ast

import z3

from mmverif.engine import dyn
from mmverif.engine import frontend
from mmverif.engine.dyn import Dyn, Scalar, VDyn, VFP, TDyn
from mmverif.engine.specops import *  # pylint: disable=wildcard-import
from mmverif.engine.specs import ModuleSpec, register
from mmverif.engine.values import *  # pylint: disable=wildcard-import

REL = 'matched_markets/methodology/tbrmmdesignparameters.py'
spec = register(ModuleSpec(REL, float_mode='F', safety_props=('C17',)))
CLS = 'TBRMMDesignParameters'

FIELDS = ['n_test', 'iroas', 'volume_ratio_tolerance', 'geo_ratio_tolerance',
          'treatment_share_range', 'budget_range', 'treatment_geos_range',
          'control_geos_range', 'n_geos_max', 'n_pretest_max', 'n_designs',
          'sig_level', 'power_level', 'min_corr', 'rho_max', 'flevel']
spec.cls(CLS, fields={f: TDyn() for f in FIELDS})

# ---------------------------------------------------------------------------
# documented domain (class docstring), over Scalar / Dyn terms

F64 = dyn.F64


def fp(x):
  return z3.FPVal(x, F64)


def num(s):
  return dyn.is_numeric_term(s)


def cmp_const(s, op, c):
  """scalar `op` python constant c (int or float), exact."""
  k = Scalar.int(z3.IntVal(c)) if isinstance(c, int) else Scalar.flt(fp(c))

  class _Ex:            # comparisons of numbers never raise: no safety needed
    def safety(self, *a):
      pass
  return z3.And(num(s), dyn.compare(_Ex(), op, dyn.VScalar(s),
                                    dyn.VScalar(k), None))


def integral(s):
  """Integer-valued: an int/bool, or a finite float equal to its truncation."""
  f = Scalar.fval(s)
  return z3.Or(Scalar.is_int(s), Scalar.is_boo(s), z3.And(
      Scalar.is_flt(s), z3.Not(z3.fpIsNaN(f)), z3.Not(z3.fpIsInf(f)),
      z3.fpEQ(z3.fpRoundToIntegral(dyn.RTZ, f), f)))


def scalar_field(d, pred, optional=False):
  s = Dyn.scalar(d)
  ok = z3.And(Dyn.is_sc(d), pred(s))
  if optional:
    return z3.Or(z3.And(Dyn.is_sc(d), Scalar.is_none(s)), ok)
  return ok


def pair_field(d, pred):
  """Optional pair: None or a 2-tuple of numbers satisfying pred(lo, hi)."""
  lo, hi = Dyn.fst(d), Dyn.snd(d)
  return z3.Or(z3.And(Dyn.is_sc(d), Scalar.is_none(Dyn.scalar(d))),
               z3.And(Dyn.is_tup2(d), num(lo), num(hi), pred(lo, hi)))


def lt_scalars(a, op, b):
  class _Ex:
    def safety(self, *x):
      pass
  return dyn.compare(_Ex(), op, dyn.VScalar(a), dyn.VScalar(b), None)


DOMAIN = {
    'n_test': lambda d: scalar_field(d, lambda s: z3.And(
        cmp_const(s, '>=', 1), integral(s))),
    'iroas': lambda d: scalar_field(d, lambda s: cmp_const(s, '>=', 0.0)),
    'volume_ratio_tolerance': lambda d: scalar_field(
        d, lambda s: cmp_const(s, '>', 0.0), optional=True),
    'geo_ratio_tolerance': lambda d: scalar_field(
        d, lambda s: cmp_const(s, '>', 0.0), optional=True),
    'treatment_share_range': lambda d: pair_field(d, lambda lo, hi: z3.And(
        cmp_const(lo, '>', 0.0), lt_scalars(lo, '<', hi),
        cmp_const(hi, '<', 1.0))),
    'budget_range': lambda d: pair_field(d, lambda lo, hi: z3.And(
        cmp_const(lo, '>=', 0.0), lt_scalars(lo, '<', hi),
        cmp_const(hi, '<', float('inf')))),
    'treatment_geos_range': lambda d: pair_field(d, lambda lo, hi: z3.And(
        cmp_const(lo, '>=', 1), lt_scalars(lo, '<=', hi),
        cmp_const(hi, '<', float('inf')), integral(lo), integral(hi))),
    'control_geos_range': lambda d: pair_field(d, lambda lo, hi: z3.And(
        cmp_const(lo, '>=', 1), lt_scalars(lo, '<=', hi),
        cmp_const(hi, '<', float('inf')), integral(lo), integral(hi))),
    'n_geos_max': lambda d: scalar_field(d, lambda s: z3.And(
        cmp_const(s, '>=', 2), integral(s)), optional=True),
    'n_pretest_max': lambda d: scalar_field(d, lambda s: z3.And(
        cmp_const(s, '>=', 3), integral(s))),
    'n_designs': lambda d: scalar_field(d, lambda s: z3.And(
        cmp_const(s, '>=', 1), integral(s))),
    'rho_max': lambda d: scalar_field(d, lambda s: z3.And(
        cmp_const(s, '>=', 0.9), cmp_const(s, '<', 1.0))),
    'sig_level': lambda d: scalar_field(d, lambda s: z3.And(
        cmp_const(s, '>', 0.0), cmp_const(s, '<', 1.0))),
    'power_level': lambda d: scalar_field(d, lambda s: z3.And(
        cmp_const(s, '>', 0.0), cmp_const(s, '<', 1.0))),
    'min_corr': lambda d: scalar_field(d, lambda s: z3.And(
        cmp_const(s, '>=', 0.8), cmp_const(s, '<', 1.0))),
    'flevel': lambda d: scalar_field(d, lambda s: z3.And(
        cmp_const(s, '>=', 0.9), cmp_const(s, '<', 1.0))),
}
INT_FIELDS = {'n_test', 'n_geos_max', 'n_pretest_max', 'n_designs'}
INT_PAIRS = {'treatment_geos_range', 'control_geos_range'}


def field_term(objview, f):
  return unwrap(getattr(objview, f)).t


def normalised(d0, d1, f):
  """Stored value after validation: integers are stored as ints, everything
  else is unchanged."""
  if f in INT_FIELDS:
    s0 = Dyn.scalar(d0)
    return z3.If(z3.And(Dyn.is_sc(d0), Scalar.is_none(s0)), d1 == d0,
                 d1 == Dyn.sc(Scalar.int(dyn.trunc_int(s0))))
  if f in INT_PAIRS:
    return z3.If(Dyn.is_tup2(d0),
                 d1 == Dyn.tup2(Scalar.int(dyn.trunc_int(Dyn.fst(d0))),
                                Scalar.int(dyn.trunc_int(Dyn.snd(d0)))),
                 d1 == d0)
  return d1 == d0


# ---------------------------------------------------------------------------
# trusted helper: _is_optional reads the class annotations (typing machinery)

_src = frontend.load(REL)
_cls = _src.classes[CLS]
OPTIONAL = {f for f, a in _cls.annotations.items()
            if isinstance(a, ast.Name) and a.id in (
                'OptionalFloat', 'OptionalInt', 'OptionalRange')}


def _is_optional_impl(ex, bound, node):
  attr = bound['attr']
  if not isinstance(attr, VStr):
    ex.unsupported(node, '_is_optional with a non-literal attribute')
  return VBool(attr.s in OPTIONAL)


spec.contract(CLS + '._is_optional', impl=_is_optional_impl, props=('C17',))

# ---------------------------------------------------------------------------
# helper variants, one per call in __post_init__ (read from the AST)


def _const(node):
  """Constant argument of a validator call."""
  if isinstance(node, ast.Constant):
    v = node.value
    if isinstance(v, bool):
      return VBool(v)
    if isinstance(v, int):
      return VInt(v)
    if isinstance(v, float):
      return VFP(v)
    if isinstance(v, str):
      return VStr(v)
  if isinstance(node, ast.Tuple):
    return VTuple([_const(e) for e in node.elts])
  if isinstance(node, ast.Attribute) and isinstance(node.value, ast.Name) and (
      node.value.id == 'self') and node.attr in _cls.defaults:
    return _const(_cls.defaults[node.attr])
  if isinstance(node, ast.Call) and ast.unparse(node) == "float('inf')":
    return VFP(z3.fpPlusInfinity(F64))
  raise EngineError('C17 sidecar: non-constant validator argument %s' %
                    ast.unparse(node))


CALLS = []        # (helper name, field, {param: const})
for stmt in frontend.strip_docstring(_cls.methods['__post_init__'].body):
  if not (isinstance(stmt, ast.Expr) and isinstance(stmt.value, ast.Call)):
    raise EngineError('C17 sidecar: unexpected statement in __post_init__: %s'
                      % ast.unparse(stmt))
  call = stmt.value
  helper = call.func.attr
  fdef = _cls.methods[helper]
  pnames = [a.arg for a in fdef.args.args][1:]
  consts = {p: _const(a) for p, a in zip(pnames, call.args)}
  if helper == '_test_range':
    field = consts['attr_op'].items[0].s
  else:
    field = consts['attr'].s
  CALLS.append((helper, field, consts))

VARIANTS = []
for helper, field, consts in CALLS:
  key = '%s.%s#%s' % (CLS, helper, field)
  dom = DOMAIN[field]

  def _iff(s, field=field, dom=dom):
    return dom(field_term(s.old.self, field))

  def _not_dom(s, field=field, dom=dom):
    return z3.Not(dom(field_term(s.self, field)))

  def _stored(s, field=field):
    return normalised(field_term(s.old.self, field),
                      field_term(s.self, field), field)

  spec.contract(
      key, fn_qualname='%s.%s' % (CLS, helper), const_args=consts,
      modifies=['self.' + field], props=('C17',),
      raises={'ValueError': (
          'the value of %s is outside its documented domain' % field,
          _not_dom)},
      ensures=[('accepted value of %s is stored (integers as int), nothing '
                'else changes' % field, _stored)])
  VARIANTS.append(key)


def _post_all(s):
  return z3.And([DOMAIN[f](field_term(s.old.self, f)) for f in FIELDS])


def _any_bad(s):
  return z3.Not(z3.And([DOMAIN[f](field_term(s.self, f)) for f in FIELDS]))


spec.contract(
    CLS + '.__post_init__', params={}, modifies=['self.*'], props=('C17',),
    raises={'ValueError': ('some field is outside its documented domain',
                           _any_bad)},
    ensures=[
        ('every field is validated by some helper call',
         lambda s: z3.BoolVal(set(f for _, f, _ in CALLS) == set(FIELDS))),
        ('accepted values are kept (integers stored as int)',
         lambda s: z3.And([normalised(field_term(s.old.self, f),
                                      field_term(s.self, f), f)
                           for f in FIELDS])),
    ])

LEMMAS = []
FUNCTIONS = VARIANTS + [CLS + '.__post_init__']
