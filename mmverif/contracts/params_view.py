"""Client view of an ACCEPTED TBRMMDesignParameters object (shapes of its
fields and the documented domain as a predicate); C17 proves that the
constructor returns only for values in this domain and stores integer fields
as ints."""
import z3

from mmverif.engine.specops import *  # pylint: disable=wildcard-import
from mmverif.engine.specs import ModuleSpec, register
from mmverif.engine.symexec import unwrap
from mmverif.engine.values import *  # pylint: disable=wildcard-import

I = z3.IntSort()
R = z3.RealSort()

# ---------------------------------------------------------------------------
# TBRMMDesignParameters: shapes of an ACCEPTED object (C17 proves that
# __post_init__ returns only for values in this domain; integer fields are
# stored as ints by the validator).

pspec = register(ModuleSpec(
    'matched_markets/methodology/tbrmmdesignparameters.py'))
RANGE_R = TOpt(TTuple([TReal(), TReal()]))
RANGE_I = TOpt(TTuple([TInt(), TInt()]))
PARAM_FIELDS = {
    'n_test': TInt(), 'iroas': TReal(),
    'volume_ratio_tolerance': TOpt(TReal()),
    'geo_ratio_tolerance': TOpt(TReal()),
    'treatment_share_range': RANGE_R, 'budget_range': RANGE_R,
    'treatment_geos_range': RANGE_I, 'control_geos_range': RANGE_I,
    'n_geos_max': TOpt(TInt()), 'n_pretest_max': TInt(), 'n_designs': TInt(),
    'sig_level': TReal(), 'power_level': TReal(), 'min_corr': TReal(),
    'rho_max': TReal(), 'flevel': TReal(),
}
pspec.cls('TBRMMDesignParameters', fields=dict(PARAM_FIELDS))


def _opt(v, f):
  v = unwrap(v)
  return z3.Or(v.none, f(v.val))


def valid_params(p):
  """Domain of an accepted parameter object (postcondition of C17)."""
  def rng(v, lo_ok, strict):
    def f(t):
      a, b = N(t.items[0]), N(t.items[1])
      return z3.And(lo_ok(a), (a < b) if strict else (a <= b))
    return _opt(v, f)
  return And(
      N(p.n_test) >= 1, N(p.iroas) >= 0,
      _opt(p.volume_ratio_tolerance, lambda t: N(t) > 0),
      _opt(p.geo_ratio_tolerance, lambda t: N(t) > 0),
      _opt(p.treatment_share_range, lambda t: z3.And(
          N(t.items[0]) > 0, N(t.items[0]) < N(t.items[1]),
          N(t.items[1]) < 1)),
      rng(p.budget_range, lambda a: a >= 0, True),
      rng(p.treatment_geos_range, lambda a: a >= 1, False),
      rng(p.control_geos_range, lambda a: a >= 1, False),
      _opt(p.n_geos_max, lambda t: N(t) >= 2),
      N(p.n_pretest_max) >= 3, N(p.n_designs) >= 1,
      N(p.rho_max) >= z3.RealVal('0.9'), N(p.rho_max) < 1,
      N(p.sig_level) > 0, N(p.sig_level) < 1,
      N(p.power_level) > 0, N(p.power_level) < 1,
      N(p.min_corr) >= z3.RealVal('0.8'), N(p.min_corr) < 1,
      N(p.flevel) >= z3.RealVal('0.9'), N(p.flevel) < 1)


def par_terms(p):
  """The fields the diagnostics depend on, as z3 terms (UF arguments)."""
  return [N(p.n_test), N(p.sig_level), N(p.power_level), N(p.flevel),
          N(p.min_corr)]


