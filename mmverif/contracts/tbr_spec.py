"""Sidecar contract for tbr.TBR.summary (C06 proved core: the summary
algebra).  The posterior itself (causal_cumulative_distribution: OLS
covariance propagation in NumPy) is NOT verified: it is an assumed contract
returning an opaque frozen distribution; what is proved is which quantiles of
that distribution the report columns are, and for which arguments the call
raises.  Vectors (one entry per analysed date) are opaque NumPy arrays."""
import z3

from mmverif.contracts import tbrdiag_spec as _td     # PeriodSemantics etc.
from mmverif.engine import frame_ledger as _fl
from mmverif.engine import numeric_ledger as nl
from mmverif.engine.lib import ASSUMPTIONS, lib, uf, vmethod
from mmverif.engine.pandas_ledger import VBound
from mmverif.engine.specops import *  # pylint: disable=wildcard-import
from mmverif.engine.specs import ModuleSpec, register
from mmverif.engine.symexec import WORLD, unwrap
from mmverif.engine.values import *  # pylint: disable=wildcard-import

I = z3.IntSort()
R = z3.RealSort()
Arr = sort_named('Arr')
DistS = sort_named('FrozenT')

spec = register(ModuleSpec('matched_markets/methodology/tbr.py',
                           safety_props=('C06',)))
_td.ispec.classes['TBR'].fields.update({
    'use_cooldown': TBool(), 'periods': TObj('PeriodSemantics')})

CCD = z3.Function('TBR_CCD', I, R, DistS)          # posterior of one object
MEDV = z3.Function('T_MEDIAN', DistS, Arr)
PPFV = z3.Function('T_PPF', DistS, R, Arr)
CDFV = z3.Function('T_CDF', DistS, R, Arr)
SCALEV = z3.Function('T_SCALE', DistS, Arr)

ASSUMPTIONS.extend([
    'scipy frozen t distribution over a vector of (loc, scale): median(), '
    'ppf(p), cdf(x), kwds["scale"] are functions of the distribution (and of '
    'p / x); ndarray.reshape keeps the entries; pd.DataFrame(dict, index) '
    'has the dict entries as columns; df[list of names] and df.tail(n) keep '
    'the named columns (tail: their last n rows)',
])


def _self_id(o):
  """Identity of the TBR object (the posterior is a function of its state,
  which summary does not modify)."""
  return z3.IntVal(o.ref.oid)


ASSUMED = ('ASSUMED (NumPy/statsmodels body not verified; behaviour covered '
           'by the bounded monitor of C06 against a Kerman eq. 5 oracle)')

spec.contract(
    'TBR.causal_cumulative_distribution',
    params={'time': TOpt(TInt()), 'rescale': TReal(),
            'periods': TOpt(TOpaque('Periods'))},
    result=TOpaque('FrozenT'), modifies=[], props=('C06',), assumed=ASSUMED,
    ensures=[('the posterior of this object for the given rescaling',
              lambda s: unwrap(s.result).t == CCD(_self_id(s.self),
                                                  N(s.rescale)))])

spec.contract(
    'TBR.causal_effect', params={'periods': TOpaque('PeriodList')},
    result=TOpaque('EffectSeries'), modifies=[], props=('C06',),
    assumed=ASSUMED, ensures=[])


def _attr(okind, name):
  def deco(f):
    WORLD.attr_handlers[(okind, name)] = f
    return f
  return deco


@_attr('EffectSeries', 'index')
def _eff_index(ex, recv, node):
  return VOpaque(uf('effect_index', [recv], sort_named('DateIndex')),
                 'DateIndex')


@vmethod('opaque:FrozenT', 'median')
def _d_median(ex, recv, args, kwargs, node):
  return nl.arr(MEDV(recv.t))


@vmethod('opaque:FrozenT', 'ppf')
def _d_ppf(ex, recv, args, kwargs, node):
  p = num_term(args[0])
  p = z3.ToReal(p) if p.sort() == I else p
  return nl.arr(PPFV(recv.t, p))


@vmethod('opaque:FrozenT', 'cdf')
def _d_cdf(ex, recv, args, kwargs, node):
  x = num_term(args[0])
  x = z3.ToReal(x) if x.sort() == I else x
  return nl.arr(CDFV(recv.t, x))


class VKwds(V):
  kind = 'kwds'

  def __init__(self, d):
    self.d = d

  def py_getitem(self, ex, idx, node):
    if isinstance(idx, VStr) and idx.s == 'scale':
      return nl.arr(SCALEV(self.d))
    ex.unsupported(node, 'kwds[%r]' % getattr(idx, 's', idx.kind))


@_attr('FrozenT', 'kwds')
def _d_kwds(ex, recv, node):
  return VKwds(recv.t)


@vmethod('opaque:Arr', 'reshape')
def _reshape(ex, recv, args, kwargs, node):
  return recv


@lib('numpy.ones')
def _ones(ex, args, kwargs, node):
  return nl.arr(uf('np_ones', [args[0]], Arr))


class VReport(V):
  """pd.DataFrame(dict of columns, index=...)"""
  kind = 'report'

  def __init__(self, cols, nrows, tail=None):
    self.cols = cols
    self.nrows = nrows
    self.tail = tail

  def flatten(self):
    out = [self.nrows]
    for k in sorted(self.cols):
      out.extend(self.cols[k].flatten())
    return out

  def py_getitem(self, ex, idx, node):
    if isinstance(idx, VTuple) and all(isinstance(i, VStr) for i in idx.items):
      for i in idx.items:
        if i.s not in self.cols:
          ex.safety(z3.BoolVal(False), 'KeyError', node, 'column %s' % i.s)
          raise PathEnd('KeyError')
      return VReport({i.s: self.cols[i.s] for i in idx.items}, self.nrows)
    ex.unsupported(node, 'report[%s]' % idx.kind)

  def py_getattr(self, ex, name, node):
    if name == 'shape':
      return VTuple([VInt(self.nrows), VInt(len(self.cols))])
    if name == 'tail':
      return VBound(lambda ex_, a, k, n: VReport(self.cols, self.nrows,
                                                  num_term(a[0])))
    ex.unsupported(node, 'report attribute %s' % name)


from mmverif.engine.symexec import PathEnd  # noqa: E402
from mmverif.engine import lib as _libmod    # noqa: E402

_prev_df = _libmod.L.get('pandas.DataFrame')


@lib('pandas.DataFrame')
def _pd_dataframe(ex, args, kwargs, node):
  from mmverif.engine.symexec import VConstDict
  d = args[0] if args else None
  if isinstance(d, VConstDict) and 'estimate' in d.d and 'index' in kwargs:
    n = uf('len_DateIndex', [kwargs['index']], I)
    return VReport({k: v for k, v in d.d.items() if k != 'dates'}, n)
  if _prev_df is not None:
    return _prev_df(ex, args, kwargs, node)
  ex.unsupported(node, 'pd.DataFrame argument')


class TReport(Shape):

  def fresh(self, ctx, name):
    raise EngineError('report values are only produced by the code')


def _alpha(s):
  return (1 - N(s.level)) / z3.ToReal(N(s.tails))


def _pupper(s):
  return z3.If(N(s.tails) == 1, z3.RealVal(1), 1 - _alpha(s))


def _delta(s):
  return CCD(_self_id(s.self), N(s.rescale))


def _cols(s):
  r = unwrap(s.result)
  d = _delta(s)
  a = _alpha(s)

  def col(k):
    return unwrap(r.cols[k]).t
  sub = z3.Function('arr_Sub_AA', Arr, Arr, Arr)
  ab = z3.Function('numpy.abs_arr', Arr, Arr)
  return z3.And(
      col('estimate') == MEDV(d),
      col('lower') == PPFV(d, a),
      col('upper') == PPFV(d, _pupper(s)),
      col('precision') == ab(sub(PPFV(d, a), PPFV(d, z3.RealVal('0.5')))),
      col('scale') == SCALEV(d),
      # probability of exceeding the threshold, on the scale of the (already
      # rescaled) posterior: 1 - cdf(threshold)
      col('probability') == z3.Function('arr_Sub_SA', R, Arr, Arr)(
          z3.RealVal(1), CDFV(d, N(s.threshold))))


for _rep in ('last', 'all'):
  spec.contract(
      'TBR.summary#' + _rep, fn_qualname='TBR.summary',
      const_args={'report': VStr(_rep)},
      params={'level': TReal(), 'threshold': TReal(), 'tails': TInt(),
              'rescale': TReal()},
      result=TReport(), modifies=[], props=('C06',),
      raises={'ValueError': (
          'tails is not 1 or 2, or level is outside [0, 1]',
          lambda s: z3.Or(z3.And(N(s.tails) != 1, N(s.tails) != 2),
                          N(s.level) < 0, N(s.level) > 1))},
      ensures=[
          ('C06 summary algebra: estimate = posterior median, lower = '
           'quantile at (1 - level) / tails, upper = quantile at 1 (one '
           'tail) or 1 - (1 - level)/2 (two tails), precision = |lower - '
           'median quantile|, scale = posterior scale, probability = 1 - '
           'cdf(threshold) of the rescaled posterior', _cols),
          ('the report holds the last row (report="last") or every row',
           lambda s, rep=_rep: unwrap(s.result).tail == (
               z3.IntVal(1) if rep == 'last' else unwrap(s.result).nrows)),
      ])

FUNCTIONS = ['TBR.summary#last', 'TBR.summary#all']


# code-independent lemmas about the summary of a t posterior: the median is
# the 0.5 quantile and quantiles are non-decreasing in p (entry-wise), stated
# for one entry of the vectors
def _lemma_order(restricted):
  def f(ctx):
    ppf = z3.Function('ppf1', R, R)
    p, q = z3.Reals('p q')
    level = z3.Real('level')
    tails = z3.Int('tails')
    alpha = (1 - level) / z3.ToReal(tails)
    pupper = z3.If(tails == 1, z3.RealVal(1), 1 - alpha)
    est = ppf(z3.RealVal('0.5'))
    hyps = [z3.ForAll([p, q], z3.Implies(p <= q, ppf(p) <= ppf(q))),
            z3.Or(tails == 1, tails == 2), level >= 0, level <= 1]
    if restricted:
      hyps.append(alpha <= z3.RealVal('0.5'))
    goal = z3.And(ppf(alpha) <= est, est <= ppf(pupper),
                  z3.If(ppf(alpha) - est >= 0, ppf(alpha) - est,
                        est - ppf(alpha)) == est - ppf(alpha))
    return hyps, goal
  return f


LEMMAS = [
    ('C06 lower <= estimate <= upper and precision = estimate - lower when '
     'the lower tail probability is at most 0.5', _lemma_order(True),
     ('C06',)),
    ('C06 lower <= estimate for all levels', _lemma_order(False), ('C06',)),
]


# ---------------------------------------------------------------------------
# TBR._construct_analysis_data (C06 / C18): the aggregated frame is ordered by
# (group, date) - every later step (cumulative sums, "last row") reads it in
# date order.  groupby(keys).agg(...) sorts by the keys unless sort=False.

ASSUMPTIONS.append(
    'pandas: df.groupby(keys, sort=True (default)).agg(spec) has one row per '
    'distinct key combination, ordered by the keys; with sort=False the order '
    'is that of first appearance (no ordering guarantee)')

_td.ispec.classes['TBR'].fields.update({
    'df_names': TObj('DataFrameNameMapping'), 'target': TInt()})


class VGroupBy(V):
  kind = 'groupby'

  def __init__(self, frame, keys, sorted_):
    self.frame = frame
    self.keys = keys
    self.sorted = sorted_

  def py_getattr(self, ex, name, node):
    if name == 'agg':
      def agg(ex_, args, kwargs, n):
        f = self.frame
        out = VAggFrame(uf('AGG_SRC', [f.src, f.rows] + self.keys, I),
                        z3.Const(ex_.ctx.sym('agg.rows'), _fl.RowSet))
        out.keys = self.keys
        out.sorted = self.sorted
        return out
      return VBound(agg)
    ex.unsupported(node, 'groupby attribute %s' % name)


class VAggFrame(_fl.VFrame):
  keys = None
  sorted = None


def _groupby(ex, frame, args, kwargs, node):
  keys = args[0]
  if not (isinstance(keys, VTuple) and all(isinstance(k, VInt)
                                           for k in keys.items)):
    ex.unsupported(node, 'groupby keys')
  srt = kwargs.get('sort', VBool(True))
  if not isinstance(srt, VBool):
    ex.unsupported(node, 'groupby(sort=<non-bool>)')
  st = z3.simplify(srt.t)
  if z3.is_true(st):
    flag = z3.BoolVal(True)
  else:      # first-appearance order: sorted only by coincidence
    flag = z3.Bool(ex.ctx.sym('happens_to_be_sorted'))
  return VGroupBy(frame, [k.t for k in keys.items], flag)


_orig_getattr = _fl.VFrame.py_getattr


def _frame_getattr(self, ex, name, node):
  if name == 'groupby':
    return VBound(lambda ex_, a, k, n: _groupby(ex_, self, a, k, n))
  return _orig_getattr(self, ex, name, node)


_fl.VFrame.py_getattr = _frame_getattr

spec.contract(
    'TBR._construct_analysis_data', params={'data': _fl.TFrame()},
    modifies=['self.analysis_data'], props=('C06', 'C18'),
    ensures=[('C06/C18 the aggregated analysis frame is grouped by (group, '
              'date) and ordered by these keys', lambda s: z3.And(
                  unwrap(s.self.analysis_data).sorted,
                  z3.And([a == b for a, b in zip(
                      unwrap(s.self.analysis_data).keys,
                      [N(s.self.df_names.group), N(s.self.df_names.date)])])))])

FUNCTIONS.append('TBR._construct_analysis_data')


# ---------------------------------------------------------------------------
# TBR._fit_pre_period_model (C06 / C05 / C18): WHICH cells the pre-period
# regression is fitted on.  The regression itself (statsmodels OLS) is an
# uninterpreted function of the two selected columns; the helper methods
# _response_vector / _design_matrix are inlined (their bodies are verified as
# part of this function).

OLSS = sort_named('OLSFit')
OLSFIT = z3.Function('SM_OLS_FIT', I, I, _fl.RowSet, I, _fl.RowSet,
                     z3.BoolSort(), OLSS)
_td.ispec.classes['TBR'].fields.update({
    'groups': TObj('GroupSemantics'),
    'pre_period_model': TOpt(TOpaque('OLSFit'))})

ASSUMPTIONS.append(
    'statsmodels: sm.OLS(y.values, X.values).fit() is a function of the '
    'cells of y (one column over a set of rows) and of X (one column over a '
    'set of rows, with or without a leading constant column); '
    'Series.to_frame() holds the same cells, DataFrame.insert(0, name, 1) '
    'adds a constant column in place; both series are paired by position '
    '(the date order of the rows is the subject of _construct_analysis_data)')


class VDesign(V):
  """cntrl_vec.to_frame() (+ optional constant column)"""
  kind = 'design'

  def __init__(self, col):
    self.col = col
    self.const = z3.BoolVal(False)

  def py_getattr(self, ex, name, node):
    if name == 'insert':
      def ins(ex_, args, kwargs, n):
        ok = (len(args) == 3 and not kwargs and
              z3.is_int_value(z3.simplify(num_term(args[0]))) and
              z3.simplify(num_term(args[0])).as_long() == 0 and
              z3.is_int_value(z3.simplify(num_term(args[2]))) and
              z3.simplify(num_term(args[2])).as_long() == 1)
        if not ok:
          ex_.unsupported(n, 'insert other than (0, name, 1)')
        self.const = z3.BoolVal(True)
        return NONE
      return VBound(ins)
    if name == 'values':
      return self
    ex.unsupported(node, 'design matrix attribute %s' % name)


class VOLS(V):
  kind = 'olsmodel'

  def __init__(self, t):
    self.t = t

  def py_getattr(self, ex, name, node):
    if name == 'fit':
      return VBound(lambda ex_, a, k, n: VOpaque(self.t, 'OLSFit'))
    ex.unsupported(node, 'OLS attribute %s' % name)


@lib('statsmodels.api.OLS')
def _sm_ols(ex, args, kwargs, node):
  if len(args) != 2 or kwargs:
    ex.unsupported(node, 'OLS arguments')
  y, x = args
  if not (isinstance(y, _fl.VFCol) and isinstance(x, VDesign)):
    ex.unsupported(node, 'OLS(%s, %s)' % (y.kind, x.kind))
  if not y.frame.src.eq(x.col.frame.src):
    ex.unsupported(node, 'OLS over two different frames')
  return VOLS(OLSFIT(y.frame.src, y.col, y.frame.rows, x.col.col,
                     x.col.frame.rows, x.const))


_orig_col_getattr = _fl.VFCol.py_getattr


def _col_getattr(self, ex, name, node):
  if name == 'values':
    return self
  if name == 'to_frame':
    return VBound(lambda ex_, a, k, n: VDesign(self))
  return _orig_col_getattr(self, ex, name, node)


_fl.VFCol.py_getattr = _col_getattr


def _pre_rows(s, group):
  o = s.self
  a = unwrap(o.analysis_data)
  r = z3.Int('r!pre')
  return z3.Lambda([r], z3.And(
      z3.IsMember(r, a.rows),
      _fl.COLV(a.src, N(o.df_names.period), r) == N(o.periods.pre),
      _fl.LABEL(a.src, r) == N(group)))


spec.inline.update({'TBR._response_vector', 'TBR._design_matrix'})
spec.contract(
    'TBR._fit_pre_period_model', params={},
    modifies=['self.pre_period_model'], props=('C06', 'C05', 'C18'),
    requires=[('both groups have pre-period rows in the aggregated frame '
               '(else .loc raises KeyError)', lambda s: z3.And(
                   _pre_rows(s, s.self.groups.treatment) != z3.EmptySet(I),
                   _pre_rows(s, s.self.groups.control) != z3.EmptySet(I)))],
    ensures=[('C06 the pre-period model is the OLS fit of the treatment '
              'group\'s target cells on a constant and the control group\'s '
              'target cells, over exactly the rows whose period is the '
              'pre-period (no other period, assigned or not)',
              lambda s: z3.And(
                  z3.Not(unwrap(s.self.pre_period_model).none),
                  _fl.same_term(
                      unwrap(s.self.pre_period_model).val.t, OLSFIT(
                          unwrap(s.self.analysis_data).src, N(s.self.target),
                          _pre_rows(s, s.self.groups.treatment),
                          N(s.self.target),
                          _pre_rows(s, s.self.groups.control),
                          z3.BoolVal(True)), ('SM_OLS_FIT',))))])

FUNCTIONS.append('TBR._fit_pre_period_model')
