"""Sidecar contracts for matched_markets/methodology/geoeligibility.py
(C16 partition; shared by C01, C09, C10, C11, C15).

Geo IDs (strings) are integer codes; the same contracts serve ID sets and
index sets.  GeoEligibility.__init__ (validation) is a chain of pandas calls
and is NOT under contract: its acceptance predicate is covered by the
exhaustive bounded monitor of C16; the class invariant of an accepted table
(flags in {0,1}, no zero row, unique labels) is what TEligTable assumes.
"""
import z3

from mmverif.engine import pandas_ledger as pl
from mmverif.engine.specops import *  # pylint: disable=wildcard-import
from mmverif.engine.specs import LoopSpec, ModuleSpec, register
from mmverif.engine.values import *  # pylint: disable=wildcard-import

spec = register(ModuleSpec('matched_markets/methodology/geoeligibility.py'))

GA_FIELDS = ['all', 'c', 't', 'x', 't_fixed', 'c_fixed', 'x_fixed', 'ct', 'cx',
             'ctx', 'tx']
spec.cls('GeoAssignments', fields={f: TSet() for f in GA_FIELDS})
spec.cls('GeoEligibility', fields={'data': pl.TEligTable()})

I = z3.IntSort()


def ga_classes(ga, c, t, x):
  """Each class is exactly the set its row pattern encodes."""
  c, t, x = S(c), S(t), S(x)
  d = z3.SetDifference
  n = z3.SetIntersect
  return And(
      SetEq(ga.c, c), SetEq(ga.t, t), SetEq(ga.x, x),
      SetEq(ga.all, Union(c, t, x)),
      SetEq(ga.c_fixed, d(d(c, t), x)),
      SetEq(ga.t_fixed, d(d(t, c), x)),
      SetEq(ga.x_fixed, d(d(x, c), t)),
      SetEq(ga.ct, d(n(c, t), x)),
      SetEq(ga.cx, d(n(c, x), t)),
      SetEq(ga.tx, d(n(t, x), c)),
      SetEq(ga.ctx, n(n(c, t), x)))


SEVEN = ['c_fixed', 't_fixed', 'x_fixed', 'ct', 'cx', 'tx', 'ctx']


def ga_partition(ga):
  """The seven classes are pairwise disjoint and cover `all`."""
  parts = [S(getattr(ga, f)) for f in SEVEN]
  u = parts[0]
  for p in parts[1:]:
    u = z3.SetUnion(u, p)
  dis = [Disjoint(parts[i], parts[j]) for i in range(7)
         for j in range(i + 1, 7)]
  return And(SetEq(ga.all, u), *dis)


def ga_derived(ga):
  """c / t / x / all as unions of the seven classes (what callers use)."""
  return And(
      SetEq(ga.c, Union(ga.c_fixed, ga.ct, ga.cx, ga.ctx)),
      SetEq(ga.t, Union(ga.t_fixed, ga.ct, ga.tx, ga.ctx)),
      SetEq(ga.x, Union(ga.x_fixed, ga.cx, ga.tx, ga.ctx)))


spec.contract(
    'GeoAssignments.__init__',
    params={'c': TSet(), 't': TSet(), 'x': TSet()},
    modifies=['self.*'],
    props=('C16', 'C01'),
    ensures=[
        ('each class is the set its row pattern encodes',
         lambda s: ga_classes(s.self, s.c, s.t, s.x)),
        ('the seven classes partition all', lambda s: ga_partition(s.self)),
        ('c, t, x are unions of classes', lambda s: ga_derived(s.self)),
    ])


def _sel(s, col):
  """Expected set for one column of get_eligible_assignments."""
  tbl = unwrap(s.self.data)
  flag = tbl.cols[col]
  geos = unwrap(s.geos)
  none = geos.none
  seq = geos.val
  g = z3.Int('g!sel')
  by_id = z3.Lambda([g], z3.And(z3.IsMember(g, seq.elems),
                                z3.IsMember(g, flag)))
  by_pos = z3.Lambda([g], z3.And(g >= 0, g < seq.length,
                                 z3.IsMember(seq.at(g), flag)))
  return z3.If(none, flag, z3.If(B(s.indices), by_pos, by_id))


def _gea_post(s):
  ga = s.result
  return And(SetEq(ga.c, _sel(s, 'control')),
             SetEq(ga.t, _sel(s, 'treatment')),
             SetEq(ga.x, _sel(s, 'exclude')),
             ga_classes(ga, ga.c, ga.t, ga.x), ga_partition(ga),
             ga_derived(ga))


def _gea_universe(s):
  """The classes partition exactly the requested geos (IDs) or positions."""
  ga = s.result
  geos = unwrap(s.geos)
  seq = geos.val
  tbl = unwrap(s.self.data)
  pos = IntRangeSet(0, seq.length)
  return SetEq(ga.all, z3.If(geos.none, tbl.rows,
                             z3.If(B(s.indices), pos, seq.elems)))


spec.contract(
    'GeoEligibility.get_eligible_assignments',
    params={'geos': TOpt(TSeq(I)), 'indices': TBool()},
    result=TObj('GeoAssignments'),
    modifies=[],
    props=('C16', 'C01', 'C15'),
    requires=[
        ('requested geos are in the table',
         lambda s: Or(IsNone(s.geos),
                      z3.IsSubset(unwrap(s.geos).val.elems,
                                  unwrap(s.self.data).rows))),
    ],
    raises={'ValueError': ('indices without geos',
                           lambda s: And(s.indices, IsNone(s.geos)))},
    ensures=[
        ('classes are those encoded by the rows of the requested geos',
         _gea_post),
        ('classes partition the requested geos / positions', _gea_universe),
    ])

LEMMAS = []
FUNCTIONS = ['GeoAssignments.__init__',
             'GeoEligibility.get_eligible_assignments']
