"""Sidecar contracts for matched_markets/methodology/geoeligibility.py
(C16 partition; shared by C01, C09, C10, C11, C15).

Geo IDs (strings) are integer codes; the same contracts serve ID sets and
index sets.  GeoEligibility.__init__ (validation) is a chain of pandas calls
and is NOT under contract: its acceptance predicate is covered by the
exhaustive bounded monitor of C16; the class invariant of an accepted table
(flags in {0,1}, no zero row, unique labels) is what TEligTable assumes.
"""
import z3

from mmverif.engine import pandas_ledger as pl
from mmverif.engine.specops import *  # pylint: disable=wildcard-import
from mmverif.engine.specs import LoopSpec, ModuleSpec, register
from mmverif.engine.values import *  # pylint: disable=wildcard-import

spec = register(ModuleSpec('matched_markets/methodology/geoeligibility.py'))

GA_FIELDS = ['all', 'c', 't', 'x', 't_fixed', 'c_fixed', 'x_fixed', 'ct', 'cx',
             'ctx', 'tx']
spec.cls('GeoAssignments', fields={f: TSet() for f in GA_FIELDS})
spec.cls('GeoEligibility', fields={'data': pl.TEligTable()})

I = z3.IntSort()


def ga_classes(ga, c, t, x):
  """Each class is exactly the set its row pattern encodes."""
  c, t, x = S(c), S(t), S(x)
  d = z3.SetDifference
  n = z3.SetIntersect
  return And(
      SetEq(ga.c, c), SetEq(ga.t, t), SetEq(ga.x, x),
      SetEq(ga.all, Union(c, t, x)),
      SetEq(ga.c_fixed, d(d(c, t), x)),
      SetEq(ga.t_fixed, d(d(t, c), x)),
      SetEq(ga.x_fixed, d(d(x, c), t)),
      SetEq(ga.ct, d(n(c, t), x)),
      SetEq(ga.cx, d(n(c, x), t)),
      SetEq(ga.tx, d(n(t, x), c)),
      SetEq(ga.ctx, n(n(c, t), x)))


SEVEN = ['c_fixed', 't_fixed', 'x_fixed', 'ct', 'cx', 'tx', 'ctx']


def ga_partition(ga):
  """The seven classes are pairwise disjoint and cover `all`."""
  parts = [S(getattr(ga, f)) for f in SEVEN]
  u = parts[0]
  for p in parts[1:]:
    u = z3.SetUnion(u, p)
  dis = [Disjoint(parts[i], parts[j]) for i in range(7)
         for j in range(i + 1, 7)]
  return And(SetEq(ga.all, u), *dis)


def ga_derived(ga):
  """c / t / x / all as unions of the seven classes (what callers use)."""
  return And(
      SetEq(ga.c, Union(ga.c_fixed, ga.ct, ga.cx, ga.ctx)),
      SetEq(ga.t, Union(ga.t_fixed, ga.ct, ga.tx, ga.ctx)),
      SetEq(ga.x, Union(ga.x_fixed, ga.cx, ga.tx, ga.ctx)))


spec.contract(
    'GeoAssignments.__init__',
    params={'c': TSet(), 't': TSet(), 'x': TSet()},
    modifies=['self.*'],
    props=('C16', 'C01'),
    ensures=[
        ('each class is the set its row pattern encodes',
         lambda s: ga_classes(s.self, s.c, s.t, s.x)),
        ('the seven classes partition all', lambda s: ga_partition(s.self)),
        ('c, t, x are unions of classes', lambda s: ga_derived(s.self)),
    ])


def _sel(s, col):
  """Expected set for one column of get_eligible_assignments."""
  tbl = unwrap(s.self.data)
  flag = tbl.cols[col]
  geos = unwrap(s.geos)
  none = geos.none
  seq = geos.val
  g = z3.Int('g!sel')
  by_id = z3.Lambda([g], z3.And(z3.IsMember(g, seq.elems),
                                z3.IsMember(g, flag)))
  by_pos = z3.Lambda([g], z3.And(g >= 0, g < seq.length,
                                 z3.IsMember(seq.at(g), flag)))
  return z3.If(none, flag, z3.If(B(s.indices), by_pos, by_id))


def _gea_post(s):
  ga = s.result
  return And(SetEq(ga.c, _sel(s, 'control')),
             SetEq(ga.t, _sel(s, 'treatment')),
             SetEq(ga.x, _sel(s, 'exclude')),
             ga_classes(ga, ga.c, ga.t, ga.x), ga_partition(ga),
             ga_derived(ga))


def _gea_universe(s):
  """The classes partition exactly the requested geos (IDs) or positions."""
  ga = s.result
  geos = unwrap(s.geos)
  seq = geos.val
  tbl = unwrap(s.self.data)
  pos = IntRangeSet(0, seq.length)
  return SetEq(ga.all, z3.If(geos.none, tbl.rows,
                             z3.If(B(s.indices), pos, seq.elems)))


spec.contract(
    'GeoEligibility.get_eligible_assignments',
    params={'geos': TOpt(TSeq(I)), 'indices': TBool()},
    result=TObj('GeoAssignments'),
    modifies=[],
    props=('C16', 'C01', 'C15'),
    requires=[
        ('requested geos are in the table',
         lambda s: Or(IsNone(s.geos),
                      z3.IsSubset(unwrap(s.geos).val.elems,
                                  unwrap(s.self.data).rows))),
    ],
    raises={'ValueError': ('indices without geos',
                           lambda s: And(s.indices, IsNone(s.geos)))},
    ensures=[
        ('classes are those encoded by the rows of the requested geos',
         _gea_post),
        ('classes partition the requested geos / positions', _gea_universe),
    ])

LEMMAS = []
FUNCTIONS = ['GeoAssignments.__init__',
             'GeoEligibility.get_eligible_assignments']

# ---------------------------------------------------------------------------
# GeoEligibility.__init__ (C16): the acceptance predicate.  The raw input
# frame is a finite sequence of rows (after reset_index): GEOAT(i) the geo
# value of row i, VALAT(c, i) the cell of value column c; COLS the column
# names.  What the pandas calls return is stated in the ledger below; what is
# proved is which frames are accepted and what table is stored.

from mmverif.engine import frame_ledger as _fl                      # noqa
from mmverif.engine.lib import ASSUMPTIONS as _ASSUME               # noqa
from mmverif.engine.pandas_ledger import VBound as _VBound          # noqa

RawE = sort_named('RawElig')
NROWS = z3.Function('RE_NROWS', RawE, I)
GEOAT = z3.Function('RE_GEOAT', RawE, I, I)
VALAT = z3.Function('RE_VALAT', RawE, I, I, I)
COLS = z3.Function('RE_COLS', RawE, z3.SetSort(I))
DUPCOL = z3.Function('RE_DUPCOL', RawE, z3.BoolSort())
VCOLS = ('control', 'treatment', 'exclude')

_ASSUME.extend([
    'pandas (GeoEligibility.__init__): copy / reset_index / astype(str) / '
    '.loc[:, names] keep the rows; "x in df.columns" and set(df.columns) '
    'are membership in the column names; columns.duplicated() flags a '
    'repeated column name; df[c].duplicated() flags the rows whose value '
    'occurred in an earlier row; set(df[c]) is the set of cells of column c; '
    'df[cols].sum(axis=1) == 0 flags the rows whose cells sum to zero; '
    'any(mask) is "some row is flagged"; set_index("geo") labels the rows by '
    'their geo value (cells are integers; 1.0 == 1 is not distinguished)',
])


def _row(ctx, name='i'):
  return z3.Int(ctx.sym(name))


class VRawElig(V):
  kind = 'rawelig'

  def __init__(self, t):
    self.t = t

  def flatten(self):
    return [self.t]

  def py_getattr(self, ex, name, node):
    if name in ('copy', 'reset_index'):
      return _VBound(lambda ex_, a, k, n: VRawElig(self.t))
    if name == 'columns':
      return VRECols(self)
    if name == 'geo':
      return VRECol(self, _fl.colcode('geo'))
    if name == 'loc':
      return VRELoc(self)
    if name == 'set_index':
      return _VBound(lambda ex_, a, k, n: NONE)
    ex.unsupported(node, 'raw eligibility frame attribute %s' % name)

  def py_setattr(self, ex, name, value, node):
    if name == 'geo':
      return VRawElig(self.t)
    ex.unsupported(node, 'raw eligibility frame store %s' % name)

  def py_getitem(self, ex, idx, node):
    if isinstance(idx, VStr):
      return VRECol(self, _fl.colcode(idx.s))
    if isinstance(idx, VTuple) and all(isinstance(i, VStr) for i in idx.items):
      return VRESub(self, [_fl.colcode(i.s) for i in idx.items])
    ex.unsupported(node, 'raw eligibility frame [%s]' % idx.kind)

  # the validated table this frame denotes
  def geoset(self, ctx):
    g, i = z3.Int(ctx.sym('g')), _row(ctx)
    return z3.Lambda([g], z3.Exists([i], z3.And(
        i >= 0, i < NROWS(self.t), GEOAT(self.t, i) == g)))

  def colset(self, ctx, col):
    g, i = z3.Int(ctx.sym('g')), _row(ctx)
    return z3.Lambda([g], z3.Exists([i], z3.And(
        i >= 0, i < NROWS(self.t), GEOAT(self.t, i) == g,
        VALAT(self.t, _fl.colcode(col), i) == 1)))


class VRECols(V):
  kind = 'rawelig.columns'

  def __init__(self, f):
    self.f = f

  def py_toset(self, ex, node):
    return VSet(COLS(self.f.t), I)

  def py_contains(self, ex, item, node):
    if not isinstance(item, VStr):
      ex.unsupported(node, 'membership of %s in columns' % item.kind)
    return z3.IsMember(_fl.colcode(item.s), COLS(self.f.t))

  def py_getattr(self, ex, name, node):
    if name == 'duplicated':
      return _VBound(lambda ex_, a, k, n: VREDupCols(self.f))
    ex.unsupported(node, 'columns attribute %s' % name)

  def py_getitem(self, ex, idx, node):
    return VStr('<column names>')


class VREDupCols(V):
  kind = 'rawelig.dupcols'

  def __init__(self, f):
    self.f = f

  def py_any(self, ex, node):
    return VBool(DUPCOL(self.f.t))


class VRELoc(V):
  kind = 'rawelig.loc'

  def __init__(self, f):
    self.f = f

  def py_getitem_ast(self, ex, sl, env, node):
    return VRawElig(self.f.t)          # df.loc[:, column names]: same rows


class VRECol(V):
  kind = 'rawelig.col'

  def __init__(self, f, col):
    self.f = f
    self.col = col

  def py_getattr(self, ex, name, node):
    if name == 'astype':
      return _VBound(lambda ex_, a, k, n: VRECol(self.f, self.col))
    if name == 'duplicated':
      t = self.f.t

      def dup(ex_, a, k, n):
        def pred(c, i):
          j = _row(c, 'j')
          return z3.Exists([j], z3.And(j >= 0, j < i,
                                       GEOAT(t, j) == GEOAT(t, i)))
        return VREMask(self.f, pred)
      return _VBound(dup)
    ex.unsupported(node, 'column attribute %s' % name)

  def py_getitem(self, ex, idx, node):
    if isinstance(idx, VREMask):
      return VRESel(self, idx)
    ex.unsupported(node, 'column[%s]' % idx.kind)

  def cell(self, i):
    t = self.f.t
    if self.col.eq(_fl.colcode('geo')):
      return GEOAT(t, i)
    return VALAT(t, self.col, i)

  def py_toset(self, ex, node):
    v, i = z3.Int(ex.ctx.sym('v')), _row(ex.ctx)
    out = VCellSet(z3.Lambda([v], z3.Exists([i], z3.And(
        i >= 0, i < NROWS(self.f.t), self.cell(i) == v))), I)
    out.col = self
    return out


class VCellSet(VSet):
  """set(df[c]): compared with a literal set cell by cell."""

  def py_compare(self, ex, op, other, node):
    import ast
    if isinstance(op, ast.LtE) and isinstance(other, VSet):
      i = _row(ex.ctx)
      return VBool(z3.ForAll([i], z3.Implies(
          z3.And(i >= 0, i < NROWS(self.col.f.t)),
          z3.IsMember(self.col.cell(i), other.t))))
    ex.unsupported(node, 'comparison of a cell set')


class VREMask(V):
  kind = 'rawelig.mask'

  def __init__(self, f, pred):
    self.f = f
    self.pred = pred       # (ctx, row term) -> Bool

  def py_any(self, ex, node):
    i = _row(ex.ctx)
    return VBool(z3.Exists([i], z3.And(i >= 0, i < NROWS(self.f.t),
                                       self.pred(ex.ctx, i))))


class VRESel(V):
  """column[mask]: the cells of the flagged rows."""
  kind = 'rawelig.sel'

  def __init__(self, col, mask):
    self.col = col
    self.mask = mask

  def py_toset(self, ex, node):
    v, i = z3.Int(ex.ctx.sym('v')), _row(ex.ctx)
    out = VSet(z3.Lambda([v], z3.Exists([i], z3.And(
        i >= 0, i < NROWS(self.col.f.t), self.mask.pred(ex.ctx, i),
        self.col.cell(i) == v))), I)
    # non-empty exactly when some row is flagged
    out.truth = self.mask.py_any(ex, node).t
    return out


class VRESub(V):
  kind = 'rawelig.sub'

  def __init__(self, f, cols):
    self.f = f
    self.cols = cols

  def py_getattr(self, ex, name, node):
    if name == 'sum':
      return _VBound(lambda ex_, a, k, n: VRERowSum(self.f, self.cols))
    ex.unsupported(node, 'sub-frame attribute %s' % name)


class VRERowSum(V):
  kind = 'rawelig.rowsum'

  def __init__(self, f, cols):
    self.f = f
    self.cols = cols

  def py_compare(self, ex, op, other, node):
    import ast
    if not (isinstance(op, ast.Eq) and isinstance(other, VInt)):
      ex.unsupported(node, 'row-sum comparison')
    t, cols = self.f.t, self.cols
    return VREMask(self.f, lambda c, i: z3.Sum(
        [VALAT(t, col, i) for col in cols]) == other.t)


class TRawElig(Shape):
  """Raw frame handed to GeoEligibility().  An already validated table (the
  all-ones default of TBRMMData, or a .loc[list] selection of an accepted
  table) is coerced to the raw frame it came from: one row per label, cells
  1 where the label is in the column's set and 0 elsewhere."""

  def fresh(self, ctx, name):
    v = VRawElig(z3.Const(ctx.sym(name), RawE))
    ctx.assume(NROWS(v.t) >= 0)
    return v

  def coerce(self, ctx, v):
    if isinstance(v, VRawElig):
      return v
    if not isinstance(v, pl.VEligTable) or v.by_pos:
      raise EngineError('GeoEligibility(%s)' % v.kind)
    raw = self.fresh(ctx, 'raw_of_table')
    t = raw.t
    rows = v.labels.elems if v.labels is not None else v.rows
    i, j = _row(ctx), _row(ctx, 'j')
    g = z3.Int(ctx.sym('g'))
    ctx.assume(z3.ForAll([i], z3.Implies(
        z3.And(i >= 0, i < NROWS(t)), z3.IsMember(GEOAT(t, i), rows))))
    ctx.assume(z3.ForAll([g], z3.Implies(z3.IsMember(g, rows), z3.Exists(
        [i], z3.And(i >= 0, i < NROWS(t), GEOAT(t, i) == g)))))
    ctx.assume(z3.ForAll([i, j], z3.Implies(
        z3.And(i >= 0, i < j, j < NROWS(t)), GEOAT(t, i) != GEOAT(t, j))))
    for k in VCOLS:
      ctx.assume(z3.ForAll([i], z3.Implies(
          z3.And(i >= 0, i < NROWS(t)),
          VALAT(t, _fl.colcode(k), i) == z3.If(
              z3.IsMember(GEOAT(t, i), v.cols[k]), 1, 0))))
    ctx.assume(z3.Not(DUPCOL(t)))
    for k in ('geo',) + VCOLS:
      ctx.assume(z3.IsMember(_fl.colcode(k), COLS(t)))
    return raw


def _elig_coerce(self, ctx, v):
  """Storing the validated raw frame as .data: the table it denotes."""
  if isinstance(v, VRawElig):
    return pl.VEligTable(v.geoset(ctx), {k: v.colset(ctx, k) for k in VCOLS})
  return v


pl.TEligTable.coerce = _elig_coerce


def _rejected(s):
  """The documented reasons for rejecting a frame."""
  t = unwrap(s.df).t
  i, j = z3.Int('i!rj'), z3.Int('j!rj')
  inr = lambda x: z3.And(x >= 0, x < NROWS(t))       # noqa: E731
  missing = z3.Not(z3.And([z3.IsMember(_fl.colcode(k), COLS(t))
                           for k in ('geo',) + VCOLS]))
  dupgeo = z3.Exists([i, j], z3.And(inr(i), inr(j), i < j,
                                    GEOAT(t, i) == GEOAT(t, j)))
  bad = z3.Exists([i], z3.And(inr(i), z3.Or([z3.Not(z3.Or(
      VALAT(t, _fl.colcode(k), i) == 0, VALAT(t, _fl.colcode(k), i) == 1))
                                             for k in VCOLS])))
  zero = z3.Exists([i], z3.And(inr(i), z3.Sum(
      [VALAT(t, _fl.colcode(k), i) for k in VCOLS]) == 0))
  return z3.Or(missing, DUPCOL(t), dupgeo, bad, zero)


def _stored(s):
  raw = unwrap(s.df)
  tbl = unwrap(s.self.data)
  ctx = s.ctx
  return z3.And(tbl.rows == raw.geoset(ctx),
                *[tbl.cols[k] == raw.colset(ctx, k) for k in VCOLS])


def _accepted_inv(s):
  """Class invariant of an accepted table: every row label carries at least
  one flag (no all-zero row) and flags only sit on row labels."""
  tbl = unwrap(s.self.data)
  u = z3.SetUnion(z3.SetUnion(tbl.cols['control'], tbl.cols['treatment']),
                  tbl.cols['exclude'])
  return tbl.rows == u


spec.contract(
    'GeoEligibility.__init__', params={'df': TRawElig()},
    modifies=['self.*'], props=('C16', 'C15'),
    raises={'ValueError': (
        'a column is missing or repeated, a geo value occurs twice, a cell is '
        'not 0/1, or a row is all zeros', _rejected)},
    ensures=[
        ('C16 the stored table has one row per geo value, each column set '
         'holds the geos whose cell is 1', _stored),
        ('C16 an accepted table has no all-zero row (every row label is in '
         'some column set)', _accepted_inv),
    ])

FUNCTIONS.append('GeoEligibility.__init__')
