"""Sidecar contracts for the row bookkeeping of the post-analysis code:

  tbrdiagnostics.TBRDiagnostics.fit          (C19 proved core)
  tbr_iroas.TBRiROAS._is_fixed_cost_scenario (C07 proved core)

What is proved is the orchestration over the row algebra of
mmverif/engine/frame_ledger.py: which rows of the input frame the screened
data hold, that the analysis data are recomputed from the final screened data,
what the diagnostics dictionary reports; and which cells the scenario test
sums.  The detection statistics (_detect_noisy_geos, _detect_outliers,
_correlation_test) and the pivot (_create_analysis_data) are NOT verified:
their contracts below are assumed (frames and result shapes read off the
code), and what the pivot computes is a spec function ANA of the screened
rows.  Everything numeric is covered by the bounded monitors of C19 / C07.
"""
import z3

from mmverif.engine import frame_ledger as fl
from mmverif.engine.lib import ASSUMPTIONS, lib, vmethod
from mmverif.engine.specops import *  # pylint: disable=wildcard-import
from mmverif.engine.specs import ModuleSpec, register
from mmverif.engine.symexec import ObjView, RaiseSig, unwrap
from mmverif.engine.values import *  # pylint: disable=wildcard-import

I = z3.IntSort()
R = z3.RealSort()

spec = register(ModuleSpec('matched_markets/methodology/tbrdiagnostics.py',
                           safety_props=('C19',)))

NAMES = ('cost', 'date', 'geo', 'group', 'incr_cost', 'incr_response',
         'period', 'response')
spec.cls('DataFrameNameMapping', fields={n: TInt() for n in NAMES})
spec.cls('GroupSemantics', fields={n: TInt() for n in (
    'control', 'treatment', 'unassigned')})
spec.cls('PeriodSemantics', fields={n: TInt() for n in (
    'pre', 'test', 'cooldown', 'unassigned')})

DIAG = TRecord({'corr_test': TOpt(TBool()), 'noisy_geos': TOpt(TSeq(I)),
                'enough_data': TOpt(TBool()), 'pretest_start': TOpt(TInt()),
                'outlier_dates': TOpt(TSeq(I))})
ANA_SORT = sort_named('AnalysisData')

spec.cls('TBRDiagnostics', fields={
    '_df_names': TOpt(TObj('DataFrameNameMapping')),
    '_groups': TOpt(TObj('GroupSemantics')),
    '_periods': TOpt(TObj('PeriodSemantics')),
    '_target': TOpt(TInt()),
    '_data': TOpt(fl.TFrame()),
    '_analysis_data': TOpt(TOpaque('AnalysisData')),
    '_diagnostics': DIAG,
    '_tests_passed': TOpt(TBool()),
})

ASSUMPTIONS.extend([
    'semantics.DataFrameNameMapping / GroupSemantics / PeriodSemantics(**d): '
    'raise ValueError or return an object whose attribute values are '
    'pairwise distinct (BaseSemantics.check_unique); the values themselves '
    'are arbitrary (they depend on the keyword arguments)',
    'utils.kwarg_subdict(prefix, **kwargs) returns a mapping and has no '
    'side effect',
])


def _semantics(cls, fields):
  def make(ex, args, kwargs, node):
    ctx = ex.ctx
    if ctx.branch(z3.Bool(ctx.sym('duplicate_semantic_values'))):
      raise RaiseSig('ValueError', cls)
    obj = ctx.new_object(cls, cls.lower(), symbolic=True)
    vals = [ctx.get_field(obj, f).t for f in fields]
    ctx.assume(z3.Distinct(*vals))
    return obj
  return make


lib('repo:semantics.DataFrameNameMapping')(_semantics(
    'DataFrameNameMapping', NAMES))
lib('repo:semantics.GroupSemantics')(_semantics(
    'GroupSemantics', ('control', 'treatment', 'unassigned')))
lib('repo:semantics.PeriodSemantics')(_semantics(
    'PeriodSemantics', ('pre', 'test', 'cooldown', 'unassigned')))


@lib('repo:utils.kwarg_subdict')
def _kwarg_subdict(ex, args, kwargs, node):
  return TOpaque('KwDict').fresh(ex.ctx, 'sub_kwargs')


def sub(o, name):
  """View of the object held by an Optional object field."""
  f = getattr(o, name)
  if isinstance(f, VOpt):
    return ObjView(o._ctx, f.val, o._heap)
  return f


def ana_of(o):
  """The analysis data: the pivot (index date x period, one column per group
  label, sum of the target) of the current screened data with the group ids
  relabelled control -> 'x', treatment -> 'y' (anything else NaN), the period
  level then moved from the index to a column."""
  d = unwrap(o._data).val
  n, g = sub(o, '_df_names'), sub(o, '_groups')
  rel = fl.relabelled(
      fl.VFrame(d.src, d.rows, getattr(d, 'over', ())), N(n.group),
      [(N(g.control), fl.label_code('x')),
       (N(g.treatment), fl.label_code('y'))])
  return fl.RESET_INDEX(
      fl.pivot_term(rel, N(n.date), N(n.period), N(n.group), N(o._target)),
      N(n.period))


@vmethod('opaque:AnalysisData', 'reset_index')
def _ana_reset_index(ex, recv, args, kwargs, node):
  if args or set(kwargs) - {'level', 'inplace'} or 'level' not in kwargs:
    ex.unsupported(node, 'reset_index with these arguments')
  lvl = fl.col_term(ex, kwargs['level'], node)
  new = fl.RESET_INDEX(recv.t, lvl)
  inplace = kwargs.get('inplace')
  if inplace is not None and z3.is_true(z3.simplify(as_bool_term(inplace))):
    recv.t = new           # the table object itself is changed
    return NONE
  return VOpaque(new, 'AnalysisData')


def same_table(a, b):
  return fl.same_term(a, b, ('FR_PIVOT_SUM', 'FR_RESET_INDEX'))


def configured(o):
  return And(Not(IsNone(o._df_names)), Not(IsNone(o._groups)),
             Not(IsNone(o._periods)), Not(IsNone(o._target)),
             Not(IsNone(o._data)))


ASSUMED = ('ASSUMED (body not verified; frame and result shape read off the '
           'code, behaviour covered by the bounded monitor)')

spec.contract(
    'TBRDiagnostics._detect_noisy_geos',
    params={'iqr_coef': TReal(), 'max_threshold': TReal()},
    result=TOpt(TSeq(I)), modifies=[], props=('C19',), assumed=ASSUMED,
    requires=[('configured', lambda s: configured(s.self))],
    ensures=[])

spec.contract(
    'TBRDiagnostics._detect_outliers', params={'max_prob': TReal()},
    result=TSeq(I), modifies=[], props=('C19',), assumed=ASSUMED,
    requires=[('configured, analysis data present', lambda s: And(
        configured(s.self), Not(IsNone(s.self._analysis_data))))],
    ensures=[])

# --- the correlation test: verified (NumPy / SciPy calls uninterpreted) ------
from mmverif.engine import numeric_ledger as nl  # noqa: E402
from mmverif.engine.symexec import WORLD  # noqa: E402

for _n in ('numpy.tanh', 'numpy.arctanh'):
  nl.gen(_n, 'same')
nl.gen('scipy.stats.norm.ppf', 'real')

NROWS = z3.Function('ANA_NROWS', ANA_SORT, I)
NCOLS = z3.Function('ANA_NCOLS', ANA_SORT, I)
ASSUMPTIONS.append(
    'analysis table: shape[0] is its number of rows (>= 0), .x / .y are its '
    'control / treatment columns as arrays; np.corrcoef(a, b)[0, 1], np.tanh, '
    'np.arctanh, np.sqrt, scipy.stats.norm.ppf are functions of their '
    'arguments (uninterpreted, floats as reals)')


def _ana_attr(name):
  def deco(f):
    WORLD.attr_handlers[('AnalysisData', name)] = f
    return f
  return deco


@_ana_attr('shape')
def _ana_shape(ex, recv, node):
  ex.ctx.assume(NROWS(recv.t) >= 0)
  return VTuple([VInt(NROWS(recv.t)), VInt(NCOLS(recv.t))])


@_ana_attr('x')
def _ana_x(ex, recv, node):
  return nl.arr(z3.Function('ANA_COL_X', ANA_SORT, nl.Arr)(recv.t))


@_ana_attr('y')
def _ana_y(ex, recv, node):
  return nl.arr(z3.Function('ANA_COL_Y', ANA_SORT, nl.Arr)(recv.t))


def _thr(n, min_cor, level):
  """tanh(arctanh(min_cor) + Phi^-1(level) / sqrt(n - 3))"""
  tanh = z3.Function('numpy.tanh', R, R)
  atanh = z3.Function('numpy.arctanh', R, R)
  ppf = z3.Function('scipy.stats.norm.ppf', R, R)
  sqrt = z3.Function('numpy.sqrt', I, R)
  return tanh(atanh(min_cor) + ppf(level) / sqrt(n - 3))


def _obs_cor(o):
  a = unwrap(o._analysis_data).val.t
  mat = z3.Function('corrcoef', nl.Arr, nl.Arr, sort_named('Mat'))
  item = z3.Function('mat_item', sort_named('Mat'), I, I, R)
  return item(mat(z3.Function('ANA_COL_X', ANA_SORT, nl.Arr)(a),
                  z3.Function('ANA_COL_Y', ANA_SORT, nl.Arr)(a)), 0, 1)


spec.contract(
    'TBRDiagnostics._min_correlation_threshold',
    params={'n': TInt(), 'min_cor': TReal(), 'credible_level': TReal()},
    result=TReal(np=True), modifies=[], props=('C19',),
    raises={'ValueError': ('fewer than 4 observations',
                           lambda s: N(s.n) < 4)},
    ensures=[('threshold = tanh(arctanh(min_cor) + normal quantile(level) / '
              'sqrt(n - 3))',
              lambda s: N(s.result) == _thr(N(s.n), N(s.min_cor),
                                            N(s.credible_level)))])

spec.inline.add('TBRDiagnostics.obs_cor')
spec.contract(
    'TBRDiagnostics._correlation_test',
    params={'min_cor': TReal(), 'prefer_cor': TReal(),
            'credible_level': TReal()},
    result=TBool(), modifies=[], props=('C19',),
    requires=[('configured, analysis data present', lambda s: And(
        configured(s.self), Not(IsNone(s.self._analysis_data))))],
    raises={'ValueError': ('the analysis data have fewer than 4 rows',
                           lambda s: NROWS(unwrap(
                               s.self._analysis_data).val.t) < 4)},
    ensures=[('passes exactly when the observed correlation of the two '
              'aggregated series is at least max(preferred correlation, '
              'minimum threshold for the number of rows)',
              lambda s: B(s.result) == (_obs_cor(s.self) >= z3.If(
                  N(s.prefer_cor) >= _thr(
                      NROWS(unwrap(s.self._analysis_data).val.t),
                      N(s.min_cor), N(s.credible_level)),
                  N(s.prefer_cor),
                  _thr(NROWS(unwrap(s.self._analysis_data).val.t),
                       N(s.min_cor), N(s.credible_level)))))])

def _both(o):
  """Both group ids occur in the group column of the screened data."""
  d = unwrap(o._data).val
  gcol = N(sub(o, '_df_names').group)
  fr = fl.VFrame(d.src, d.rows, getattr(d, 'over', ()))

  def present(v, nm):
    r = z3.Int('r!' + nm)
    return z3.Exists([r], z3.And(z3.IsMember(r, d.rows),
                                 fr.colv(gcol, r) == v))
  return z3.And(present(N(sub(o, '_groups').control), 'ctl'),
                present(N(sub(o, '_groups').treatment), 'trt'))


spec.contract(
    'TBRDiagnostics._create_analysis_data', params={},
    modifies=['self._analysis_data'], props=('C19',),
    requires=[('configured', lambda s: configured(s.self)),
              ('the group ids are pairwise distinct (GroupSemantics)',
               lambda s: z3.Distinct(N(sub(s.self, '_groups').control),
                                     N(sub(s.self, '_groups').treatment),
                                     N(sub(s.self, '_groups').unassigned)))],
    raises={'ValueError': ('a group has no row in the screened data',
                           lambda s: Not(_both(s.self)))},
    ensures=[('analysis data = pivot of the current screened data',
              lambda s: And(Not(IsNone(s.self._analysis_data)),
                            same_table(unwrap(s.self._analysis_data).val.t,
                                       ana_of(s.self))))])


def _screened(s):
  """Rows of the screened data: input rows minus every row of a reported
  noisy geo and of a reported outlier date."""
  o = s.self
  src, rows0 = unwrap(s.data_frame).src, unwrap(s.data_frame).rows
  d = unwrap(o._data).val
  diag = unwrap(o._diagnostics).d
  noisy, out = unwrap(diag['noisy_geos']), unwrap(diag['outlier_dates'])
  r = z3.Int('r!scr')
  gone_geo = z3.And(z3.Not(noisy.none), z3.IsMember(
      fl.COLV(src, N(sub(o, '_df_names').geo), r), noisy.val.elems))
  gone_date = z3.And(z3.Not(out.none), z3.IsMember(
      fl.COLV(src, N(sub(o, '_df_names').date), r), out.val.elems))
  return z3.And(
      d.src == src,
      z3.ForAll([r], z3.IsMember(r, d.rows) == z3.And(
          z3.IsMember(r, rows0), z3.Not(gone_geo), z3.Not(gone_date))))


spec.contract(
    'TBRDiagnostics.fit',
    params={'data_frame': fl.TFrame(), 'target': TOpt(TInt()),
            'kwargs': TOpaque('KwDict')},
    modifies=['self._data', 'self._df_names', 'self._groups',
              'self._periods', 'self._target', 'self._analysis_data',
              'self._diagnostics'],
    props=('C19',),
    raises_only=['ValueError'],
    ensures=[
        ('C19 screened data = input rows minus every row of the reported '
         'noisy geos and of the reported outlier dates', _screened),
        ('C19 analysis data are those of the final screened data',
         lambda s: And(configured(s.self),
                       Not(IsNone(s.self._analysis_data)),
                       unwrap(s.self._analysis_data).val.t ==
                       ana_of(s.self))),
        ('C19 the target defaults to the response column',
         lambda s: Or(Not(IsNone(s.target)),
                      Eq(Val(s.self._target), sub(s.self, '_df_names').response))),
    ])

FUNCTIONS = ['TBRDiagnostics.fit', 'TBRDiagnostics._create_analysis_data',
             'TBRDiagnostics._min_correlation_threshold',
             'TBRDiagnostics._correlation_test']
LEMMAS = []

# ---------------------------------------------------------------------------
# tbr_iroas.TBRiROAS._is_fixed_cost_scenario (C07)

ispec = register(ModuleSpec('matched_markets/methodology/tbr_iroas.py',
                            safety_props=('C07',)))
ispec.cls('TBR', fields={'analysis_data': fl.TFrame()})
ispec.cls('TBRiROAS', fields={
    'tbr_cost': TObj('TBR'),
    'df_names': TObj('DataFrameNameMapping'),
    'groups': TObj('GroupSemantics'),
    'periods': TObj('PeriodSemantics'),
})

FLOAT_ORDER = z3.Function('FLOAT_ORDER', R, I)


@lib('repo:utils.float_order')
def _float_order(ex, args, kwargs, node):
  return VInt(FLOAT_ORDER(num_term(args[0])))


ASSUMPTIONS.append('utils.float_order(x) is a function of x (order of '
                   'magnitude); not interpreted')


def _non_incremental(s):
  """Pre-period cost of every group + test-period cost of the control group
  in the aggregated (group, date)-indexed analysis frame."""
  o = s.self
  a = unwrap(o.tbr_cost.analysis_data)
  per, cost = N(o.df_names.period), N(o.df_names.cost)
  r = z3.Int('r!ni')
  pre = z3.Lambda([r], z3.And(z3.IsMember(r, a.rows), fl.COLV(
      a.src, per, r) == N(o.periods.pre)))
  ctl = z3.Lambda([r], z3.And(
      z3.IsMember(r, a.rows), fl.COLV(a.src, per, r) == N(o.periods.test),
      fl.LABEL(a.src, r) == N(o.groups.control)))
  return fl.SUMCOL(a.src, cost, pre) + fl.SUMCOL(a.src, cost, ctl), ctl


ispec.contract(
    'TBRiROAS._is_fixed_cost_scenario', params={}, result=TBool(),
    modifies=[], props=('C07', 'C18'),
    requires=[('the control group has rows in the test period (else .loc '
               'raises KeyError)',
               lambda s: _non_incremental(s)[1] != z3.EmptySet(I))],
    ensures=[('C07/C18 fixed exactly when the order of magnitude of (pre-period '
              'cost of all groups + test-period cost of the control group) '
              'is below 1e-10',
              lambda s: B(s.result) == (FLOAT_ORDER(
                  _non_incremental(s)[0]) < -10))])

IROAS_FUNCTIONS = ['TBRiROAS._is_fixed_cost_scenario']
