"""Sidecar contracts for tbrmmdiagnostics.py (C08: no stale values).

Every derived quantity h has a spec function F_h(x, y, par[, args]) that is
*defined* as the value the getter's own code computes on a FRESH object (all
caches empty) holding x, y, par: the engine explores the getter from the fresh
state and turns its paths into the definition (Contract.define_fresh).  The
class invariant says every cache is empty or holds F_h of the current series.
Each getter is then verified, from ANY state satisfying the invariant, to
return F_h(current x, y, par) and to re-establish the invariant; each setter
establishes it.  By induction over call histories every read equals what a
freshly built object reports - the statement of C08.  Library calls are
deterministic uninterpreted functions (numeric_ledger).
"""
import z3

from mmverif.contracts import params_view as pv
from mmverif.engine import numeric_ledger as nl
from mmverif.engine.specops import *  # pylint: disable=wildcard-import
from mmverif.engine.specs import ModuleSpec, register
from mmverif.engine.symexec import unwrap
from mmverif.engine.values import *  # pylint: disable=wildcard-import

I = z3.IntSort()
R = z3.RealSort()
Arr = sort_named('Arr')
NPR = TReal(np=True)
TARR = TOpaque('Arr')

REL = 'matched_markets/methodology/tbrmmdiagnostics.py'
dspec = register(ModuleSpec(REL, safety_props=('C09', 'C08')))
CLS = 'TBRMMDiagnostics'

LINREG = TTuple([NPR, NPR, NPR, TARR], ['a', 'b', 'sigma', 'resid'],
                'LinregResult')
AAT = TTuple([TOpt(TBool()), TOpt(TTuple([NPR, NPR])), TOpt(NPR)],
             ['test_ok', 'bounds', 'prob'], 'AATestResult')
BBT = TTuple([TBool(), TOpt(TARR), TOpt(TARR)],
             ['test_ok', 'abscumresid', 'bounds'], 'BBTestResult')
DWT = TTuple([TBool(), NPR], ['test_ok', 'dwstat'], 'DWTestResult')
TBRFIT = TTuple([NPR, NPR, NPR, NPR], ['estimate', 'cihw', 'sigma', 'scale'],
                'TBRFit')

CACHES = {
    '_corr': ('corr', TOpt(NPR)),
    '_required_impact': ('required_impact', TOpt(NPR)),
    '_pretestfit': ('pretestfit', TOpt(LINREG)),
    '_aatest': ('aatest', TOpt(AAT)),
    '_bbtest': ('bbtest', TOpt(BBT)),
    '_dwtest': ('dwtest', TOpt(DWT)),
    '_tests_ok': ('tests_ok', TOpt(TBool())),
}
# result shapes of all derived quantities
SHAPES = {h: sh for h, sh in CACHES.values()}
SHAPES['corr_test'] = TOpt(TBool())
SHAPES['tbrfit'] = TOpt(TBRFIT)
SHAPES['estimate_required_impact'] = NPR

DIAG_FIELDS = {
    '_x': TOpt(TARR), '_y': TOpt(TARR),
    '_par': TObj('TBRMMDesignParameters'),
    '_x_mean': TOpt(NPR), '_y_mean': TOpt(NPR),
}
for _f, (_h, _sh) in CACHES.items():
  # a cache field holds None or the (non-None) value
  DIAG_FIELDS[_f] = _sh
dspec.cls(CLS, fields=dict(DIAG_FIELDS))

LEN = z3.Function('len_Arr', Arr, I)
NDIM = z3.Function('ndim_Arr', Arr, I)
MEAN = z3.Function('mean_Arr', Arr, R)


par_terms = pv.par_terms


NOARR = z3.Const('NOARR', Arr)     # stands for "no control series"


def xterms(o):
  """(x is None, x, y) of a diagnostics object as UF arguments."""
  x = unwrap(o._x)
  y = unwrap(o._y)
  return [x.none, z3.If(x.none, NOARR, x.val.t), y.val.t]


def F(h, o, extra=()):
  """Spec function: value of the derived quantity h on a fresh object with
  the series and parameters of o."""
  args = xterms(o) + par_terms(o._par) + [N(e) for e in extra]
  return shape_apply(SHAPES[h], 'F_' + h, args)


def F_at(h, xnone, x, y, par, extra=()):
  args = [xnone, x, y] + par_terms(par) + [N(e) for e in extra]
  return shape_apply(SHAPES[h], 'F_' + h, args)


def inv(o):
  """Class invariant: y and the parameters are set, the means belong to the
  current series, every cache is empty or holds the fresh value."""
  x, y = unwrap(o._x), unwrap(o._y)
  xm, ym = unwrap(o._x_mean), unwrap(o._y_mean)
  out = [B(pv.valid_params(o._par)),
         z3.Not(y.none), z3.Not(ym.none), N(ym.val) == MEAN(y.val.t),
         xm.none == x.none, z3.Or(x.none, N(xm.val) == MEAN(x.val.t)),
         z3.Or(x.none, z3.And(LEN(x.val.t) == LEN(y.val.t),
                              NDIM(x.val.t) == 1)),
         LEN(y.val.t) >= 3, NDIM(y.val.t) == 1]
  for f, (h, sh) in CACHES.items():
    c = unwrap(getattr(o, f))
    out.append(z3.Or(c.none, eq_term(c, F(h, o))))
  return z3.And(out)


def par_ready(o):
  """The parameter object is attached (false only inside __init__, where y is
  assigned before the parameters)."""
  from mmverif.engine.values import VObj
  try:
    return isinstance(unwrap(o._par), VObj)
  except EngineError:
    return False


def fresh_state(ctx, values):
  """Turn the symbolic entry state into a fresh one: all caches empty."""
  obj = values['self']
  for f, (h, sh) in CACHES.items():
    ctx.objects[obj.oid].fields[f] = VOpt(True, sh.inner.fresh(ctx, 'dead'))


INV = [('class invariant', lambda s: inv(s.self))]
CACHE_MOD = ['self.' + f for f in CACHES]


def none_iff_x_none(s):
  return Eq(IsNone(s.result), IsNone(s.self._x))


def getter(name, extra_ensures=(), raises=None, props=('C08',)):
  dspec.contract(
      '%s.%s' % (CLS, name), params={}, result=SHAPES[name],
      modifies=CACHE_MOD, props=props, requires=INV,
      returns=lambda s, name=name: F(name, s.self),
      define_fresh=fresh_state, raises=raises,
      ensures=[('class invariant re-established', lambda s: inv(s.self))] +
      list(extra_ensures))


def corr_in_range(o):
  c = unwrap(F('corr', o))
  return z3.And(N(c.val) > -1, N(c.val) < 1)


RAISE_CORR = {'ValueError': (
    'the correlation of the current series is not strictly inside (-1, 1)',
    lambda s: And(Not(IsNone(s.self._x)), IsNone(s.self._required_impact),
                  Not(corr_in_range(s.self))))}

getter('corr', [('None exactly when x is not set', none_iff_x_none)])
getter('required_impact', [('None exactly when x is not set',
                            none_iff_x_none)], raises=RAISE_CORR)
getter('pretestfit', [('None exactly when x is not set', none_iff_x_none)])
getter('bbtest', [('None exactly when x is not set', none_iff_x_none)])
getter('dwtest', [('None exactly when x is not set', none_iff_x_none)])
getter('aatest', [
    ('None exactly when x is not set', none_iff_x_none),
    ('C09 the A/A outcome is defined when at least 3 pre-test points remain '
     '(window >= n_test + 3)', lambda s: Implies(
         And(Not(IsNone(s.self._x)),
             LEN(unwrap(s.self._y).val.t) - N(s.self._par.n_test) >= 3),
         Not(unwrap(s.result).val.items[0].none)), ('C09', 'C08')),
])
getter('corr_test', [('None exactly when x is not set', none_iff_x_none)])
getter('tests_ok', [('None when x is not set',
                     lambda s: Implies(IsNone(s.self._x), IsNone(s.result)))])

dspec.contract(
    CLS + '.tbrfit', params={'xt': NPR, 'yt': NPR}, result=SHAPES['tbrfit'],
    modifies=CACHE_MOD, props=('C08', 'C06'), requires=INV,
    returns=lambda s: F('tbrfit', s.self, [s.xt, s.yt]),
    define_fresh=fresh_state,
    ensures=[('class invariant re-established', lambda s: inv(s.self)),
             ('None exactly when x is not set', none_iff_x_none)])

dspec.contract(
    CLS + '.estimate_required_impact', params={'corr': NPR},
    result=NPR, modifies=[], props=('C08', 'C05', 'C02', 'C09'),
    requires=INV,
    raises={'ValueError': ('|corr| >= 1', lambda s: Or(N(s.corr) <= -1,
                                                      N(s.corr) >= 1))},
    returns=lambda s: F('estimate_required_impact', s.self, [s.corr]),
    define_fresh=fresh_state, ensures=[])

# the two cached helpers are pure functions of their arguments: inlined
dspec.inline.update({CLS + '._impact_estimate',
                     CLS + '._brownian_bridge_bounds', CLS + '.y', CLS + '.x'})

# ---------------------------------------------------------------------------
# setters / constructor


def _bad_y(s):
  v = unwrap(s.value).t
  return z3.Or(NDIM(v) != 1, LEN(v) < 3)


dspec.contract(
    CLS + '.y.setter', params={'value': TARR},
    modifies=['self._y', 'self._y_mean', 'self._x', 'self._x_mean'] +
    CACHE_MOD, props=('C08',),
    requires=[('parameters, when already attached, are valid', lambda s: (
        pv.valid_params(s.self._par) if par_ready(s.self) else True))],
    raises={'ValueError': ('y is not a vector of at least 3 points', _bad_y)},
    ensures=[
        ('y and its mean stored, x cleared', lambda s: And(
            Not(IsNone(s.self._y)), unwrap(s.self._y).val.t == unwrap(
                s.value).t, IsNone(s.self._x), IsNone(s.self._x_mean),
            Not(IsNone(s.self._y_mean)),
            N(Val(s.self._y_mean)) == MEAN(unwrap(s.value).t),
            LEN(unwrap(s.value).t) >= 3, NDIM(unwrap(s.value).t) == 1)),
        ('every cache is empty', lambda s: And(*[
            IsNone(getattr(s.self, f)) for f in CACHES])),
        ('class invariant established', lambda s: (
            inv(s.self) if par_ready(s.self) else True)),
    ])


def _bad_x(s):
  v = unwrap(s.value)
  return z3.And(z3.Not(v.none), z3.Or(
      NDIM(v.val.t) != 1, LEN(v.val.t) != LEN(unwrap(s.self._y).val.t)))


dspec.contract(
    CLS + '.x.setter', params={'value': TOpt(TARR)},
    modifies=['self._x', 'self._x_mean'] + CACHE_MOD, props=('C08', 'C04'),
    requires=[('y is set', lambda s: And(
        Not(IsNone(s.self._y)), Not(IsNone(s.self._y_mean)),
        N(Val(s.self._y_mean)) == MEAN(unwrap(s.self._y).val.t),
        LEN(unwrap(s.self._y).val.t) >= 3,
        NDIM(unwrap(s.self._y).val.t) == 1,
        pv.valid_params(s.self._par) if par_ready(s.self) else True))],
    raises={'ValueError': ('x is not a vector of the length of y', _bad_x)},
    ensures=[
        ('x stored', lambda s: And(
            Eq(IsNone(s.self._x), IsNone(s.value)),
            Or(IsNone(s.value), unwrap(s.self._x).val.t == unwrap(
                s.value).val.t))),
        ('every cache is empty: class invariant established',
         lambda s: And(inv(s.self) if par_ready(s.self) else True,
                       Eq(IsNone(s.self._x_mean), IsNone(s.value)),
                       *[IsNone(getattr(s.self, f)) for f in CACHES])),
    ])

dspec.contract(
    CLS + '.__init__',
    params={'y': TARR, 'par': TObj('TBRMMDesignParameters')},
    modifies=['self.*'], props=('C08', 'C04', 'C09'),
    requires=[('accepted parameters', lambda s: pv.valid_params(s.par))],
    raises={'ValueError': ('y is not a vector of at least 3 points',
                           lambda s: z3.Or(NDIM(unwrap(s.y).t) != 1,
                                           LEN(unwrap(s.y).t) < 3))},
    binds={'self._par': lambda s: s.par},
    ensures=[
        ('a fresh object: y stored, x and every cache empty, invariant',
         lambda s: And(unwrap(s.self._y).val.t == unwrap(s.y).t,
                       IsNone(s.self._x), inv(s.self),
                       *[IsNone(getattr(s.self, f)) for f in CACHES])),
    ])

LEMMAS = []
FUNCTIONS = [CLS + '.' + q for q in (
    '__init__', 'y.setter', 'x.setter', 'corr', 'estimate_required_impact',
    'required_impact', 'pretestfit', 'bbtest', 'tbrfit', 'dwtest', 'aatest',
    'corr_test', 'tests_ok')]

# ---------------------------------------------------------------------------
# C05 / C06: the closed forms of the design-side formulas, written from the
# documentation (Kerman 2017 / Au 2018 as quoted in the docstrings), not from
# the code: sigma-free multiplier, required impact, TBR point estimate, scale
# and half-width.

from mmverif.engine.lib import uf as _uf  # noqa: E402


def _sqrt(t):
  return _uf('numpy.sqrt', [t], R)


def _tq(p, df):
  """scipy.stats.t.ppf(p, df=df) in the ledger's argument order."""
  return _uf('scipy.stats.t.ppf', [p, df], R)


def _phi(n, flevel):
  d = _uf('stats_f', [z3.IntVal(1), n - 1], sort_named('Dist'))
  return _uf('dist_ppf', [d, flevel], R)


def _std2(y):
  return _uf('numpy.std', [y, z3.IntVal(2)], R)


def _var0(x):
  return _uf('numpy.var', [x, z3.IntVal(0)], R)


def radicand(n, n_test, phi):
  n, n_test = z3.ToReal(n), z3.ToReal(n_test)
  return phi * (n + 1) / (n * n_test * (n - 1)) + 1 / n + 1 / n_test


def required_impact_formula(y, par, corr):
  n = LEN(y)
  nt = N(par.n_test)
  q = _tq(N(par.sig_level), n - 2) + _tq(N(par.power_level), n - 2)
  return q * z3.ToReal(nt) * _sqrt(radicand(n, nt, _phi(n, N(par.flevel)))) * (
      _std2(y) * _sqrt(1 - corr * corr))


def _est_closed_form(s):
  y = unwrap(s.self._y).val.t
  return N(s.result) == required_impact_formula(y, s.self._par, N(s.corr))


dspec.contracts[CLS + '.estimate_required_impact'].ensures.extend(
    __import__('mmverif.engine.specs', fromlist=['clauses']).clauses([
        ('C05 closed form: (t-quantile at sig_level + t-quantile at '
         'power_level, n-2 d.f.) x n_test x sqrt(phi (n+1)/(n n_test (n-1)) + '
         '1/n + 1/n_test) x residual s.d.', _est_closed_form, ('C05',))],
                                                               ('C05',)))


def _ri_closed_form(s):
  """The design's required impact is the closed form AT ITS OWN correlation
  (not at a clipped or substituted one)."""
  o = s.self
  y = unwrap(o._y).val.t
  corr = unwrap(F('corr', o))
  r = unwrap(s.result)
  # stated where the value is computed; a cached value is the fresh value by
  # the class invariant (C08), and the fresh value is computed by this code
  cached = z3.Not(unwrap(s.old.self._required_impact).none)
  return z3.Or(cached, r.none, corr.none,
               N(r.val) == required_impact_formula(y, o._par, N(corr.val)))


dspec.contracts[CLS + '.required_impact'].ensures.extend(
    __import__('mmverif.engine.specs', fromlist=['clauses']).clauses([
        ('C05 the required impact of a design is the closed form evaluated at '
         'the correlation of its own two series', _ri_closed_form, ('C05',))],
                                                               ('C05',)))


def _tbrfit_closed_form(s):
  o = s.self
  x, y = unwrap(o._x).val.t, unwrap(o._y).val.t
  par = o._par
  n = LEN(x)
  nt = z3.ToReal(N(par.n_test))
  fit = unwrap(F('pretestfit', o)).val           # (a, b, sigma, resid)
  b, sigma = N(fit.items[1]), N(fit.items[2])
  dx = N(s.xt) - MEAN(x)
  dy = N(s.yt) - MEAN(y)
  scale = nt * sigma * _sqrt((1 + dx * dx / _var0(x)) / z3.ToReal(n) + 1 / nt)
  r = unwrap(s.result)
  return z3.Or(r.none, z3.And(
      N(r.val.items[0]) == nt * (dy - b * dx),
      N(r.val.items[3]) == scale,
      N(r.val.items[1]) == _tq(N(par.sig_level), n - 2) * scale,
      N(r.val.items[2]) == sigma))


dspec.contracts[CLS + '.tbrfit'].ensures.extend(
    __import__('mmverif.engine.specs', fromlist=['clauses']).clauses([
        ('C06 design-side TBR fit: estimate n_test (dy - b dx), scale n_test '
         'sigma sqrt((1 + dx^2/var0(x))/n + 1/n_test), half-width = t-quantile '
         'x scale', _tbrfit_closed_form, ('C05', 'C06'))], ('C06',)))


def lemma_calibration(ctx):
  """Code-independent: at the displacement dx*^2 = phi (n+1) var0 / (n_test
  (n-1)) the TBR scale radicand equals the planning radicand, hence required
  impact = (q_sig + q_pow) x SCALE(dx*) when the fit's residual s.d. is
  std(y, ddof=2) sqrt(1 - corr^2)."""
  n, nt = z3.Ints('n nt')
  phi, var0, dx2, sig = z3.Reals('phi var0 dx2 sigma')
  hyps = [n >= 3, nt >= 1, var0 > 0, phi >= 0,
          dx2 == phi * (z3.ToReal(n) + 1) * var0 / (z3.ToReal(nt) * (
              z3.ToReal(n) - 1))]
  goal = (1 + dx2 / var0) / z3.ToReal(n) + 1 / z3.ToReal(nt) == radicand(
      n, nt, phi)
  return hyps, goal


def lemma_monotone(ctx):
  """Residual of the C05 monotonicity clause: for q_sig + q_pow > 0 the
  required impact strictly decreases in |corr| (sqrt strictly increasing)."""
  q, a, c1, c2 = z3.Reals('q A c1 c2')
  s = z3.Function('numpy.sqrt', R, R)
  u, v = z3.Reals('u v')
  hyps = [q > 0, a > 0, c1 * c1 < c2 * c2, c2 * c2 < 1,
          z3.ForAll([u, v], z3.Implies(z3.And(u >= 0, u < v), s(u) < s(v))),
          z3.ForAll([u], z3.Implies(u >= 0, s(u) >= 0))]
  goal = q * a * s(1 - c1 * c1) > q * a * s(1 - c2 * c2)
  return hyps, goal


def lemma_monotone_all_levels(ctx):
  """The clause as the statement has it (all levels in (0,1)): not provable,
  q_sig + q_pow may be <= 0 - the known finding C05:sig+power<=1."""
  q, a, c1, c2 = z3.Reals('q A c1 c2')
  s = z3.Function('numpy.sqrt', R, R)
  u, v = z3.Reals('u v')
  hyps = [a > 0, c1 * c1 < c2 * c2, c2 * c2 < 1,
          z3.ForAll([u, v], z3.Implies(z3.And(u >= 0, u < v), s(u) < s(v))),
          z3.ForAll([u], z3.Implies(u >= 0, s(u) >= 0))]
  goal = q * a * s(1 - c1 * c1) > q * a * s(1 - c2 * c2)
  return hyps, goal


LEMMAS = [
    ('C05 calibration: planning radicand = TBR scale radicand at the '
     'F-quantile displacement', lemma_calibration, ('C05',)),
    ('C05 required impact strictly decreases in |corr| when the quantile sum '
     'is positive (sig_level + power_level > 1)', lemma_monotone, ('C05',)),
    ('C05 strictly decreasing in |corr| for all levels',
     lemma_monotone_all_levels, ('C05',)),
]
