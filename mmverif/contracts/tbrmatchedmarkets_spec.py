"""Sidecar contracts for matched_markets/methodology/tbrmatchedmarkets.py.

Vocabulary (DESIGN.md section 6).  ID level: Ec, Et, Ex = flag columns of the
(reconciled) eligibility table; MUST = rows - Ex; assignable = rows - x_fixed.
Index level: idx = the installed geo index (duplicate free sequence of the
admitted IDs); G = index classes of idx (value of the `geo_assignments`
property, identical on every call as long as nothing it reads is written —
memoised contract, see specs.Contract.memo).
"""
import z3

from mmverif.contracts import clients_spec as cl
from mmverif.contracts import geoeligibility_spec as ge
from mmverif.contracts import heapdict_spec as hd
from mmverif.contracts import tbrmmdata_spec as td
from mmverif.engine import cardlemmas
from mmverif.engine import pandas_ledger as pl
from mmverif.engine.lib import uf
from mmverif.engine.specops import *  # pylint: disable=wildcard-import
from mmverif.engine.specs import LoopSpec, ModuleSpec, register
from mmverif.engine.symexec import Exec
from mmverif.engine.values import *  # pylint: disable=wildcard-import

spec = register(ModuleSpec('matched_markets/methodology/tbrmatchedmarkets.py'))
I = z3.IntSort()
R = z3.RealSort()
MOD = 'tbrmatchedmarkets'
CLS = 'TBRMatchedMarkets'

spec.cls(CLS, fields={
    'data': TObj('TBRMMData'),
    'parameters': TObj('TBRMMDesignParameters'),
    'geo_req_impact': pl.TSeries('impact'),
    '_search_results': TObj('HeapDict'),
})

impact = z3.Function('impact', I, R)
share = z3.Function('share', I, R)


def mm_inv(m):
  """Invariant of a constructed TBRMatchedMarkets object."""
  d = m.data
  imp = unwrap(m.geo_req_impact)
  return And(td.data_inv(d), cl.valid_params(m.parameters),
             imp.labels.elems == unwrap(d.df).labels.elems)


def tbl_of(m):
  return unwrap(m.data.geo_eligibility.data)


def MUST(m):
  t = tbl_of(m)
  return z3.SetDifference(t.rows, t.cols['exclude'])


def ghost(s, qual, obj=None):
  """Value of a memoised property of self (the one every call returns)."""
  return Exec(s.ctx).ghost_call(MOD, '%s.%s' % (CLS, qual),
                                unwrap(obj if obj is not None else s.self))


def GA(s):
  from mmverif.engine.symexec import ObjView
  return ObjView(s.ctx, ghost(s, 'geo_assignments'), None)


def ADM(s):
  return ghost(s, 'geos_within_constraints').t


def installed(s):
  """The geo index currently installed in self.data is the one the
  geo_assignments property installs (same sequence identity)."""
  ctx = s.ctx
  d = unwrap(s.self.data)
  cur = {f: ctx.get_field(d, f) for f in ('_geo_index', '_array',
                                          '_array_geo_share')}
  ex = Exec(ctx)
  before = {(oid, f): v for oid, rec in ctx.objects.items()
            for f, v in rec.fields.items()}
  ex.ghost_call(MOD, CLS + '.geo_assignments', unwrap(s.self), restore=False)
  post = {f: ctx.get_field(d, f) for f in cur}
  for (oid, f), v in before.items():
    ctx.objects[oid].fields[f] = v
  out = []
  for f in cur:
    a, b = cur[f], post[f]
    la = a.val if f == '_geo_index' else a.val.labels
    lb = b.val if f == '_geo_index' else b.val.labels
    out += [z3.Not(a.none), la.sid == lb.sid, td.same_seq(la, lb)]
  out.append(cur['_array'].val.tag == post['_array'].val.tag)
  return z3.And(out)


READS = ['TBRMatchedMarkets.data', 'TBRMatchedMarkets.parameters',
         'TBRMatchedMarkets.geo_req_impact', 'TBRMMData.df',
         'TBRMMData.geo_share', 'TBRMMData.geos_in_data',
         'TBRMMData.assignable', 'TBRMMData.geo_eligibility',
         'GeoEligibility.data'] + [
             'TBRMMDesignParameters.' + f for f in cl.PARAM_FIELDS]

INV = [('object invariant', lambda s: mm_inv(s.self))]

# ---------------------------------------------------------------------------
# constraint sets (ID level)


def _over_budget(s):
  p = s.self.parameters
  imp = unwrap(s.self.geo_req_impact)
  b = unwrap(p.budget_range)
  g = z3.Int('g!ob')
  big = z3.Lambda([g], z3.And(
      z3.IsMember(g, imp.labels.elems),
      imp.val(g) > N(b.val.items[1]) * N(p.iroas)))
  return SetEq(s.result, z3.If(b.none, z3.EmptySet(I), big))


spec.contract(
    CLS + '.geos_over_budget', params={}, result=TSet(), modifies=[],
    memo=True, reads=READS, props=('C01', 'C10'), requires=INV,
    ensures=[('geos whose own required impact exceeds the maximum budget',
              _over_budget)])


def _too_large(s):
  p = s.self.parameters
  sh = unwrap(s.self.data.geo_share)
  r = unwrap(p.treatment_share_range)
  g = z3.Int('g!tl')
  big = z3.Lambda([g], z3.And(z3.IsMember(g, sh.labels.elems),
                              sh.val(g) > N(r.val.items[1])))
  return SetEq(s.result, z3.If(r.none, z3.EmptySet(I), big))


spec.contract(
    CLS + '.geos_too_large', params={}, result=TSet(), modifies=[],
    memo=True, reads=READS, props=('C01', 'C10'), requires=INV,
    ensures=[('geos whose share exceeds the maximum treatment share',
              _too_large)])

spec.contract(
    CLS + '.geos_must_include', params={}, result=TSet(), modifies=[],
    memo=True, reads=READS, props=('C01', 'C10'), requires=INV,
    ensures=[('geos whose row forbids exclusion',
              lambda s: SetEq(s.result, MUST(s.self)))])


def _base(s):
  big = z3.SetUnion(ghost(s, 'geos_too_large').t,
                    ghost(s, 'geos_over_budget').t)
  return z3.SetUnion(z3.SetDifference(S(s.self.data.assignable), big),
                     MUST(s.self))


def _no_truncation(s):
  nmax = unwrap(s.self.parameters.n_geos_max)
  return z3.Or(nmax.none, cardlemmas.card(_base(s)) <= N(nmax.val))


spec.contract(
    CLS + '.geos_within_constraints', params={}, result=TSet(), modifies=[],
    memo=True, reads=READS, props=('C01', 'C10'), requires=INV,
    ensures=[
        ('admitted geos are assignable',
         lambda s: Subset(s.result, s.self.data.assignable), ('C01',)),
        ('admitted geos are within base = assignable - oversized + must',
         lambda s: Subset(s.result, _base(s)), ('C01',)),
        ('C01 every must-include geo is admitted',
         lambda s: Subset(MUST(s.self), s.result), ('C01',)),
        ('must-include geos are admitted when n_geos_max does not truncate',
         lambda s: Implies(_no_truncation(s),
                           And(Subset(MUST(s.self), s.result),
                               SetEq(s.result, _base(s)))), ('C01',)),
        ('at most n_geos_max geos', lambda s: Or(
            IsNone(s.self.parameters.n_geos_max),
            Card(s.result) <= N(Val(s.self.parameters.n_geos_max))),
         ('C01',)),
    ])

# ---------------------------------------------------------------------------
# geo_assignments (installs the geo index; index classes)


def valid_G(ga, n):
  """Type invariant of index classes over positions 0..n-1."""
  rng = IntRangeSet(0, n)
  return And(ge.ga_partition(ga), ge.ga_derived(ga), SetEq(ga.all, rng),
             n >= 0, Card(ga.all) == n)


def _ga_ctx(s):
  d = s.self.data
  return d, unwrap(d._geo_index).val, tbl_of(s.self), s.result


def _ga_installed(s):
  d = s.self.data
  return And(Not(IsNone(d._geo_index)), Not(IsNone(d._array)),
             Not(IsNone(d._array_geo_share)), Not(IsNone(d.geo_assignments)))


def _ga_index_elems(s):
  d, idx, tbl, ga = _ga_ctx(s)
  return idx.elems == ADM(s)


def _ga_index_dupfree(s):
  d, idx, tbl, ga = _ga_ctx(s)
  i, j = z3.Int('i!ga'), z3.Int('j!ga')
  return z3.ForAll([i, j], z3.Implies(
      z3.And(i >= 0, i < idx.length, j >= 0, j < idx.length,
             idx.at(i) == idx.at(j)), i == j))


def _ga_index_len(s):
  d, idx, tbl, ga = _ga_ctx(s)
  return idx.length == cardlemmas.card(ADM(s))


def _ga_arrays(s):
  d, idx, tbl, ga = _ga_ctx(s)
  return And(
      td.same_seq(unwrap(d._array).val.labels, idx),
      unwrap(d._array).val.labels.sid == idx.sid,
      unwrap(d._array).val.tag == unwrap(d.df).tag,
      td.same_seq(unwrap(d._array_geo_share).val.labels, idx),
      unwrap(d._array_geo_share).val.labels.sid == idx.sid)


def _ga_classes(s):
  d, idx, tbl, ga = _ga_ctx(s)
  g = z3.Int('g!ga')

  def pos(col):
    return z3.Lambda([g], z3.And(g >= 0, g < idx.length,
                                 z3.IsMember(idx.at(g), tbl.cols[col])))
  return And(SetEq(ga.c, pos('control')), SetEq(ga.t, pos('treatment')),
             SetEq(ga.x, pos('exclude')),
             ge.ga_classes(ga, ga.c, ga.t, ga.x))


def _ga_valid(s):
  d, idx, tbl, ga = _ga_ctx(s)
  return valid_G(ga, idx.length)


spec.contract(
    CLS + '.geo_assignments', params={}, result=TObj('GeoAssignments'),
    modifies=['self.data._geo_index', 'self.data.geo_assignments',
              'self.data._array', 'self.data._array_geo_share'],
    memo=True, reads=READS, props=('C01', 'C10', 'C15'), requires=INV,
    ensures=[
        ('a geo index is installed', _ga_installed),
        ('the index holds exactly the admitted geos', _ga_index_elems),
        ('the index has no repeated geo', _ga_index_dupfree),
        ('the index has one position per admitted geo', _ga_index_len),
        ('row and share arrays follow the index', _ga_arrays),
        ('classes are those of the rows of the indexed geos', _ga_classes),
        ('classes partition the positions 0..N-1', _ga_valid),
    ])

# ---------------------------------------------------------------------------
# size ranges


def trt_bounds(s, ga):
  """(lo, hi) inclusive of the admissible treatment sizes."""
  p = s.self.parameters
  n_min = z3.If(Card(ga.t_fixed) >= 1, Card(ga.t_fixed), z3.IntVal(1))
  rest = z3.SetUnion(S(ga.cx), S(ga.c_fixed))
  n_max = Card(ga.t) - z3.If(rest == z3.EmptySet(I), 1, 0)
  r = unwrap(p.treatment_geos_range)
  r0, r1 = N(r.val.items[0]), N(r.val.items[1])
  lo = z3.If(r.none, n_min, z3.If(r0 >= n_min, r0, n_min))
  hi = z3.If(r.none, n_max, z3.If(r1 <= n_max, r1, n_max))
  return lo, hi


def _tsr_exact(s):
  lo, hi = trt_bounds(s, GA(s))
  r = unwrap(s.result)
  return z3.And(r.lo == lo, r.hi == hi + 1)


def _tsr_sound(s):
  ga = GA(s)
  p = s.self.parameters
  r = unwrap(s.result)
  rr = unwrap(p.treatment_geos_range)
  n = z3.Int('n!ts')
  return z3.ForAll([n], z3.Implies(z3.And(n >= r.lo, n < r.hi), z3.And(
      n >= 1, n >= Card(ga.t_fixed), n <= Card(ga.t),
      z3.Or(rr.none, z3.And(N(rr.val.items[0]) <= n,
                            n <= N(rr.val.items[1]))))))


GA_MOD = ['self.data._geo_index', 'self.data.geo_assignments',
          'self.data._array', 'self.data._array_geo_share']

spec.contract(
    CLS + '.treatment_group_size_range', params={}, result=TRangeShape(),
    modifies=GA_MOD, props=('C02', 'C11'), requires=INV,
    ensures=[
        ('C02 treatment sizes lie in the user range (inclusive) and are '
         'feasible', _tsr_sound, ('C02',)),
        ('treatment size range is exactly [max(lo, n_min), min(hi, n_max)]',
         _tsr_exact, ('C11', 'C03', 'C02')),
    ])


def ctl_bounds(s, ga):
  p = s.self.parameters
  n_min = z3.If(Card(ga.c_fixed) >= 1, Card(ga.c_fixed), z3.IntVal(1))
  n_max = Card(ga.c)
  r = unwrap(p.control_geos_range)
  r0, r1 = N(r.val.items[0]), N(r.val.items[1])
  lo = z3.If(r.none, n_min, z3.If(r0 >= n_min, r0, n_min))
  hi = z3.If(r.none, n_max, z3.If(r1 <= n_max, r1, n_max))
  return lo, hi


def ratio_ok(tol, n_ctl, n_trt):
  """1/(1+tol) <= n_ctl/n_trt <= 1+tol  (reals, inclusive)."""
  tol = unwrap(tol)
  t = N(tol.val)
  m, n = z3.ToReal(n_ctl), z3.ToReal(n_trt)
  return z3.Or(tol.none, z3.And(m / n >= 1 / (1 + t), m / n <= 1 + t))


def ctl_size_ok(s, ga, m, n_trt):
  p = s.self.parameters
  lo, hi = ctl_bounds(s, ga)
  return z3.And(m >= lo, m <= hi, ratio_ok(p.geo_ratio_tolerance, m, n_trt))


def _csg_yield(s):
  return ctl_size_ok(s, GA(s), N(s.elem), N(s.n_treatment_geos))


def _csg_user_range(s):
  rr = unwrap(s.self.parameters.control_geos_range)
  m = N(s.elem)
  return z3.And(m >= 1, z3.Or(rr.none, z3.And(N(rr.val.items[0]) <= m,
                                              m <= N(rr.val.items[1]))))


spec.contract(
    CLS + '._control_group_size_generator',
    params={'n_treatment_geos': TInt()},
    modifies=GA_MOD, props=('C02', 'C11'), kind='generator',
    requires=INV + [('a positive treatment size',
                     lambda s: N(s.n_treatment_geos) >= 1)],
    yields=[
        ('C02 control size within the user range (inclusive)',
         _csg_user_range, ('C02',)),
        ('C02 control size admissible: bounds and geo ratio (inclusive)',
         _csg_yield, ('C02', 'C11')),
    ],
    loops=[LoopSpec(('n_control_geos', 'range(n_geos_from, n_geos_to + 1)'),
                    invariants=[])])
spec.contracts[CLS + '._control_group_size_generator'].elem = TInt()

# ---------------------------------------------------------------------------
# group generators


def legal_t(ga, t):
  return z3.And(z3.IsSubset(S(ga.t_fixed), t), z3.IsSubset(t, S(ga.t)))


def legal_c(ga, t, c):
  must = z3.SetUnion(S(ga.c_fixed), z3.SetDifference(S(ga.ct), t))
  return z3.And(z3.IsSubset(must, c),
                z3.IsSubset(c, z3.SetDifference(S(ga.c), t)))


spec.contract(
    CLS + '.treatment_group_generator', params={'n': TInt()},
    modifies=GA_MOD, props=('C01', 'C11'), kind='generator', requires=INV,
    raises={'ValueError': ('n is not positive', lambda s: N(s.n) <= 0)},
    yields=[
        ('C01 treatment group is legal: fixed geos in, only treatment-eligible '
         'geos', lambda s: legal_t(GA(s), S(s.elem)), ('C01',)),
        ('treatment group has the requested size',
         lambda s: Card(s.elem) == N(s.n), ('C02', 'C11')),
    ],
    loops=[LoopSpec(('treatment_geos_combination', 'it'), invariants=[])])
spec.contracts[CLS + '.treatment_group_generator'].elem = TSet()

SS = z3.SetSort(I)


def tgg_spec(ga, n, T):
  """T is a treatment group of size n: the fixed geos plus a set of
  n - |fixed| further treatment-eligible geos."""
  fx = S(ga.t_fixed)
  return z3.And(z3.IsSubset(fx, T), z3.IsSubset(T, S(ga.t)),
                cardlemmas.card(z3.SetDifference(T, fx)) ==
                n - cardlemmas.card(fx))


def _tgg_exact(s):
  T = z3.Const('T!tgg', SS)
  return z3.ForAll([T], z3.IsMember(T, S(s.yielded)) ==
                   tgg_spec(GA(s), N(s.n), T))


def _tgg_inv(s):
  ga = GA(s)
  fx = S(ga.t_fixed)
  T = z3.Const('T!tgi', SS)
  return z3.ForAll([T], z3.IsMember(T, S(s.yielded)) == z3.And(
      z3.IsSubset(fx, T),
      z3.IsMember(z3.SetDifference(T, fx), S(s.visited))))


from mmverif.engine.specs import clauses as _mkclauses  # noqa: E402
_c = spec.contracts[CLS + '.treatment_group_generator']
_c.gen_post = _mkclauses([
    ('C11 exactly the treatment groups of the requested size are yielded: '
     'fixed geos plus any n - |fixed| further treatment-eligible geos',
     _tgg_exact, ('C11', 'C03'))], ('C11',))
_c.loops = [LoopSpec(('treatment_geos_combination', 'it'), invariants=[
    ('groups yielded so far are the fixed geos plus the combinations visited',
     _tgg_inv, ('C11', 'C03'))])]


def _cgg_sizes(s):
  ga = GA(s)
  return ctl_size_ok(s, ga, Card(s.elem), Card(s.treatment_group))


spec.contract(
    CLS + '.control_group_generator', params={'treatment_group': TSet()},
    modifies=GA_MOD, props=('C01', 'C11'), kind='generator', requires=INV,
    raises={'ValueError': (
        'empty treatment group or geos not eligible for treatment',
        lambda s: Or(IsEmpty(s.treatment_group),
                     Not(Subset(s.treatment_group, GA(s).t))))},
    yields=[
        ('C01 control group is legal: fixed and unassigned ct geos in, only '
         'control-eligible geos outside the treatment group',
         lambda s: legal_c(GA(s), S(s.treatment_group), S(s.elem)), ('C01',)),
        ('C01 control group is not empty',
         lambda s: Not(IsEmpty(s.elem)), ('C01',)),
        ('C02 control group size admissible: bounds and geo ratio',
         _cgg_sizes, ('C02', 'C11')),
    ],
    loops=[
        LoopSpec(('n_control_geos',
                  'self._control_group_size_generator(n_treatment_geos)'),
                 invariants=[]),
        LoopSpec(('control_geos', 'it'), invariants=[]),
    ])
spec.contracts[CLS + '.control_group_generator'].elem = TSet()


def _cgg_sets(s):
  ga = GA(s)
  T = S(s.treatment_group)
  fixed = z3.SetUnion(S(ga.c_fixed), z3.SetDifference(S(ga.ct), T))
  possible = z3.SetDifference(S(ga.c), T)
  return fixed, possible


def _cgg_shape(s, C):
  """C is the fixed control geos plus further control-eligible geos outside
  the treatment group, and is not empty; its size."""
  fixed, possible = _cgg_sets(s)
  size = cardlemmas.card(fixed) + cardlemmas.card(z3.SetDifference(C, fixed))
  shape = z3.And(z3.IsSubset(fixed, C), z3.IsSubset(C, possible),
                 z3.Or(size > cardlemmas.card(fixed),
                       fixed != z3.EmptySet(I)))
  return shape, size


def _cgg_exact(s):
  C = z3.Const('C!cgg', SS)
  shape, size = _cgg_shape(s, C)
  return z3.ForAll([C], z3.IsMember(C, S(s.yielded)) == z3.And(
      shape, ctl_size_ok(s, GA(s), size, Card(s.treatment_group))))


def _cgg_outer_inv(s):
  C = z3.Const('C!cgo', SS)
  shape, size = _cgg_shape(s, C)
  return z3.ForAll([C], z3.IsMember(C, S(s.yielded)) == z3.And(
      shape, z3.IsMember(size, S(s.visited))))


def _cgg_inner_inv(s):
  C = z3.Const('C!cgi', SS)
  shape, size = _cgg_shape(s, C)
  fixed, _ = _cgg_sets(s)
  return z3.ForAll([C], z3.IsMember(C, S(s.yielded)) == z3.And(
      shape, z3.Or(
          z3.IsMember(size, S(s.sizes_done)),
          z3.And(size == N(s.n_control_geos),
                 z3.IsMember(z3.SetDifference(C, fixed), S(s.visited))))))


_c = spec.contracts[CLS + '.control_group_generator']
_c.gen_post = _mkclauses([
    ('C11 exactly the control groups of an admissible size are yielded: the '
     'fixed control geos plus further control-eligible geos outside the '
     'treatment group, not empty', _cgg_exact, ('C11', 'C03'))], ('C11',))
_c.loops = [
    LoopSpec(('n_control_geos',
              'self._control_group_size_generator(n_treatment_geos)'),
             invariants=[('groups yielded so far are those of the sizes '
                          'visited', _cgg_outer_inv, ('C11', 'C03'))],
             export_visited='sizes_done'),
    LoopSpec(('control_geos', 'it'),
             invariants=[('groups yielded so far: sizes done, plus the '
                          'combinations visited for the current size',
                          _cgg_inner_inv, ('C11', 'C03'))]),
]

# ---------------------------------------------------------------------------
# constraint predicates

spec.contract(
    CLS + '._constraint_not_satisfied',
    params={'parameter_value': TReal(np=True), 'constraint_lower': TReal(),
            'constraint_upper': TReal()},
    result=TBool(), modifies=[], props=('C02',),
    ensures=[('inclusive interval test', lambda s: Iff(
        s.result, Not(And(Le(s.constraint_lower, s.parameter_value),
                          Le(s.parameter_value, s.constraint_upper)))))])


def in_range(v, rng_opt, which=None):
  r = unwrap(rng_opt)
  return z3.Or(r.none, z3.And(N(r.val.items[0]) <= v, v <= N(r.val.items[1])))


def tol_ok(v, tol_opt):
  tol = unwrap(tol_opt)
  t = N(tol.val)
  return z3.Or(tol.none, z3.And(v >= 1 / (1 + t), v <= 1 + t))


def SHI(s, sset):
  idx = unwrap(s.self.data._array_geo_share).val.labels
  return td.SH(idx, sset)


def within(s, ga, t, c):
  """The predicate design_within_constraints implements."""
  p = s.self.parameters
  return z3.And(
      t != z3.EmptySet(I), c != z3.EmptySet(I),
      tol_ok(SHI(s, c) / SHI(s, t), p.volume_ratio_tolerance),
      tol_ok(z3.ToReal(cardlemmas.card(c)) / z3.ToReal(cardlemmas.card(t)),
             p.geo_ratio_tolerance),
      in_range(SHI(s, t) / SHI(s, S(ga.all)), p.treatment_share_range),
      in_range(cardlemmas.card(t), p.treatment_geos_range),
      in_range(cardlemmas.card(c), p.control_geos_range))


def positions(s, sset):
  ga = GA(s)
  return z3.IsSubset(sset, S(ga.all))


spec.contract(
    CLS + '.design_within_constraints',
    params={'treatment_geos': TSet(), 'control_geos': TSet()},
    result=TBool(), modifies=GA_MOD, props=('C02', 'C13'),
    requires=INV + [
        ('groups are sets of positions of the geo index', lambda s: And(
            positions(s, S(s.treatment_geos)),
            positions(s, S(s.control_geos)))),
        ('the geo index of geo_assignments is installed', installed),
    ],
    ensures=[('C02 true exactly when both groups are non-empty and every '
              'specified constraint holds (inclusive bounds)',
              lambda s: Iff(s.result, within(s, GA(s), S(s.treatment_geos),
                                             S(s.control_geos))))])

for _q in ['treatment_group_size_range', '_control_group_size_generator',
           'treatment_group_generator', 'control_group_generator',
           'design_within_constraints']:
  from mmverif.engine.specs import clauses as _clauses
  spec.contracts[CLS + '.' + _q].ensures.extend(_clauses(
      [('afterwards the geo index of geo_assignments is installed',
        installed)], ('C10',)))

def _init_impacts(s):
  imp = unwrap(s.self.geo_req_impact)
  tag = unwrap(s.self.data.df).tag
  f = z3.Function('ROWAPPLY', tag.sort(), I, R)
  g = z3.Int('g!ii')
  return z3.ForAll([g], z3.Implies(z3.IsMember(g, imp.labels.elems),
                                   imp.val(g) == f(tag, g)))


def _init_truncated(s):
  tag0 = unwrap(s.old.data.df).tag
  tag1 = unwrap(s.self.data.df).tag
  trunc = z3.Function('LASTCOLS', tag0.sort(), I, tag0.sort())
  return tag1 == trunc(tag0, -N(s.parameters.n_pretest_max))


spec.contract(
    CLS + '.__init__',
    params={'data': TObj('TBRMMData'),
            'parameters': TObj('TBRMMDesignParameters')},
    modifies=['self.*', 'data.df'], props=('C01', 'C09', 'C10', 'C15'),
    requires=[('the data object satisfies its invariant',
               lambda s: td.data_inv(s.data)),
              ('the parameter object is an accepted one',
               lambda s: cl.valid_params(s.parameters))],
    binds={'self.data': lambda s: s.data,
           'self.parameters': lambda s: s.parameters},
    ensures=[('the object invariant every method assumes: data invariant, '
              'accepted parameters, one required impact per geo in the data',
              lambda s: mm_inv(s.self)),
             ('the per-geo required impacts are computed from the panel as '
              'the searches see it: the rows of data.df AFTER the truncation '
              'to the last n_pretest_max dates', _init_impacts),
             ('the panel is truncated to the last n_pretest_max dates',
              _init_truncated)])

LEMMAS = []
FUNCTIONS = [
    CLS + '.__init__',
    CLS + '.geos_over_budget', CLS + '.geos_too_large',
    CLS + '.geos_must_include', CLS + '.geos_within_constraints',
    CLS + '.geo_assignments', CLS + '.treatment_group_size_range',
    CLS + '._control_group_size_generator',
    CLS + '.treatment_group_generator', CLS + '.control_group_generator',
    CLS + '._constraint_not_satisfied', CLS + '.design_within_constraints',
]


def _load_second_part():
  from mmverif.contracts import tbrmm_search_spec as second
  FUNCTIONS.extend(q for q in second.FUNCTIONS2 if q not in FUNCTIONS)
