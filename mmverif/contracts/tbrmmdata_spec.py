"""Sidecar contracts for matched_markets/methodology/tbrmmdata.py
(geo_index setter and the two aggregations: C01, C04, C09, C10, C15).

TBRMMData.__init__ (pivot / mean / sort / share) is pandas end to end; its
"canonical form" postcondition is essentially the pivot/sort contract, so it is
covered by the bounded monitor of C15 only.  What later code relies on is
stated here as the data invariant `data_inv`.
"""
import z3

from mmverif.contracts import geoeligibility_spec as ge
from mmverif.engine import pandas_ledger as pl
from mmverif.engine.lib import uf
from mmverif.engine.specops import *  # pylint: disable=wildcard-import
from mmverif.engine.specs import LoopSpec, ModuleSpec, register
from mmverif.engine.values import *  # pylint: disable=wildcard-import

spec = register(ModuleSpec('matched_markets/methodology/tbrmmdata.py'))
I = z3.IntSort()
ArrSort = sort_named('Arr')


class TRowArray(Shape):

  def fresh(self, ctx, name):
    return pl.VRowArray(TSeq(I, dupfree=False).fresh(ctx, name + '.labels'),
                        z3.Const(ctx.sym(name + '.data'),
                                 sort_named('PanelData')))


class TShareArray(Shape):

  def fresh(self, ctx, name):
    return pl.VShareArray(TSeq(I, dupfree=False).fresh(ctx, name + '.labels'))


spec.cls('TBRMMData', fields={
    'df': pl.TPanel(),
    'geo_share': pl.TSeries('share'),
    'geos_in_data': TSet(),
    'assignable': TSet(),
    'geo_eligibility': TObj('GeoEligibility'),
    'geo_assignments': TOpt(TObj('GeoAssignments')),
    '_geo_index': TOpt(TSeq(I)),
    '_array': TOpt(TRowArray()),
    '_array_geo_share': TOpt(TShareArray()),
})


def data_inv(d):
  """What TBRMMData.__init__ establishes and no method changes."""
  tbl = unwrap(d.geo_eligibility.data)
  panel = unwrap(d.df)
  share = unwrap(d.geo_share)
  must_exclude = z3.SetDifference(z3.SetDifference(
      tbl.cols['exclude'], tbl.cols['control']), tbl.cols['treatment'])
  return And(
      SetEq(d.geos_in_data, panel.labels.elems),
      SetEq(share.labels.elems, panel.labels.elems),
      Subset(tbl.rows, d.geos_in_data),
      SetEq(d.assignable, z3.SetDifference(tbl.rows, must_exclude)))


def same_seq(a, b):
  i = z3.Int('i!ss')
  return z3.And(a.length == b.length,
                z3.ForAll([i], z3.Implies(z3.And(i >= 0, i < a.length),
                                          a.at(i) == b.at(i))),
                a.elems == b.elems)


def _setter_post(s):
  d = s.self
  geos = unwrap(s.geos)
  ga = unwrap(d.geo_assignments)
  tbl = unwrap(d.geo_eligibility.data)
  g = z3.Int('g!sp')

  def pos(col):
    return z3.Lambda([g], z3.And(g >= 0, g < geos.length,
                                 z3.IsMember(geos.at(g), tbl.cols[col])))

  gav = ObjView(s.ctx, ga.val, None)
  return And(
      Not(ga.none),
      SetEq(gav.c, pos('control')), SetEq(gav.t, pos('treatment')),
      SetEq(gav.x, pos('exclude')),
      ge.ga_classes(gav, gav.c, gav.t, gav.x), ge.ga_partition(gav),
      ge.ga_derived(gav),
      SetEq(gav.all, IntRangeSet(0, geos.length)),
      Not(unwrap(d._geo_index).none),
      same_seq(unwrap(d._geo_index).val, geos),
      unwrap(d._geo_index).val.sid == geos.sid,
      Not(unwrap(d._array).none),
      same_seq(unwrap(d._array).val.labels, geos),
      unwrap(d._array).val.labels.sid == geos.sid,
      unwrap(d._array).val.tag == unwrap(d.df).tag,
      Not(unwrap(d._array_geo_share).none),
      same_seq(unwrap(d._array_geo_share).val.labels, geos),
      unwrap(d._array_geo_share).val.labels.sid == geos.sid)


spec.contract(
    'TBRMMData.geo_index.setter',
    params={'geos': TSeq(I)},
    modifies=['self.geo_assignments', 'self._geo_index', 'self._array',
              'self._array_geo_share'],
    props=('C15', 'C01', 'C04', 'C10'),
    requires=[('data invariant', lambda s: data_inv(s.self))],
    raises={'ValueError': ('some geo is not assignable', lambda s: Not(
        Subset(unwrap(s.geos).elems, s.self.assignable)))},
    ensures=[('index, row array, share array and index classes follow the '
              'given order', _setter_post)])


def idx_range(seq):
  return IntRangeSet(0, seq.length)


def image(seq, sset):
  """{seq[i] | i in S} (IDs of an index set)."""
  g, i = z3.Int('g!im'), z3.Int('i!im')
  return z3.Lambda([g], z3.Exists([i], z3.And(z3.IsMember(i, sset), i >= 0,
                                               i < seq.length,
                                               seq.at(i) == g)))


def AGG(tag, seq, sset):
  """Sum of the rows of the geos labelled seq[i], i in S (a series)."""
  return uf('AGG', [tag, seq.sid, sset], ArrSort)


LEN_ARR = z3.Function('len_Arr', ArrSort, I)
NDIM_ARR = z3.Function('ndim_Arr', ArrSort, I)
WIDTH = z3.Function('WIDTH', sort_named('PanelData'), I)


def _agg_len_axiom(ctx):
  tag = z3.Const('tag!ax', sort_named('PanelData'))
  sid = z3.Int('sid!ax')
  st = z3.Const('S!ax', z3.SetSort(I))
  agg = z3.Function('AGG', sort_named('PanelData'), I, z3.SetSort(I), ArrSort)
  return z3.ForAll([tag, sid, st], z3.And(
      LEN_ARR(agg(tag, sid, st)) == WIDTH(tag),
      NDIM_ARR(agg(tag, sid, st)) == 1))


spec.axioms.append(('numpy: the column sums of a 2-d array have one entry per '
                    'column (date of the panel)', _agg_len_axiom))


def SH(seq, sset):
  """Sum of the shares of the geos labelled seq[i], i in S."""
  return uf('SH', [seq.sid, sset], z3.RealSort())


spec.contract(
    'TBRMMData.aggregate_time_series',
    params={'geo_indices': TSet()},
    result=TOpaque('Arr'),
    modifies=[],
    props=('C04', 'C15', 'C09'),
    requires=[
        ('a geo index is installed', lambda s: Not(IsNone(s.self._array))),
        ('indices are positions of the geo index', lambda s: z3.IsSubset(
            S(s.geo_indices), idx_range(unwrap(s.self._array).val.labels))),
    ],
    ensures=[
        ('sum of the selected rows', lambda s: unwrap(s.result).t == AGG(
            unwrap(s.self._array).val.tag, unwrap(s.self._array).val.labels,
            S(s.geo_indices))),
        ('a vector with one entry per date of the panel', lambda s: z3.And(
            LEN_ARR(unwrap(s.result).t) == WIDTH(
                unwrap(s.self._array).val.tag),
            NDIM_ARR(unwrap(s.result).t) == 1)),
    ])

spec.contract(
    'TBRMMData.aggregate_geo_share',
    params={'geo_indices': TSet()},
    result=TReal(np=True),
    modifies=[],
    props=('C02', 'C15', 'C09'),
    requires=[
        ('a geo index is installed',
         lambda s: Not(IsNone(s.self._array_geo_share))),
        ('indices are positions of the geo index', lambda s: z3.IsSubset(
            S(s.geo_indices),
            idx_range(unwrap(s.self._array_geo_share).val.labels))),
    ],
    ensures=[('sum of the selected shares', lambda s: N(s.result) == SH(
        unwrap(s.self._array_geo_share).val.labels, S(s.geo_indices)))])

# the getter is `return self._geo_index`: inlined at call sites
spec.inline.add('TBRMMData.geo_index')

LEMMAS = []
FUNCTIONS = ['TBRMMData.geo_index.setter', 'TBRMMData.aggregate_time_series',
             'TBRMMData.aggregate_geo_share']
