"""Sidecar contracts for matched_markets/methodology/tbrmmdata.py
(geo_index setter and the two aggregations: C01, C04, C09, C10, C15).

TBRMMData.__init__ (pivot / mean / sort / share) is pandas end to end; its
"canonical form" postcondition is essentially the pivot/sort contract, so it is
covered by the bounded monitor of C15 only.  What later code relies on is
stated here as the data invariant `data_inv`.
"""
import z3

from mmverif.contracts import geoeligibility_spec as ge
from mmverif.engine import pandas_ledger as pl
from mmverif.engine.lib import uf
from mmverif.engine.specops import *  # pylint: disable=wildcard-import
from mmverif.engine.specs import LoopSpec, ModuleSpec, register
from mmverif.engine.values import *  # pylint: disable=wildcard-import

spec = register(ModuleSpec('matched_markets/methodology/tbrmmdata.py'))
I = z3.IntSort()
ArrSort = sort_named('Arr')


class TRowArray(Shape):

  def fresh(self, ctx, name):
    return pl.VRowArray(TSeq(I, dupfree=False).fresh(ctx, name + '.labels'),
                        z3.Const(ctx.sym(name + '.data'),
                                 sort_named('PanelData')))


class TShareArray(Shape):

  def fresh(self, ctx, name):
    return pl.VShareArray(TSeq(I, dupfree=False).fresh(ctx, name + '.labels'))


spec.cls('TBRMMData', fields={
    'df': pl.TPanel(),
    'geo_share': pl.TSeries('share'),
    'geos_in_data': TSet(),
    'assignable': TSet(),
    'geo_eligibility': TObj('GeoEligibility'),
    'geo_assignments': TOpt(TObj('GeoAssignments')),
    '_geo_index': TOpt(TSeq(I)),
    '_array': TOpt(TRowArray()),
    '_array_geo_share': TOpt(TShareArray()),
})


def data_inv(d):
  """What TBRMMData.__init__ establishes and no method changes."""
  gobj = d.geo_eligibility
  notnone = z3.BoolVal(True)
  if isinstance(gobj, VOpt):          # right after the constructor
    from mmverif.engine.symexec import ObjView as _OV
    notnone = z3.Not(gobj.none)
    gobj = _OV(d._ctx, gobj.val, d._heap)
  tbl = unwrap(gobj.data)
  panel = unwrap(d.df)
  share = unwrap(d.geo_share)
  must_exclude = z3.SetDifference(z3.SetDifference(
      tbl.cols['exclude'], tbl.cols['control']), tbl.cols['treatment'])
  return And(
      notnone,
      SetEq(d.geos_in_data, panel.labels.elems),
      SetEq(share.labels.elems, panel.labels.elems),
      Subset(tbl.rows, d.geos_in_data),
      SetEq(d.assignable, z3.SetDifference(tbl.rows, must_exclude)))


def same_seq(a, b):
  i = z3.Int('i!ss')
  return z3.And(a.length == b.length,
                z3.ForAll([i], z3.Implies(z3.And(i >= 0, i < a.length),
                                          a.at(i) == b.at(i))),
                a.elems == b.elems)


def _setter_post(s):
  d = s.self
  geos = unwrap(s.geos)
  ga = unwrap(d.geo_assignments)
  tbl = unwrap(d.geo_eligibility.data)
  g = z3.Int('g!sp')

  def pos(col):
    return z3.Lambda([g], z3.And(g >= 0, g < geos.length,
                                 z3.IsMember(geos.at(g), tbl.cols[col])))

  gav = ObjView(s.ctx, ga.val, None)
  return And(
      Not(ga.none),
      SetEq(gav.c, pos('control')), SetEq(gav.t, pos('treatment')),
      SetEq(gav.x, pos('exclude')),
      ge.ga_classes(gav, gav.c, gav.t, gav.x), ge.ga_partition(gav),
      ge.ga_derived(gav),
      SetEq(gav.all, IntRangeSet(0, geos.length)),
      Not(unwrap(d._geo_index).none),
      same_seq(unwrap(d._geo_index).val, geos),
      unwrap(d._geo_index).val.sid == geos.sid,
      Not(unwrap(d._array).none),
      same_seq(unwrap(d._array).val.labels, geos),
      unwrap(d._array).val.labels.sid == geos.sid,
      unwrap(d._array).val.tag == unwrap(d.df).tag,
      Not(unwrap(d._array_geo_share).none),
      same_seq(unwrap(d._array_geo_share).val.labels, geos),
      unwrap(d._array_geo_share).val.labels.sid == geos.sid)


spec.contract(
    'TBRMMData.geo_index.setter',
    params={'geos': TSeq(I)},
    modifies=['self.geo_assignments', 'self._geo_index', 'self._array',
              'self._array_geo_share'],
    props=('C15', 'C01', 'C04', 'C10'),
    requires=[('data invariant', lambda s: data_inv(s.self))],
    raises={'ValueError': ('some geo is not assignable', lambda s: Not(
        Subset(unwrap(s.geos).elems, s.self.assignable)))},
    ensures=[('index, row array, share array and index classes follow the '
              'given order', _setter_post)])


def idx_range(seq):
  return IntRangeSet(0, seq.length)


def image(seq, sset):
  """{seq[i] | i in S} (IDs of an index set)."""
  g, i = z3.Int('g!im'), z3.Int('i!im')
  return z3.Lambda([g], z3.Exists([i], z3.And(z3.IsMember(i, sset), i >= 0,
                                               i < seq.length,
                                               seq.at(i) == g)))


def AGG(tag, seq, sset):
  """Sum of the rows of the geos labelled seq[i], i in S (a series)."""
  return uf('AGG', [tag, seq.sid, sset], ArrSort)


LEN_ARR = z3.Function('len_Arr', ArrSort, I)
NDIM_ARR = z3.Function('ndim_Arr', ArrSort, I)
WIDTH = z3.Function('WIDTH', sort_named('PanelData'), I)


def _agg_len_axiom(ctx):
  tag = z3.Const('tag!ax', sort_named('PanelData'))
  sid = z3.Int('sid!ax')
  st = z3.Const('S!ax', z3.SetSort(I))
  agg = z3.Function('AGG', sort_named('PanelData'), I, z3.SetSort(I), ArrSort)
  return z3.ForAll([tag, sid, st], z3.And(
      LEN_ARR(agg(tag, sid, st)) == WIDTH(tag),
      NDIM_ARR(agg(tag, sid, st)) == 1))


spec.axioms.append(('numpy: the column sums of a 2-d array have one entry per '
                    'column (date of the panel)', _agg_len_axiom))


def SH(seq, sset):
  """Sum of the shares of the geos labelled seq[i], i in S."""
  return uf('SH', [seq.sid, sset], z3.RealSort())


spec.contract(
    'TBRMMData.aggregate_time_series',
    params={'geo_indices': TSet()},
    result=TOpaque('Arr'),
    modifies=[],
    props=('C04', 'C15', 'C09'),
    requires=[
        ('a geo index is installed', lambda s: Not(IsNone(s.self._array))),
        ('indices are positions of the geo index', lambda s: z3.IsSubset(
            S(s.geo_indices), idx_range(unwrap(s.self._array).val.labels))),
    ],
    ensures=[
        ('sum of the selected rows', lambda s: unwrap(s.result).t == AGG(
            unwrap(s.self._array).val.tag, unwrap(s.self._array).val.labels,
            S(s.geo_indices))),
        ('a vector with one entry per date of the panel', lambda s: z3.And(
            LEN_ARR(unwrap(s.result).t) == WIDTH(
                unwrap(s.self._array).val.tag),
            NDIM_ARR(unwrap(s.result).t) == 1)),
    ])

spec.contract(
    'TBRMMData.aggregate_geo_share',
    params={'geo_indices': TSet()},
    result=TReal(np=True),
    modifies=[],
    props=('C02', 'C15', 'C09'),
    requires=[
        ('a geo index is installed',
         lambda s: Not(IsNone(s.self._array_geo_share))),
        ('indices are positions of the geo index', lambda s: z3.IsSubset(
            S(s.geo_indices),
            idx_range(unwrap(s.self._array_geo_share).val.labels))),
    ],
    ensures=[('sum of the selected shares', lambda s: N(s.result) == SH(
        unwrap(s.self._array_geo_share).val.labels, S(s.geo_indices)))])

# the getter is `return self._geo_index`: inlined at call sites
spec.inline.add('TBRMMData.geo_index')

LEMMAS = []
FUNCTIONS = ['TBRMMData.geo_index.setter', 'TBRMMData.aggregate_time_series',
             'TBRMMData.aggregate_geo_share']

# ---------------------------------------------------------------------------
# TBRMMData.__init__ (C15): the reconcile-or-reject logic and the data
# invariant every later contract assumes.  The pandas steps before it (copy,
# pivot, mean, sort, share) are ledger entries: what is proved is the set
# algebra on top of them, not what the pivot computes.

from mmverif.engine import frame_ledger as _fl                  # noqa: E402
from mmverif.engine.lib import ASSUMPTIONS as _ASSUME, lib as _lib  # noqa
from mmverif.engine.pandas_ledger import VBound as _VBound      # noqa: E402
from mmverif.engine.symexec import RaiseSig as _RaiseSig        # noqa: E402

RawSort = sort_named('RawFrame')
RAW_COLS = z3.Function('RAW_COLS', RawSort, z3.SetSort(I))   # column names
RAW_GEOS = z3.Function('RAW_GEOS', RawSort, z3.SetSort(I))   # str(geo) values
PIVOT = z3.Function('PIVOT', RawSort, I, sort_named('PanelData'))
ROWMEAN = z3.Function('ROWMEAN', sort_named('PanelData'), I, z3.RealSort())

_ASSUME.extend([
    'pandas (TBRMMData.__init__): df.copy() and df.geo.astype(str) keep the '
    'column names and the set of geo values; set(df.columns) is the set of '
    'column names; pivot_table(values, index="geo", columns="date", '
    'fill_value=0) has one row per distinct geo value (labels without '
    'duplicates); mean(axis=1) is a Series over the same labels; '
    'sort_values keeps the label set; Series / scalar keeps the labels; '
    'pd.DataFrame({"geo": list, "control": 1, "treatment": 1, "exclude": 1}) '
    'is an eligibility table with one all-ones row per list entry',
])


class VRaw(V):
  """The long-format input frame of TBRMMData (value semantics)."""
  kind = 'rawframe'

  def __init__(self, t):
    self.t = t

  def flatten(self):
    return [self.t]

  def py_getattr(self, ex, name, node):
    if name == 'copy':
      return _VBound(lambda ex_, a, k, n: VRaw(self.t))
    if name == 'columns':
      return VRawCols(self)
    if name == 'geo':
      return VRawGeo(self)
    if name == 'pivot_table':
      return _VBound(self._pivot)
    ex.unsupported(node, 'raw frame attribute %s' % name)

  def py_setattr(self, ex, name, value, node):
    if name == 'geo' and isinstance(value, VRawGeo) and value.frame.t.eq(
        self.t):
      return VRaw(self.t)          # same columns, same geo values (as str)
    ex.unsupported(node, 'raw frame attribute store %s' % name)

  def _pivot(self, ex, args, kwargs, node):
    ctx = ex.ctx
    ok = (isinstance(kwargs.get('index'), VStr) and kwargs['index'].s == 'geo'
          and isinstance(kwargs.get('columns'), VStr) and
          kwargs['columns'].s == 'date' and 'values' in kwargs and not args)
    if not ok:
      ex.unsupported(node, 'pivot_table arguments')
    col = _fl.col_term(ex, kwargs['values'], node)
    labels = pl.fresh_seq(ctx, 'pivot.labels')
    ctx.assume(labels.elems == RAW_GEOS(self.t))
    return VPivot(labels, PIVOT(self.t, col))


class VRawCols(V):
  kind = 'rawcols'

  def __init__(self, frame):
    self.frame = frame

  def py_toset(self, ex, node):
    return VSet(RAW_COLS(self.frame.t), I)


class VRawGeo(V):
  kind = 'rawgeo'

  def __init__(self, frame):
    self.frame = frame

  def py_getattr(self, ex, name, node):
    if name == 'astype':
      return _VBound(lambda ex_, a, k, n: VRawGeo(self.frame))
    ex.unsupported(node, 'geo column attribute %s' % name)


class VPivot(pl.VPanel):
  """The geo x date panel straight out of pivot_table."""

  def py_getattr(self, ex, name, node):
    if name == 'mean':
      tag = self.tag
      return _VBound(lambda ex_, a, k, n: VMeans(
          self.labels, lambda g: ROWMEAN(tag, g)))
    return pl.VPanel.py_getattr(self, ex, name, node)


class VMeans(pl.VSeries):
  """Series of row means: sort_values / index / division by a scalar."""

  def _sort_values(self, ex, args, kwargs, node):
    out = pl.VSeries._sort_values(self, ex, args, kwargs, node)
    return VMeans(out.labels, out.val)

  def py_tolist(self, ex, node):
    return self.labels

  def total(self):
    return VReal(z3.Function('SUM_MEANS', I, z3.RealSort())(self.labels.sid),
                 True)


class TRaw(Shape):

  def fresh(self, ctx, name):
    return VRaw(z3.Const(ctx.sym(name), RawSort))


@_lib('pandas.DataFrame')
def _pd_dataframe(ex, args, kwargs, node):
  """pd.DataFrame({'geo': list, 'control': 1, 'treatment': 1, 'exclude': 1})."""
  from mmverif.engine.symexec import VConstDict
  d = args[0] if args else None
  if not (isinstance(d, VConstDict) and set(d.d) == {
      'geo', 'control', 'treatment', 'exclude'}):
    ex.unsupported(node, 'pd.DataFrame argument')
  geos = d.d['geo']
  for k in ('control', 'treatment', 'exclude'):
    v = d.d[k]
    if not (isinstance(v, VInt) and z3.is_int_value(v.t) and
            v.t.as_long() == 1):
      ex.unsupported(node, 'pd.DataFrame column %s' % k)
  if not isinstance(geos, VSeq) or geos.elems is None:
    ex.unsupported(node, 'pd.DataFrame geo column')
  rows = geos.elems
  return pl.VEligTable(rows, {'control': rows, 'treatment': rows,
                              'exclude': rows}, geos, False)


def _init_missing(s):
  """Some geo of the given table that cannot be excluded is not in the
  data."""
  ge0 = unwrap(s.geo_eligibility)
  tbl = unwrap(ObjView(s.ctx, ge0.val, None).data)
  need = z3.SetDifference(tbl.rows, tbl.cols['exclude'])
  return z3.And(z3.Not(ge0.none),
                z3.Not(z3.IsSubset(need, RAW_GEOS(unwrap(s.df).t))))


def _init_cols_missing(s):
  req = z3.SetAdd(z3.SetAdd(z3.SetAdd(
      z3.EmptySet(I), _fl.colcode('date')), _fl.colcode('geo')),
                  _fl.col_term(None, unwrap(s.response_column), None))
  return z3.Not(z3.IsSubset(req, RAW_COLS(unwrap(s.df).t)))


def _init_table(s):
  """The stored eligibility table is the given one restricted to the geos in
  the data (all-ones rows for every geo when none is given)."""
  ge0 = unwrap(s.geo_eligibility)
  gobj = s.self.geo_eligibility
  if isinstance(gobj, VOpt):
    gobj = ObjView(s.ctx, gobj.val, None)
  new = unwrap(gobj.data)
  geos = RAW_GEOS(unwrap(s.df).t)
  old = unwrap(ObjView(s.ctx, ge0.val, None).data)
  keep = z3.SetIntersect(old.rows, geos)
  given = z3.And(new.rows == keep, *[
      new.cols[k] == z3.SetIntersect(old.cols[k], geos)
      for k in ('control', 'treatment', 'exclude')])
  default = z3.And(new.rows == geos, *[
      new.cols[k] == geos for k in ('control', 'treatment', 'exclude')])
  return z3.If(ge0.none, default, given)


spec.contract(
    'TBRMMData.__init__',
    params={'df': TRaw(), 'response_column': TInt(),
            'geo_eligibility': TOpt(TObj('GeoEligibility'))},
    modifies=['self.*'], props=('C15', 'C01', 'C09'),
    raises_only=['ValueError'],
    ensures=[
        ('C15 the data invariant every later contract assumes: table geos '
         'are in the data, assignable = table geos that are not '
         'exclude-only, share and panel over the geos in the data',
         lambda s: data_inv(s.self)),
        ('C15 the stored eligibility table is the given one restricted to '
         'the geos in the data (all-ones rows when none is given)',
         _init_table),
        ('C15 accepted only if every geo that cannot be excluded is in the '
         'data and the required columns are present',
         lambda s: z3.And(z3.Not(_init_missing(s)),
                          z3.Not(_init_cols_missing(s)))),
        ('geos in the data are the geo values of the frame',
         lambda s: S(s.self.geos_in_data) == RAW_GEOS(unwrap(s.df).t)),
    ])

FUNCTIONS.append('TBRMMData.__init__')
