"""Sidecar contracts for matched_markets/methodology/heapdict.py (C14, C03).

The code-level contracts are ghost free and relational (the queue of a key
before / after one call).  The history statement of C14 ("for each key exactly
the k largest items pushed, as a multiset, in descending order, and reading
does not change it") is the lemma `topk_history` over these contracts: an
inductive invariant of any push sequence, proved from push's postcondition
alone (so a change of push that breaks it fails push's own postcondition).
"""
import z3

from mmverif.engine import libcontracts as lc
from mmverif.engine.specops import *  # pylint: disable=wildcard-import
from mmverif.engine.specs import LoopSpec, ModuleSpec, register
from mmverif.engine.values import *  # pylint: disable=wildcard-import

spec = register(ModuleSpec('matched_markets/methodology/heapdict.py'))

spec.cls('HeapDict', fields={'_size': TInt(), '_result': lc.TDDL(True)})

for ax in lc.lt_axioms():
  spec.axioms.append(('lt is a strict weak order', lambda ctx, ax=ax: ax))

K = KeySort
I = ItemSort


def wf(dd, h):
  """Representation invariant of a dict of list objects."""
  k, k2 = z3.Consts('k!wf k2!wf', K)
  r = z3.Int('r!wf')
  e = z3.Const('e!wf', I)
  return z3.And(
      z3.ForAll([k], z3.Implies(z3.IsMember(k, dd.dom), z3.And(
          z3.Select(dd.ref, k) >= 0, z3.Select(dd.ref, k) < h['alloc'],
          z3.Select(h['heap'], z3.Select(dd.ref, k))))),   # queues are heaps
      z3.ForAll([k, k2], z3.Implies(
          z3.And(z3.IsMember(k, dd.dom), z3.IsMember(k2, dd.dom),
                 z3.Select(dd.ref, k) == z3.Select(dd.ref, k2)), k == k2)),
      z3.ForAll([r, e], z3.Select(z3.Select(h['bag'], r), e) >= 0),
      z3.ForAll([r], z3.Select(h['len'], r) >= 0),
      h['alloc'] >= 0)


def bag_plus(b, x):
  return z3.Store(b, x, z3.Select(b, x) + 1)


def bag_of(dd, h, key):
  return z3.If(z3.IsMember(key, dd.dom),
               z3.Select(h['bag'], z3.Select(dd.ref, key)), lc.empty_bag())


def len_of(dd, h, key):
  return z3.If(z3.IsMember(key, dd.dom),
               z3.Select(h['len'], z3.Select(dd.ref, key)), z3.IntVal(0))


def push_step(b0, n0, size, x, b1, n1):
  """One push on the queue of one key, as a relation on (bag, length)."""
  m = z3.Const('m!push', I)
  e = z3.Const('e!push', I)
  bx = bag_plus(b0, x)
  return z3.And(
      z3.Implies(n0 < size, z3.And(b1 == bx, n1 == n0 + 1)),
      z3.Implies(n0 >= size, z3.And(n1 == n0, z3.Exists([m], z3.And(
          z3.Select(bx, m) >= 1,
          z3.ForAll([e], z3.Implies(z3.Select(bx, e) >= 1,
                                    z3.Not(lc.lt(e, m)))),
          b1 == z3.Store(bx, m, z3.Select(bx, m) - 1))))))


spec.contract(
    'HeapDict.__init__',
    params={'size': TInt()},
    modifies=['self.*'],
    props=('C14',),
    ensures=[
        ('size stored', lambda s: Eq(s.self._size, s.size)),
        ('no queues yet', lambda s: unwrap(s.self._result).dom ==
         z3.EmptySet(K)),
    ])


def _push_post_key(s):
  dd0, dd1 = unwrap(s.old.self._result), unwrap(s.self._result)
  h0, h1 = s.old_lheap, s.lheap
  key = unwrap(s.key).t
  x = lc.item_term(unwrap(s.item))
  return z3.And(
      z3.IsMember(key, dd1.dom),
      push_step(bag_of(dd0, h0, key), len_of(dd0, h0, key),
                N(s.old.self._size), x,
                bag_of(dd1, h1, key), len_of(dd1, h1, key)))


def _push_post_others(s):
  dd0, dd1 = unwrap(s.old.self._result), unwrap(s.self._result)
  h0, h1 = s.old_lheap, s.lheap
  key = unwrap(s.key).t
  k = z3.Const('k!o', K)
  return z3.And(
      dd1.dom == z3.SetAdd(dd0.dom, key),
      z3.ForAll([k], z3.Implies(
          z3.And(z3.IsMember(k, dd0.dom), k != key),
          z3.And(bag_of(dd1, h1, k) == bag_of(dd0, h0, k),
                 len_of(dd1, h1, k) == len_of(dd0, h0, k)))))


spec.contract(
    'HeapDict.push',
    params={'key': TOpaque('Key'), 'item': TOpaque('Item')},
    modifies=['self._result', '@lheap'],
    props=('C14', 'C03'),
    requires=[('wf', lambda s: wf(unwrap(s.self._result), s.lheap))],
    ensures=[
        ('capacity unchanged', lambda s: Eq(s.self._size, s.old.self._size)),
        ('queue of the key: item added, smallest evicted when full',
         _push_post_key),
        ('other queues untouched', _push_post_others),
        ('wf preserved', lambda s: wf(unwrap(s.self._result), s.lheap)),
    ])


def _get_result_post(s):
  dd = unwrap(s.self._result)
  res = unwrap(s.result)
  h0, h1 = s.old_lheap, s.lheap
  k = z3.Const('k!g', K)
  return z3.And(
      res.dom == dd.dom,
      z3.ForAll([k], z3.Implies(z3.IsMember(k, dd.dom), z3.And(
          z3.Select(res.ref, k) >= h0['alloc'],          # a new list object
          z3.Select(h1['bag'], z3.Select(res.ref, k)) ==
          z3.Select(h0['bag'], z3.Select(dd.ref, k)),    # same multiset
          z3.Select(h1['len'], z3.Select(res.ref, k)) ==
          z3.Select(h0['len'], z3.Select(dd.ref, k)),
          z3.Select(h1['desc'], z3.Select(res.ref, k))))))   # descending


def _lists_unchanged(s):
  h0, h1 = s.old_lheap, s.lheap
  r = z3.Int('r!u')
  return z3.ForAll([r], z3.Implies(
      z3.And(r >= 0, r < h0['alloc']),
      z3.And(z3.Select(h1['bag'], r) == z3.Select(h0['bag'], r),
             z3.Select(h1['len'], r) == z3.Select(h0['len'], r),
             z3.Implies(z3.Select(h0['heap'], r), z3.Select(h1['heap'], r)))))


def _get_result_inv(s):
  dd = unwrap(s.self._result)
  res = unwrap(s.result)
  h0, h1 = s.old_lheap, s.lheap
  vis = S(s.visited)
  k = z3.Const('k!i', K)
  return z3.And(
      res.dom == vis,
      h1['alloc'] >= h0['alloc'],
      z3.ForAll([k], z3.Implies(z3.IsMember(k, vis), z3.And(
          z3.Select(res.ref, k) >= h0['alloc'],
          z3.Select(res.ref, k) < h1['alloc'],
          z3.Select(h1['bag'], z3.Select(res.ref, k)) ==
          z3.Select(h0['bag'], z3.Select(dd.ref, k)),
          z3.Select(h1['len'], z3.Select(res.ref, k)) ==
          z3.Select(h0['len'], z3.Select(dd.ref, k)),
          z3.Select(h1['desc'], z3.Select(res.ref, k))))))


spec.contract(
    'HeapDict.get_result',
    params={},
    result=lc.TDDL(False),
    modifies=['@lheap'],      # new list objects are allocated; old ones kept
    props=('C14', 'C03', 'C10'),
    locals_shapes={'result': lc.TDDL(False)},
    requires=[('wf', lambda s: wf(unwrap(s.self._result), s.lheap))],
    ensures=[
        ('a new descending list with the same multiset for every key',
         _get_result_post),
        ('reading changes no stored queue (multiset, length, heap order)',
         _lists_unchanged),
    ],
    loops=[LoopSpec(('key, q', 'self._result.items()'),
                    invariants=[('copied so far', _get_result_inv),
                                ('stored lists unchanged', _lists_unchanged)],
                    modifies=['result', '@lheap', 'q', 'key'])])


# ---------------------------------------------------------------------------
# History lemma (code independent): top-k invariant of any push sequence.


def topk_inv(P, npush, Bq, n, size):
  """Bq (stored) within P (everything pushed): the top-min(size,npush)."""
  r, d, e = z3.Consts('r!t d!t e!t', I)
  return z3.And(
      z3.ForAll([e], z3.And(z3.Select(Bq, e) >= 0,
                            z3.Select(Bq, e) <= z3.Select(P, e))),
      n == z3.If(size <= 0, 0, z3.If(npush <= size, npush, size)),
      n >= 0, npush >= 0,
      z3.Implies(npush <= size, Bq == P),
      z3.ForAll([r, d], z3.Implies(
          z3.And(z3.Select(Bq, r) >= 1,
                 z3.Select(P, d) - z3.Select(Bq, d) >= 1),
          z3.Not(lc.lt(r, d)))))


def lemma_topk_step(ctx):
  P, Bq, B1 = z3.Consts('P Bq B1', lc.BagSort)
  npush, n, n1, size = z3.Ints('npush n n1 size')
  x = z3.Const('x', I)
  hyps = list(lc.lt_axioms()) + [
      topk_inv(P, npush, Bq, n, size),
      push_step(Bq, n, size, x, B1, n1)]
  goal = topk_inv(bag_plus(P, x), npush + 1, B1, n1, size)
  return hyps, goal


def lemma_topk_init(ctx):
  size = z3.Int('size')
  return [], topk_inv(lc.empty_bag(), z3.IntVal(0), lc.empty_bag(),
                      z3.IntVal(0), size)


LEMMAS = [
    ('C14 history: top-k invariant holds for the empty queue', lemma_topk_init,
     ('C14', 'C03')),
    ('C14 history: one push preserves the top-k invariant', lemma_topk_step,
     ('C14', 'C03')),
]

FUNCTIONS = ['HeapDict.__init__', 'HeapDict.push', 'HeapDict.get_result']
