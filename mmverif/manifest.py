"""Regenerate /verif/MANIFEST.json from the property modules that exist."""
import importlib
import json
import os

from mmverif import common

NOT_APPLICABLE = {
    'C12': ('two-run hyperproperty (invariance under row shuffles, date shifts, '
            'ID renaming, scaling) whose truth rests on pandas pivot/sort '
            'tie-breaking and bit-exact IEEE scaling inside pandas/NumPy; no '
            'pre/postcondition on one call of a repository function expresses '
            'it and the libraries are outside the verifier (DESIGN.md C12)'),
}
NOT_YET = ('not claimed yet: contracts for this property are still being '
           'built (see DESIGN.md section 7)')

ALL = ['C%02d' % i for i in range(1, 21)]


def main():
  checks = []
  na = []
  for pid in ALL:
    from mmverif.props import registry
    if pid in NOT_APPLICABLE:
      na.append({'property_id': pid, 'reason': NOT_APPLICABLE[pid]})
      continue
    try:
      mod = registry.get(pid)
    except KeyError:
      na.append({'property_id': pid, 'reason': NOT_YET})
      continue
    m = mod.MANIFEST
    checks.append({
        'property_id': pid,
        'quick_cmd': './check.sh %s quick' % pid,
        'thorough_cmd': './check.sh %s thorough' % pid,
        'evidence_file': 'evidence/%s.json' % pid,
        'replay_cmd_template': './check.sh --replay {path}',
        'engine': 'pyvc',
        'level_claimed': {'category': m['category'], 'text': m['text'],
                          'design_ref': m['design_ref']},
        'level_note': m['level_note'],
        'technique': m['technique'],
    })
  manifest = {
      'version': 1,
      'setup_cmd': './setup.sh',
      'hooks': {
          'guard': 'MATCHED_MARKETS_VERIF',
          'enable': ('no hooks: contracts are sidecars under /verif and '
                     'run-time contracts wrap the real functions from '
                     'outside; the variable is reserved and unused'),
          'baseline_off_cmd': ('cd /repo && /venv/bin/python -m pytest -ra -q '
                               '-p no:cacheprovider --timeout=900 '
                               '--continue-on-collection-errors'),
          'source_commits': [],
          'add_only': True,
      },
      'engines': [{
          'name': 'pyvc',
          'path': 'mmverif/engine',
          'serves_properties': [c['property_id'] for c in checks],
          'kind_free_text': ('AST -> verification conditions (forward symbolic '
                             'execution with sidecar contracts, loop '
                             'invariants, frames) -> z3 / cvc5; run-time '
                             'contract monitors as bounded stand-in'),
      }, {
          'name': 'lean4-mathlib',
          'path': 'mmverif/lean',
          'serves_properties': ['C09'],
          'kind_free_text': ('Lean 4 + Mathlib proof of the finite-set '
                             'ranking lemma whose two instances the greedy '
                             'termination obligation assumes; re-checked by '
                             '`lake env lean` on every C09 run'),
      }],
      'checks': checks,
      'not_applicable': na,
      'notes': ('Exit codes of every check: 0 held, 1 VIOLATION, 2 UNDECIDED '
                '(solver unknown on both back ends), 3 checker error. '
                'MMVERIF_REPO=<dir> points the checks at another source tree '
                '(used by the self-tests only: seeded changes, mutants, '
                'reverted fixes). ./check.sh --replay <file> replays a reported '
                'violation on the current tree.'),
  }
  with open(os.path.join(common.VERIF, 'MANIFEST.json'), 'w') as f:
    json.dump(manifest, f, indent=1)
  print('MANIFEST.json: %d checks, %d not applicable' % (len(checks), len(na)))


if __name__ == '__main__':
  main()
