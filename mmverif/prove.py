"""Run the deductive part: generate obligations from the real source and
discharge them.

Obligations of a function are cached on disk keyed by the SHA-256 of the
function's source module in the tree under test, of every engine / sidecar
file, and the qualified name - so a cache entry can never outlive a change of
the code or of the contracts (the check always reflects the current tree).
Only `discharged` verdicts are cached; anything else is re-decided on each run.
"""
import hashlib
import importlib
import os
import pickle
import time

from mmverif import common
from mmverif.engine import backend
from mmverif.engine import driver
from mmverif.engine import lib as _lib            # registers builtins
from mmverif.engine import libcontracts as _lc    # registers trusted ledger
from mmverif.engine import specs as specmod
from mmverif.engine.values import EngineError

SIDECARS = {
    'heapdict': 'mmverif.contracts.heapdict_spec',
    'geoeligibility': 'mmverif.contracts.geoeligibility_spec',
    'tbrmmdata': 'mmverif.contracts.tbrmmdata_spec',
    'tbrmatchedmarkets': 'mmverif.contracts.tbrmatchedmarkets_spec',
    'tbrmmdesignparameters': 'mmverif.contracts.tbrmmdesignparameters_spec',
    'tbrmmdiagnostics': 'mmverif.contracts.clients_spec',
    'utils': 'mmverif.contracts.utils_spec',
    'common_classes': 'mmverif.contracts.utils_spec',
    'tbrmmscore': 'mmverif.contracts.clients_spec',
    'tbrmmdesign': 'mmverif.contracts.clients_spec',
    'tbrdiagnostics': 'mmverif.contracts.tbrdiag_spec',
    'tbr_iroas': 'mmverif.contracts.tbrdiag_spec',
    'tbr': 'mmverif.contracts.tbr_spec',
}

INCLUDE_FOREIGN = os.environ.get('MMVERIF_OWN_TAGS_ONLY', '') == ''
CACHE_DIR = os.path.join(common.VERIF, '.cache', 'obl')
USE_CACHE = os.environ.get('MMVERIF_NOCACHE', '') == ''


# Hub functions: every search property (C01-C04, C09-C11, C13, C15) rests on
# their contracts, so a change that breaks one of their (untagged-by-clause)
# obligations is reported by the check of each of these properties - the
# caller-side proofs only see the callee's contract, never its body.
CHAIN_PROPS = ('C01', 'C02', 'C03', 'C04', 'C09', 'C10', 'C11', 'C13', 'C15')
HUBS = {
    'geoeligibility': ['GeoAssignments.__init__', 'GeoEligibility.__init__',
                       'GeoEligibility.get_eligible_assignments'],
    'tbrmmdata': ['TBRMMData.__init__', 'TBRMMData.geo_index.setter',
                  'TBRMMData.aggregate_time_series',
                  'TBRMMData.aggregate_geo_share'],
    'tbrmatchedmarkets': ['TBRMatchedMarkets.__init__',
                          'TBRMatchedMarkets.geos_over_budget',
                          'TBRMatchedMarkets.geos_too_large',
                          'TBRMatchedMarkets.geos_must_include',
                          'TBRMatchedMarkets.geos_within_constraints',
                          'TBRMatchedMarkets.geo_assignments'],
}
_RETAGGED = set()


def _retag_hubs(modname):
  from mmverif.engine import specs
  if modname in _RETAGGED or modname not in HUBS:
    return
  _RETAGGED.add(modname)
  sp = specs.REGISTRY.get(modname)
  if sp is None:
    return
  for q in HUBS[modname]:
    c = sp.contracts.get(q)
    if c is None:
      continue
    old = tuple(c.props)
    new = tuple(dict.fromkeys(old + CHAIN_PROPS))
    groups = [c.requires, c.ensures, list(c.raises.values()), c.yields,
              getattr(c, 'gen_post', []) or [], getattr(c, 'on_raise', []) or []]
    for g in groups:
      for cl in g:
        if tuple(cl.props) == old:      # clause without tags of its own
          cl.props = new
    for lp in (c.loops or []):
      for cl in lp.invariants:
        if tuple(cl.props) == old:
          cl.props = new
    c.props = new


def load_sidecar(modname):
  m = importlib.import_module(SIDECARS[modname])
  if hasattr(m, '_load_second_part'):
    m._load_second_part()
  _retag_hubs(modname)
  return m


_TOOL_HASH = [None]


def tool_hash():
  if _TOOL_HASH[0] is None:
    h = hashlib.sha256()
    base = os.path.join(common.VERIF, 'mmverif')
    for sub in ('engine', 'contracts'):
      d = os.path.join(base, sub)
      for fn in sorted(os.listdir(d)):
        if fn.endswith('.py'):
          with open(os.path.join(d, fn), 'rb') as f:
            h.update(fn.encode())
            h.update(f.read())
    _TOOL_HASH[0] = h.hexdigest()
  return _TOOL_HASH[0]


class UnitRecord:
  """Picklable summary of one verified function / lemma."""

  def __init__(self, unit):
    self.qualname = unit.contract.qualname
    self.modname = unit.modname
    self.paths = unit.paths
    self.vacuous = bool(getattr(unit, 'vacuous', False))
    self.gen_time = unit.gen_time
    self.sha256 = unit.sha256
    self.obligations = list(unit.obligations)
    self.cached = False

  # compatibility with the report code
  @property
  def contract(self):
    class _C:
      pass
    c = _C()
    c.qualname = self.qualname
    return c


CACHE_LIMIT_BYTES = int(os.environ.get('MMVERIF_CACHE_LIMIT_MB', '1500')) << 20


def prune_cache():
  """Keeps .cache/obl under the size limit by deleting the least recently
  used entries (obligation pickles of sources that no longer exist pile up
  when many changed trees are checked)."""
  try:
    ents = []
    for fn in os.listdir(CACHE_DIR):
      p = os.path.join(CACHE_DIR, fn)
      st = os.stat(p)
      ents.append((st.st_atime, st.st_size, p))
  except OSError:
    return
  total = sum(e[1] for e in ents)
  if total <= CACHE_LIMIT_BYTES:
    return
  for _, size, p in sorted(ents):
    try:
      os.remove(p)
    except OSError:
      pass
    total -= size
    if total <= CACHE_LIMIT_BYTES * 2 // 3:
      break


def _cache_path(modname, qualname, src_sha):
  key = hashlib.sha256(('%s|%s|%s|%s' % (modname, qualname, src_sha,
                                         tool_hash())).encode()).hexdigest()
  return os.path.join(CACHE_DIR, key + '.pkl')


def verify_cached(modname, qualname):
  from mmverif.engine.symexec import WORLD
  src = WORLD.source(modname)
  path = _cache_path(modname, qualname, src.sha256)
  if USE_CACHE and os.path.exists(path):
    try:
      with open(path, 'rb') as f:
        rec = pickle.load(f)
      os.utime(path)
      rec.cached = True
      return rec
    except Exception:  # pylint: disable=broad-except
      pass
  rec = UnitRecord(driver.verify_function(modname, qualname))
  if USE_CACHE:
    os.makedirs(CACHE_DIR, exist_ok=True)
    tmp = path + '.%d' % os.getpid()
    with open(tmp, 'wb') as f:
      pickle.dump(rec, f)
    os.replace(tmp, path)
  return rec


class ProofResult:

  def __init__(self):
    self.units = []
    self.obligations = []     # (Obligation, verdict dict)
    self.errors = []
    self.gen_time = 0.0
    self.solve_time = 0.0

  def by_verdict(self, v):
    return [o for o, r in self.obligations if r['verdict'] == v]


def _verdict_cache_path(smt2, timeout_ms):
  key = hashlib.sha256(smt2.encode()).hexdigest()
  return os.path.join(common.VERIF, '.cache', 'verdict', key[:2], key)


def prove(targets, props=None, timeout_ms=10000, use_cvc5='fallback'):
  """targets: list of (modname, [qualnames] or None for all, with_lemmas).

  props: if given, only obligations tagged with one of these properties (or
  untagged) are discharged/reported.
  """
  res = ProofResult()
  t0 = time.time()
  done = set()
  if USE_CACHE:
    prune_cache()
  for modname, quals, with_lemmas in targets:
    side = load_sidecar(modname)
    if quals is None:
      quals = {'tbrmmscore': getattr(side, 'SCORE_FUNCTIONS', None),
               'tbrmmdesign': getattr(side, 'DESIGN_FUNCTIONS', None),
               'common_classes': getattr(side, 'CC_FUNCTIONS', None),
               'tbr_iroas': getattr(side, 'IROAS_FUNCTIONS', None)}.get(
                   modname) or side.FUNCTIONS
    for q in quals:
      if (modname, q) in done:
        continue          # listed by two target entries
      done.add((modname, q))
      try:
        res.units.append(verify_cached(modname, q))
      except EngineError as e:
        res.errors.append('%s.%s: %s' % (modname, q, e))
      except Exception as e:  # pylint: disable=broad-except
        # a sidecar clause that no longer fits the (changed) source: an
        # engine error for this function, never a reason to skip the rest of
        # the check (the bounded part still runs)
        res.errors.append('%s.%s: %s: %s' % (modname, q, type(e).__name__,
                                             str(e)[:300]))
    if with_lemmas:
      for label, fn, lprops in getattr(side, 'LEMMAS', []):
        try:
          res.units.append(UnitRecord(driver.verify_lemma(modname, label, fn,
                                                          lprops)))
        except EngineError as e:
          res.errors.append('%s lemma %s: %s' % (modname, label, e))
  res.gen_time = time.time() - t0
  selected = []
  for u in res.units:
    for o in u.obligations:
      # obligations tagged for other properties only are solved as well: the
      # engine ASSUMES an obligation after emitting it, so the obligations of
      # this property later on the same path were proved under it.  They are
      # reported (by props/base.py) only when they are not discharged.
      o.foreign = bool(props is not None and o.props and
                       not (set(o.props) & set(props)))
      if o.foreign and not INCLUDE_FOREIGN:
        continue
      selected.append((u, o))
  t1 = time.time()
  seen = {}
  jobs = []
  cached = {}
  for u, o in selected:
    n = seen.get(o.name, 0)
    seen[o.name] = n + 1
    if n:
      o.name = '%s#%d' % (o.name, n)
    if o.trivial:
      continue
    vp = _verdict_cache_path(o.smt2, timeout_ms)
    if USE_CACHE and os.path.exists(vp):
      try:
        with open(vp, 'rb') as f:
          cached[o.name] = pickle.load(f)
        continue
      except Exception:  # pylint: disable=broad-except
        pass
    jobs.append((o.name, o.smt2))
  out = backend.discharge(jobs, timeout_ms=timeout_ms, use_cvc5=use_cvc5)
  res.solve_time = time.time() - t1
  smt_of = {o.name: o.smt2 for u, o in selected if not o.trivial}
  for name, r in out.items():
    if USE_CACHE and r['verdict'] == 'discharged':
      vp = _verdict_cache_path(smt_of[name], timeout_ms)
      os.makedirs(os.path.dirname(vp), exist_ok=True)
      with open(vp + '.%d' % os.getpid(), 'wb') as f:
        pickle.dump(r, f)
      os.replace(vp + '.%d' % os.getpid(), vp)
  for u, o in selected:
    if o.trivial:
      res.obligations.append((o, {'verdict': 'discharged', 'runs': [
          {'backend': 'z3-simplify', 'result': 'unsat', 'time': 0.0}]}))
    elif o.name in cached:
      r = dict(cached[o.name])
      r['from_cache'] = True
      res.obligations.append((o, r))
    else:
      res.obligations.append((o, out[o.name]))
  return res


if __name__ == '__main__':
  import sys
  mod = sys.argv[1]
  quals = sys.argv[2:] or None
  r = prove([(mod, quals, True)])
  for e in r.errors:
    print('ERROR', e)
  for u in r.units:
    print('unit', u.qualname, 'paths', u.paths, 'obligations',
          len(u.obligations), 'vacuous' if u.vacuous else '',
          '%.2fs' % u.gen_time, '(cached)' if u.cached else '')
  for o, v in r.obligations:
    runs = ' '.join('%s:%s:%.2fs' % (x['backend'], x['result'], x['time'])
                    for x in v['runs'])
    print('%-11s %s  [%s] %s' % (v['verdict'], o.name, ','.join(o.props),
                                 runs))
    if v['verdict'] == 'failed':
      print('    ', o.text[:300])
      print('    model:', {k: v_ for k, v_ in list(
          v['runs'][0].get('model', {}).items())[:12]})
