"""Run the deductive part: generate obligations from the real source and
discharge them."""
import importlib
import time

from mmverif.engine import backend
from mmverif.engine import driver
from mmverif.engine import lib as _lib            # registers builtins
from mmverif.engine import libcontracts as _lc    # registers trusted ledger
from mmverif.engine import specs as specmod
from mmverif.engine.values import EngineError

SIDECARS = {
    'heapdict': 'mmverif.contracts.heapdict_spec',
    'geoeligibility': 'mmverif.contracts.geoeligibility_spec',
    'tbrmmdata': 'mmverif.contracts.tbrmmdata_spec',
    'tbrmatchedmarkets': 'mmverif.contracts.tbrmatchedmarkets_spec',
}


def load_sidecar(modname):
  m = importlib.import_module(SIDECARS[modname])
  if hasattr(m, '_load_second_part'):
    m._load_second_part()
  return m


class ProofResult:

  def __init__(self):
    self.units = []
    self.obligations = []     # (Obligation, verdict dict)
    self.errors = []
    self.gen_time = 0.0
    self.solve_time = 0.0

  def by_verdict(self, v):
    return [o for o, r in self.obligations if r['verdict'] == v]


def prove(targets, props=None, timeout_ms=10000, use_cvc5='fallback'):
  """targets: list of (modname, [qualnames] or None for all, with_lemmas).

  props: if given, only obligations tagged with one of these properties (or
  untagged) are discharged/reported.
  """
  res = ProofResult()
  t0 = time.time()
  for modname, quals, with_lemmas in targets:
    side = load_sidecar(modname)
    quals = quals or side.FUNCTIONS
    for q in quals:
      try:
        res.units.append(driver.verify_function(modname, q))
      except EngineError as e:
        res.errors.append('%s.%s: %s' % (modname, q, e))
    if with_lemmas:
      for label, fn, lprops in getattr(side, 'LEMMAS', []):
        try:
          res.units.append(driver.verify_lemma(modname, label, fn, lprops))
        except EngineError as e:
          res.errors.append('%s lemma %s: %s' % (modname, label, e))
  res.gen_time = time.time() - t0
  jobs = []
  selected = []
  for u in res.units:
    for o in u.obligations:
      if props is not None and o.props and not (set(o.props) & set(props)):
        continue
      selected.append(o)
      if not o.trivial:
        jobs.append((o.name, o.smt2))
  t1 = time.time()
  # names are unique per unit; make them globally unique
  seen = {}
  jobs2 = []
  for o in selected:
    n = seen.get(o.name, 0)
    seen[o.name] = n + 1
    if n:
      o.name = '%s#%d' % (o.name, n)
    if not o.trivial:
      jobs2.append((o.name, o.smt2))
  out = backend.discharge(jobs2, timeout_ms=timeout_ms, use_cvc5=use_cvc5)
  res.solve_time = time.time() - t1
  for o in selected:
    if o.trivial:
      res.obligations.append((o, {'verdict': 'discharged', 'runs': [
          {'backend': 'z3-simplify', 'result': 'unsat', 'time': 0.0}]}))
    else:
      res.obligations.append((o, out[o.name]))
  return res


if __name__ == '__main__':
  import sys
  mod = sys.argv[1]
  quals = sys.argv[2:] or None
  r = prove([(mod, quals, True)])
  for e in r.errors:
    print('ERROR', e)
  for u in r.units:
    print('unit', u.contract.qualname, 'paths', u.paths, 'obligations',
          len(u.obligations), 'vacuous' if u.vacuous else '',
          '%.2fs' % u.gen_time)
  for o, v in r.obligations:
    runs = ' '.join('%s:%s:%.2fs' % (x['backend'], x['result'], x['time'])
                    for x in v['runs'])
    print('%-11s %s  [%s] %s' % (v['verdict'], o.name, ','.join(o.props),
                                 runs))
    if v['verdict'] == 'failed':
      print('    ', o.text[:300])
      print('    model:', {k: v_ for k, v_ in list(
          v['runs'][0].get('model', {}).items())[:12]})
