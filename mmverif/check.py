"""python -m mmverif.check <ID> [--tier quick|thorough]

Decides one property on /repo's current working tree ($MMVERIF_REPO overrides):
 1. deductive part: obligations generated from the real source by pyvc and
    discharged by z3 / cvc5;
 2. bounded part: run-time contracts on the real functions over an enumerated
    domain (stand-in for functions outside the engine's reach, replay of failed
    obligations, and cross-check of the engine).
Exit 0 held / 1 VIOLATION / 2 UNDECIDED / 3 checker error.
"""
import argparse
import importlib
import os
import sys
import time
import traceback

from mmverif import common


def main(argv=None):
  ap = argparse.ArgumentParser()
  ap.add_argument('pid')
  ap.add_argument('--tier', default=os.environ.get('VERIF_TIER', 'quick'),
                  choices=['quick', 'thorough'])
  args = ap.parse_args(argv)
  pid = args.pid.upper()
  seed = int(os.environ.get('VERIF_SEED', '0') or 0)
  sys.path.insert(0, common.REPO)
  t0 = time.time()
  try:
    from mmverif.props import base
    from mmverif.props import registry
    mod = registry.get(pid)
    rep = base.run_property(mod, args.tier, seed)
  except Exception:  # pylint: disable=broad-except
    traceback.print_exc()
    print('CHECKER-ERROR property=%s (see traceback)' % pid)
    return common.EXIT_ERROR
  rep.wall_s = time.time() - t0
  return rep.finish()


if __name__ == '__main__':
  sys.exit(main())
