"""Property definitions: proof targets, monitor, manifest text."""
import importlib

CLS = 'TBRMatchedMarkets.'
TECH = ('contract-based deductive verification: VCs generated from the Python '
        'AST of the real functions (own symbolic executor pyvc) + sidecar '
        'contracts, discharged by z3/cvc5; run-time contracts on the real '
        'functions as bounded stand-in / replay')
ENGINE_TRUST = [
    'pyvc symbolic executor and its encodings (engine soundness; guarded by '
    'vacuity checks, mutant self-test and the run-time cross-check)',
    'z3 5.1 (python API) / cvc5 1.0.3',
    'Python ints are mathematical; floats are reals outside C17 (no rounding, '
    'no NaN/inf); objects do not alias unless the code makes them alias',
    'geo IDs (strings) are modelled as integer codes; the only operations on '
    'IDs in contract-covered code are membership, equality and formatting',
]
PANDAS_TRUST = [
    'pandas/NumPy table-algebra ledger (engine/pandas_ledger.py): .loc[list], '
    'index[mask], reset_index, sort_values, fancy-index sum',
]
MM_FUNCS = [CLS + f for f in (
    '__init__', 'geos_over_budget', 'geos_too_large', 'geos_must_include',
    'geos_within_constraints', 'geo_assignments',
    'treatment_group_size_range', '_control_group_size_generator',
    'treatment_group_generator', 'control_group_generator',
    '_constraint_not_satisfied', 'design_within_constraints',
    'exhaustive_search.skip_if_subset', 'exhaustive_search',
    'greedy_search', 'search_results')]


class PropertyDef:

  def __init__(self, pid, level, targets, trusted, assumptions, text,
               design_ref, level_note, monitor=True, ignored_regions=(),
               lean=()):
    self.ID = pid
    self.LEAN = tuple(lean)
    self.LEVEL = level
    self._targets = targets
    self.TRUSTED = trusted
    self.ASSUMPTIONS = assumptions
    self.IGNORED_REGIONS = tuple(ignored_regions)
    self.MANIFEST = {
        'category': level, 'text': text, 'design_ref': design_ref,
        'level_note': level_note, 'technique': TECH}
    self._monitor = monitor

  def proof_targets(self, tier):
    return list(self._targets)

  def monitor(self, tier, seed):
    if not self._monitor:
      return None
    m = importlib.import_module('mmverif.monitors.' + self.ID.lower())
    return m.run(tier, seed)

  def replay(self, ob, model):
    """Concrete failing input for a failed obligation: ask the bounded
    run-time contract (cached per process)."""
    if not self._monitor:
      return None
    if not hasattr(self, '_replay_cache'):
      self._replay_cache = self.monitor('quick', 0)
    vs = [v for v in self._replay_cache.violations
          if v.get('region') is None]
    return vs[0] if vs else None


def mm(funcs):
  return ('tbrmatchedmarkets', [f if f.startswith(CLS) else CLS + f
                                for f in funcs], False)


# functions every search property rests on (see prove.HUBS): their
# obligations carry the tags of all these properties
HUB_TARGETS = [('geoeligibility', None, False), ('tbrmmdata', None, False),
               mm(['__init__', 'geos_over_budget', 'geos_too_large',
                   'geos_must_include', 'geos_within_constraints',
                   'geo_assignments'])]

DEFS = {}


def define(*a, **k):
  d = PropertyDef(*a, **k)
  DEFS[d.ID] = d
  return d


define(
    'C01', 'proof',
    [('geoeligibility', None, False), ('tbrmmdata', None, False),
     mm(['__init__', 'geos_over_budget', 'geos_too_large',
         'geos_must_include', 'geos_within_constraints', 'geo_assignments',
         'treatment_group_generator', 'control_group_generator',
         'exhaustive_search', 'greedy_search', 'search_results'])],
    ENGINE_TRUST + PANDAS_TRUST + [
        'object invariants are established by the constructors '
        '(GeoEligibility.__init__, TBRMMData.__init__, '
        'TBRMatchedMarkets.__init__: proved over the pandas ledger) and '
        'assumed on entry to every other method',
    ],
    ['designs are stated at index level at the push site; legality of the '
     'admitted set is proved at ID level'],
    'Discharged for all inputs: legality of every design pushed by the '
    'exhaustive and by the greedy search (non-empty, disjoint, treatment '
    'within t, control contains c_fixed and unassigned ct geos, within c minus '
    'T; greedy via the while-loop invariant), of the admitted geo set (subset '
    'of assignable; must-include geos admitted unless n_geos_max truncates: '
    'KNOWN FINDING, the clause without that proviso is the one obligation '
    'that is not discharged), of the index classes (partition, row encoding), '
    'and the mapping of stored index groups to geo IDs in search_results.  '
    'The ID-level result lists are also checked by the bounded run-time '
    'contract.',
    'DESIGN.md section 7, C01',
    'Proof of the property outside the recorded known finding (n_geos_max '
    'truncation), modulo the pandas ledger and engine soundness; the bounded '
    'part (panels <= 6 geos x eligibility multisets x parameter grid) is not '
    'counted as proved.')

define(
    'C02', 'proof',
    HUB_TARGETS + [
        mm(['treatment_group_size_range', '_control_group_size_generator',
            'control_group_generator', '_constraint_not_satisfied',
            'design_within_constraints', 'exhaustive_search',
            'greedy_search'])],
    ENGINE_TRUST + PANDAS_TRUST + [
        'required impact / share are uninterpreted functions of the group '
        'series (their numerics belong to C04-C06)'],
    ['floats as reals; the treatment-share reading of the exhaustive search is '
     'the share against all geos in the data, design_within_constraints uses '
     'the share against the admitted geos'],
    'All six constraint families are proved at the exhaustive push site '
    '(inclusive size bounds and geo ratio from the exact size generators, '
    'share, volume ratio and budget from the path conditions), sizes / geo '
    'ratio / volume ratio / share / budget at the greedy push site (final '
    'filter), and design_within_constraints is characterised exactly; no '
    'design is skipped by the exhaustive search for a volume ratio or budget '
    'that is within the inclusive bounds.  Both share readings on real runs: '
    'bounded run-time contract.',
    'DESIGN.md section 7, C02',
    'Proof part modulo ledger/engine; bounded part not counted as proved.')

define(
    'C03', 'exploration',
    HUB_TARGETS + [('heapdict', None, True), ('tbrmmscore', None, False),
     ('tbrmmdesign', None, False),
     mm(['exhaustive_search.skip_if_subset', 'treatment_group_size_range',
         '_control_group_size_generator', 'treatment_group_generator',
         'control_group_generator', 'exhaustive_search'])],
    ENGINE_TRUST + ['itertools.combinations(S, r) produces every r-subset of '
                    'S exactly once'],
    ['the composition (every legal design is visited by the nested loops, '
     'every visited design that is not skipped is pushed, the heap keeps the '
     'top k of the pushed ones => nothing feasible and not exempt is missing) '
     'is argued in DESIGN.md from the proved pieces but not itself discharged '
     'as one obligation: bounded brute-force comparison stands in'],
    'Proved: top-k of pushed designs (HeapDict contracts + history lemma), '
    'designs ordered by the lexicographic score, the pattern-skip closure, '
    'and exactness of the enumeration primitives (the size range, the control '
    'size generator and both group generators yield exactly the admissible '
    'sizes / legal groups), and every `continue` of exhaustive_search is '
    'justified by a documented filter (treatment share outside range, '
    'superset of a recorded over-budget group, optimistic budget outside '
    'range; volume ratio / required budget outside the inclusive bounds), '
    'every element that is not skipped is expanded / pushed and no loop is '
    'left early (flow obligations).  '
    'Completeness and best-first of the whole '
    'exhaustive search against a brute-force oracle is a bounded run-time '
    'contract (<= 5-6 geos).',
    'DESIGN.md section 7, C03',
    'Bounded: panels <= 5 geos (quick) / 6 (thorough); not counted as proved.')

define(
    'C04', 'proof',
    HUB_TARGETS + [
        ('tbrmmscore', None, False), ('tbrmmdesign', None, False),
        mm(['exhaustive_search', 'greedy_search', 'search_results'])],
    ENGINE_TRUST + PANDAS_TRUST + [
        'copy.deepcopy returns a fresh, disjoint, field-wise equal object '
        'graph',
        'the contracts of TBRMMDiagnostics used here are the ones discharged '
        'under C08 (same sidecar)'],
    ['the link between the stored series and the raw input frame (pivot, '
     'truncation to n_pretest_max) is checked by the bounded monitor'],
    'At the exhaustive and at the greedy push site: stored groups, both stored diagnostics '
    'copies hold the aggregates of exactly those groups, the stored score is '
    'the score of those series (last entry max budget / required impact when '
    'a budget range is given), and the stored object graph consists of fresh '
    'copies never written again (ownership obligations: no write to frozen '
    'objects, no loop-carried alias).',
    'DESIGN.md section 7, C04',
    'Proof part modulo ledger/engine/deepcopy contract; the raw-frame '
    'correspondence (pivot, truncation) is bounded.')

define(
    'C09', 'proof',
    [('geoeligibility', None, False), ('tbrmmdata', None, False),
     ('tbrmmdiagnostics', None, False), ('tbrmmscore', None, False),
     ('tbrmmdesign', None, False), mm(MM_FUNCS)],
    ENGINE_TRUST + PANDAS_TRUST + [
        'library calls do not raise and terminate when their ledger '
        'preconditions hold',
        'termination of the greedy while loop uses two instances of the '
        'finite-set ranking lemma (rank = number of candidate control groups '
        'scoring strictly lower; bounded and strictly monotone along the '
        'score order), proved in mmverif/lean/Rank.lean; its application '
        'treats score entries as reals (no NaN)'],
    ['C09 precondition: analysis window >= n_test + 3 dates, correlations '
     'strictly inside (-1, 1)'],
    'Every partial operation (division, pop, subscripts, dict keys, '
    'int(None), unpacking, .loc labels, fancy indices) in the contract-covered '
    'functions of both search paths generates a safety obligation, and every '
    'raise site is checked against the declared exception set (ValueError '
    'only); all are discharged.  Termination: every for-loop runs over a '
    'finite sequence/set/range; the greedy while loop has the lexicographic '
    'variant (treatment sizes left, matching pending, RANK_MAX - rank of the '
    'current control group\'s score), whose decrease is an obligation on '
    'every back edge.  Degenerate inputs are also run by the bounded monitor '
    '(with a per-search time limit, so a non-terminating search is reported, '
    'not waited for).',
    'DESIGN.md section 7, C09',
    'Proof modulo ledger/engine and floats-as-reals.', lean=('Rank.lean',))

define(
    'C10', 'proof',
    HUB_TARGETS + [('heapdict', ['HeapDict.get_result'], False),
                   mm(MM_FUNCS)],
    ENGINE_TRUST + PANDAS_TRUST + [
        'determinism: a function that reads only unmodified state and calls '
        'only deterministic library functions returns the same value again '
        '(memoised contracts)'],
    [],
    'Frame obligations of every contract-covered method: only the four '
    'geo-index fields of the data object and _search_results are written; '
    'the parameter object and the eligibility/impact/share tables are outside '
    'every frame, so repeated queries return the memoised value; after '
    'either search the stored result heap is the one created by that call '
    '(no design of an earlier search survives, also when nothing is pushed); '
    'the lru_cache helpers of the diagnostics read only their arguments.  Call '
    'sequences over the whole API (incl. greedy_search, search_results) are '
    'checked by the bounded monitor.',
    'DESIGN.md section 7, C10',
    'Proof part modulo ledger/engine/determinism assumption; sequences '
    'bounded (length <= 6).')

define(
    'C11', 'exploration',
    HUB_TARGETS + [
        mm(['treatment_group_size_range', '_control_group_size_generator',
            'treatment_group_generator', 'control_group_generator',
            'count_max_designs'])],
    ENGINE_TRUST + ['scipy.special.comb(n, k, exact=True) is the binomial '
                    'coefficient (uninterpreted BINOM)',
                    'itertools.combinations(S, r) produces every r-subset of '
                    'S exactly once'],
    ['the combinatorial identity |D| = SUM (class-composition count + '
     'Vandermonde) is pure mathematics outside the SMT solver: checked by the '
     'bounded enumeration of the monitor'],
    'Proved for all inputs: count_max_designs returns the five-fold sum of '
    'binomial products restricted to admissible treatment sizes and control '
    'sizes (nested loop invariants over recursively defined partial sums); '
    'the size range is exactly [max(lo, n_min), min(hi, n_max)] and the '
    'control size generator yields exactly the admissible sizes (inclusive '
    'geo ratio); the two group generators yield exactly the legal groups of '
    'an admissible size (loop invariants over the ghost set of yielded '
    'groups; combinations() produces every subset once).  Equality of the '
    'sum with the number of enumerated designs (a counting identity) is a '
    'bounded run-time contract over all eligibility multisets (<= 4-6 geos).',
    'DESIGN.md section 7, C11',
    'Level is the weaker (bounded) one: the counting identity is not '
    'discharged deductively.')

define(
    'C13', 'exploration',
    HUB_TARGETS + [mm(['design_within_constraints', 'greedy_search'])],
    ENGINE_TRUST,
    [],
    'Proved: every design the greedy search pushes is legal (while-loop '
    'invariant over stored and candidate groups) and passes '
    'design_within_constraints, whose predicate is characterised exactly, '
    'and the budget filter.  That those designs lie in the set the '
    'exhaustive search ranks and never beat its optimum, and that greedy '
    'returns nothing when exhaustive does, is a bounded run-time contract '
    'against a brute-force feasible set.',
    'DESIGN.md section 7, C13',
    'Bounded; not counted as proved.')

define(
    'C15', 'exploration',
    [('tbrmmdata', None, False),
     ('geoeligibility', ['GeoEligibility.get_eligible_assignments'], False)],
    ENGINE_TRUST + PANDAS_TRUST + [
        'pandas steps of TBRMMData.__init__ (copy, astype, pivot_table, '
        'mean, sort_values, Series/scalar, pd.DataFrame of all-ones rows) '
        'keep the label sets as stated in the ledger; what they compute is '
        'not interpreted',
        'GeoEligibility.__init__ is verified against its contract under C16 '
        '(same sidecar); a validated table handed to it is coerced to the raw '
        'frame it denotes (one row per label, cells 1/0 by column set)'],
    ['the canonical form (pivot/sort/share values) is the pandas contract '
     'itself: bounded only'],
    'Proved: TBRMMData.__init__ establishes the data invariant, stores the '
    'given eligibility table restricted to the geos in the data (all-ones '
    'rows when none is given), and returns only if every geo that cannot be '
    'excluded is in the data and the required columns are present (only '
    'ValueError escapes); geo_index setter (reject-or-install, index '
    'classes, row/share arrays in the given order) and both aggregations. '
    'Canonical form and share values are a bounded run-time contract '
    'against a plain-Python recomputation.',
    'DESIGN.md section 7, C15',
    'Mixed: level is the weaker (bounded) one.')

define(
    'C16', 'proof',
    [('geoeligibility', None, False)],
    ENGINE_TRUST + PANDAS_TRUST + [
        'pandas steps of GeoEligibility.__init__ (copy, reset_index, '
        'columns membership / duplicated, astype, .loc[:, names], '
        'df[c].duplicated(), set(df[c]), df[cols].sum(axis=1) == 0, any, '
        'set_index) as stated in the ledger: rows are kept, masks flag the '
        'rows the pandas documentation says; cells are integers'],
    ['cells that are neither ints nor integer-valued floats (strings, NaN) '
     'and frames whose index is named geo are exercised by the exhaustive '
     'bounded monitor only'],
    'Discharged for all frames and geo lists: GeoEligibility.__init__ '
    'raises ValueError exactly when a column is missing or repeated, a geo '
    'value occurs twice, a cell is not 0/1 or a row is all zeros, otherwise '
    'stores one row per geo with the column sets of the cells equal to 1 (no '
    'all-zero row); partition and row encoding of the seven classes '
    '(GeoAssignments.__init__); subset/index selection incl. the empty '
    'subset (get_eligible_assignments).  The exhaustive bounded monitor '
    '(all tables <= 3 rows over the 8 row types + malformed variants) is an '
    'independent cross-check.',
    'DESIGN.md section 7, C16',
    'Proof modulo the pandas ledger and engine soundness.')

DIAG = 'TBRMMDiagnostics.'
define(
    'C05', 'exploration',
    [('tbrmmdiagnostics', [DIAG + 'estimate_required_impact',
                           DIAG + 'required_impact', DIAG + 'tbrfit',
                           DIAG + 'pretestfit'], True),
     # the post-analysis the impact is calibrated to: its summary algebra and
     # the date order of the aggregated series
     ('tbr', None, False)],
    ENGINE_TRUST[:3] + [
        'NumPy/SciPy ledger: t and F quantiles, std, var, sqrt are '
        'uninterpreted; sqrt strictly increasing and non-negative (lemma '
        'hypotheses)',
        'OLS identity: residual s.d. of the fit = std(y, ddof=2) sqrt(1 - '
        'corr^2) (mathematical lemma, checked numerically by the monitor)'],
    ['floats as reals'],
    'Proved: estimate_required_impact returns the documented closed form '
    '(quantile sum x n_test x sqrt(phi (n+1)/(n n_test (n-1)) + 1/n + '
    '1/n_test) x residual s.d.), tbrfit returns the documented estimate / '
    'scale / half-width, and (code-independent lemmas) the planning radicand '
    'equals the TBR scale radicand at the F-quantile displacement and the '
    'impact strictly decreases in |corr| when the quantile sum is positive '
    '(the all-levels clause is the known finding).  Against the real TBR '
    'post-analysis, scaling and shift invariance: bounded run-time contract.  '
    'The check also runs the contracts of the post-analysis side (TBR.summary '
    'algebra, date order of the aggregated frame, rows of the pre-period '
    'regression) and the purity obligation of the lru_cache helper '
    '_impact_estimate (reads only its arguments).',
    'DESIGN.md section 7, C05',
    'Level is the weaker (bounded) one: the analysis-side posterior (NumPy '
    'matrix code of tbr.py) is only checked at run time.')

define(
    'C06', 'exploration',
    [('tbrmmdiagnostics', [DIAG + 'tbrfit', DIAG + 'pretestfit'], False),
     ('tbr', None, True)],
    ENGINE_TRUST[:3] + [
        'NumPy/SciPy ledger (uninterpreted): frozen t distribution with '
        'median / ppf / cdf / scale as functions of the distribution; '
        'reshape, DataFrame(dict), df[names], tail keep the columns; '
        'sm.OLS(y, X).fit() is a function of the selected cells',
        'ASSUMED contracts (bodies not verified): '
        'TBR.causal_cumulative_distribution returns the posterior of the '
        'object for the given rescaling; TBR.causal_effect returns a series',
        'lemmas: quantiles of a distribution are non-decreasing in p and the '
        'median is the 0.5 quantile'],
    ['floats as reals'],
    'Proved: the design-side TBR fit returns n_test (dy - b dx), the Kerman '
    'scale at t = n_test and half-width = t-quantile x scale; TBR.summary '
    'raises ValueError exactly for tails not in {1, 2} or level outside '
    '[0, 1] and otherwise reports estimate = posterior median, lower = '
    'quantile at (1 - level)/tails, upper = quantile at 1 or 1 - '
    '(1 - level)/2, precision = |lower - median|, scale = posterior scale; '
    'lemma: lower <= estimate <= upper and precision = estimate - lower '
    'when the lower tail probability is <= 0.5 (the all-levels clause is the '
    'known finding); the aggregated analysis frame is ordered by (group, '
    'date); the pre-period model is the OLS fit of the treatment target cells '
    'on a constant and the control target cells over exactly the rows whose '
    'period is the pre-period (_fit_pre_period_model with _response_vector '
    'and _design_matrix inlined; OLS uninterpreted).  The posterior itself on every analysed day (vs Kerman '
    'eq. 5) and its invariance to row order / geos per group / unassigned '
    'rows are a bounded run-time contract against a plain-NumPy oracle.',
    'DESIGN.md section 7, C06',
    'Level is the weaker (bounded) one.')

define(
    'C20', 'exploration',
    [('common_classes', None, False), ('utils', None, False)],
    ENGINE_TRUST[:3] + [
        'pandas.Timestamp(s) raises ValueError or returns a function of s; '
        'date_range(a, b) raises ValueError or is the duplicate-free list of '
        'a day set DR(a, b); str.split yields a non-empty list of pieces'],
    ['which strings denote which day, and which days a range contains, is '
     'pandas/dateutil: bounded monitor against a datetime.date oracle'],
    'Proved for all lists: one window per entry (one piece -> day, two -> '
    'closed range, otherwise ValueError), only ValueError escapes, reversed '
    'ranges are rejected (TimeWindow), and the expansion is exactly the '
    'union of the per-window day sets with every day once.  Calendar '
    'semantics: bounded run-time contract on the composition.',
    'DESIGN.md section 7, C20',
    'Level is the weaker (bounded) one.')

FRAME_TRUST = [
    'row algebra of long-format pandas frames (engine/frame_ledger.py): '
    'copy / column projection / boolean masks keep row identity and cell '
    'values; isin / == select the rows whose cell matches; ~ is the '
    'complement within the frame; drop(labels) removes every row carrying a '
    'label; .loc[label] raises KeyError when no row carries it; sum(column) '
    'is a function of the row set',
    'semantics.DataFrameNameMapping / GroupSemantics / PeriodSemantics: '
    'arbitrary pairwise distinct attribute values, or ValueError']

define(
    'C07', 'exploration',
    [('tbr_iroas', None, False),
     # the fixed-cost report is TBR.summary of the response rescaled by 1/cost
     ('tbr', None, False)],
    ENGINE_TRUST[:3] + FRAME_TRUST + [
        'utils.float_order is an uninterpreted function of its argument'],
    ['precondition of the proved core: the control group has rows in the '
     'test period', 'floats as reals'],
    'Proved: _is_fixed_cost_scenario returns true exactly when the order of '
    'magnitude of (pre-period cost summed over the rows of every group + '
    'test-period cost of the control group) of the aggregated cost frame is '
    'below 1e-10, and its .loc cannot raise.  Everything else (fixed-cost '
    'report = response summary / cost, paired simulation, determinism, '
    'lower <= estimate <= upper, label against the raw frame, equivariance) '
    'is a bounded run-time contract against a NumPy oracle.  The check also '
    'runs the TBR.summary contract the fixed-cost report is built from '
    '(estimate / bounds / probability = 1 - cdf(threshold) of the rescaled '
    'posterior).',
    'DESIGN.md section 7, C07',
    'Level is the weaker (bounded) one.')

define(
    'C19', 'exploration',
    [('tbrdiagnostics', None, False)],
    ENGINE_TRUST[:3] + FRAME_TRUST + [
        'ASSUMED contracts (bodies not verified, read off the code): '
        '_detect_noisy_geos, _detect_outliers write no field and return a '
        'list / None; utils.kwarg_subdict is pure',
        'NumPy/SciPy ledger for the correlation test (corrcoef, tanh, arctanh, '
        'sqrt, norm.ppf uninterpreted; table shape / x / y columns)',
        'pandas ledger for _create_analysis_data: unique(), map(dict), column '
        'assignment, drop_duplicates, pivot_table(sum) and reset_index as '
        'stated in engine/frame_ledger.py'],
    ['what pandas\' pivot_table computes from the rows it is given (per-date '
     'group totals) and the caller\'s frame staying unmodified are checked by '
     'the bounded monitor only'],
    'Proved for TBRDiagnostics.fit over the row algebra: the screened data '
    'hold exactly the input rows minus every row of the reported noisy geos '
    'and of the reported outlier dates; the analysis data are recomputed '
    'from the final screened data; the target defaults to the response '
    'column; only ValueError escapes.  Against plain recomputation from the '
    'raw frame (totals, row order independence, caller\'s frame): bounded '
    'run-time contract.  Also proved (body verified, no longer assumed): '
    '_create_analysis_data raises ValueError exactly when a group id has no '
    'row, otherwise stores the sum-pivot (date x period index, one column '
    'per group label) of ALL current screened rows with control -> x, '
    'treatment -> y, period moved out of the index, and writes nothing else; '
    '_correlation_test raises ValueError exactly when the analysis table has '
    'fewer than 4 rows and otherwise passes exactly when the observed '
    'correlation >= max(preferred, tanh(arctanh(min) + z(level)/sqrt(n-3))) '
    '(_min_correlation_threshold verified, obs_cor inlined).',
    'DESIGN.md section 7, C19',
    'Level is the weaker (bounded) one.')

define(
    'C18', 'exploration',
    [('common_classes',
      ['EstimatedTimeSeriesWithConfidenceInterval.__init__'], False),
     ('tbr', ['TBR._construct_analysis_data', 'TBR._fit_pre_period_model'],
      False),
     ('tbr_iroas', None, False)],
    ENGINE_TRUST[:3] + [
        'the series container is a DataFrame: after DataFrame.__init__ it has '
        'a set of column names and real cells; df[a] > df[b] and np.any as '
        'in the ledger'],
    ['everything numeric (counterfactual, pointwise differences, cumulative '
     'quantiles) is checked at run time only', 'floats as reals'],
    'Proved: the series container accepts exactly the frames that have the '
    'columns date / estimate / lower / upper and lower <= estimate <= upper '
    'on every row (KeyError / ValueError otherwise), so every series of a '
    'report that was built satisfies the ordering; the aggregated analysis '
    'frame the series are computed from is ordered by (group, date) '
    '(groupby sorts by its keys); the fixed-cost shortcut of the cost '
    'series is taken exactly when pre-period spend of all groups plus '
    'control test-period spend is negligible (_is_fixed_cost_scenario).  '
    'That the report '
    'succeeds for every fitted experiment, counterfactual + difference = '
    'observed, residuals and the last cumulative row against the TBR '
    'posterior: bounded run-time contract vs recomputation.',
    'DESIGN.md section 7, C18',
    'Level is the weaker (bounded) one.')

define(
    'C17', 'proof',
    [('tbrmmdesignparameters', None, False)],
    ['pyvc symbolic executor and its encodings (engine soundness)',
     'z3 5.1 FloatingPoint theory / cvc5 1.0.3',
     'dataclass machinery: __init__ assigns the fields, then calls '
     '__post_init__; typing.get_type_hints returns the class annotations '
     '(_is_optional is computed from the annotations of the AST)',
     'Python semantics of dynamic values listed in engine/dyn.py (bool is an '
     'int, exact int/float comparison, NaN comparisons false, int() of '
     'inf/NaN/None raises OverflowError/ValueError/TypeError)'],
    ['defaults and __eq__ (dataclass-generated, asdict comparison) are checked '
     'by the bounded monitor only'],
    'IEEE-754-exact proof over all dynamic values (None, bool, unbounded int, '
    'every binary64 incl. inf/NaN, pairs, other tuples, other objects): each '
    'validator call of __post_init__ (constant arguments read from the AST) '
    'raises ValueError exactly outside the documented domain of its field, '
    'raises nothing else, and stores accepted integers as int; __post_init__ '
    'returns exactly when every field is in its domain.  The boundary grid '
    'monitor is an independent bounded cross-check.',
    'DESIGN.md section 7, C17',
    'Proof modulo the dataclass/typing ledger and engine soundness; the '
    'documented domain is transcribed from the class docstring.')

define(
    'C08', 'proof',
    [('tbrmmdiagnostics', None, False)],
    ['pyvc symbolic executor and its encodings (engine soundness)',
     'z3 5.1 / cvc5 1.0.3',
     'NumPy / SciPy calls are deterministic functions of their arguments '
     '(numeric ledger); numpy.array of a 1-d float array is an equal array; '
     'slices have Python slice length',
     'functools.lru_cache is transparent for the two pure helper methods '
     '(inlined); namedtuple construction/unpacking',
     'accepted parameter objects (domain proved by C17)'],
    ['floats are reals (no NaN propagation: numpy.isnan is an uninterpreted '
     'predicate)', '__repr__ (prints raw cache fields) is not among the '
     'reported quantities'],
    'Class invariant "every cache is empty or holds the value a fresh object '
    'computes from the current series" with the spec functions DEFINED by a '
    'ghost execution of each getter from the fresh state; every getter '
    '(corr, required_impact, pretestfit, bbtest, dwtest, aatest, corr_test, '
    'tests_ok, tbrfit, estimate_required_impact) is proved to return the '
    'fresh value from any invariant state and to re-establish the invariant, '
    'both setters and the constructor establish it - for all series, '
    'parameters and call histories.  The exhaustive bounded history monitor '
    'is an independent cross-check.  The two lru_cache helpers are inlined '
    'under the obligation that they read nothing but their arguments (a '
    'cached result keyed by the arguments cannot go stale).',
    'DESIGN.md section 7, C08',
    'Proof modulo the numeric ledger (determinism of library calls) and '
    'engine soundness; bounded monitor not counted as proved.')

DEFS['C18'].IGNORED_REGIONS = ('C18:dates-outside-experiment',)
DEFS['C07'].IGNORED_REGIONS = ('C07:scenario-flips-under-cost-rescaling',)


def get(pid):
  if pid == 'C14':
    return importlib.import_module('mmverif.props.c14')
  return DEFS[pid]
