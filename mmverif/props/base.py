"""Common driver of a property check: proof part + bounded part + reporting."""
import os
import sys
import time

from mmverif import common


class MonitorResult:
  """Outcome of a bounded run-time-contract sweep."""

  def __init__(self, rule, exhaustive=False):
    self.rule = rule
    self.exhaustive = exhaustive
    self.evaluations = 0
    self.nontrivial = set()       # hashes of distinct non-trivial cases
    self.samples = []
    self.violations = []          # dicts: what, input, region(optional)
    self.notes = []
    self.bound = ''

  def case(self, key, nontrivial=True, sample=None):
    self.evaluations += 1
    if nontrivial:
      self.nontrivial.add(key)
    if sample is not None and len(self.samples) < 5:
      self.samples.append(sample)

  def violation(self, what, inp, region=None):
    self.violations.append({'what': what, 'input': inp, 'region': region})

  def merge(self, other):
    self.evaluations += other.evaluations
    self.nontrivial |= {(other.rule, k) for k in other.nontrivial}
    self.samples.extend(other.samples[:3])
    self.violations.extend(other.violations)
    self.notes.extend(other.notes)
    if other.rule not in self.rule:
      self.rule += ' | ' + other.rule
    self.exhaustive = self.exhaustive and other.exhaustive


class Report:

  def __init__(self, mod, tier, seed):
    self.mod = mod
    self.pid = mod.ID
    self.tier = tier
    self.seed = seed
    self.proof = None
    self.mon = None
    self.wall_s = 0.0
    self.errors = []

  def finish(self):
    mod, pid = self.mod, self.pid
    findings = common.findings_for(pid)
    used_findings = set()
    lines = []
    violations = []         # (what, replay path, suffix)
    undecided = []
    errors = list(self.errors)
    cov = {}
    trusted = list(getattr(mod, 'TRUSTED', []))
    assumptions = list(getattr(mod, 'ASSUMPTIONS', []))

    def known(kind, text, region=None):
      for i, f in enumerate(findings):
        m = f.get('match', {})
        if kind == 'obligation' and m.get('obligation') and m[
            'obligation'] in text:
          used_findings.add(i)
          return True
        if kind == 'monitor' and region is not None and m.get(
            'region') == region:
          used_findings.add(i)
          return True
      return False

    # ---------------- proof part
    if self.proof is not None:
      pr = self.proof
      errors.extend(pr.errors)
      # obligations tagged for other properties only: counted and reported
      # only when the verifier does not accept them (their failure voids the
      # proofs made after them on the same path); a listed finding of
      # another property is none of this check's business
      all_findings = common.load_known_findings().get('findings', [])

      def foreign_known(o):
        text = o.name + ' ' + o.label
        return any(f.get('match', {}).get('obligation') and
                   f['match']['obligation'] in text for f in all_findings)
      obs = [(o, r) for o, r in pr.obligations
             if not getattr(o, 'foreign', False) or (
                 r['verdict'] != 'discharged' and not foreign_known(o))]
      n_ob = len(obs)
      disc = [o for o, r in obs if r['verdict'] == 'discharged']
      failed = [(o, r) for o, r in obs if r['verdict'] == 'failed']
      und = [(o, r) for o, r in obs if r['verdict'] in ('undecided',
                                                        'conflict')]
      expected_fail = 0
      for o, r in failed:
        if known('obligation', o.name + ' ' + o.label):
          expected_fail += 1
          continue
        model = r['runs'][0].get('model', {})
        payload = {
            'property': pid, 'failed_obligation': o.name, 'label': o.label,
            'kind': o.kind, 'function': o.func, 'line': o.lineno,
            'goal': o.text, 'solver': r['runs'], 'model': model,
            'source_root': common.REPO,
        }
        concrete = None
        if hasattr(mod, 'replay'):
          try:
            concrete = mod.replay(o, model)
          except Exception as e:  # pylint: disable=broad-except
            payload['replay_error'] = repr(e)
        if concrete is not None:
          payload['failing_input'] = concrete
        path = common.write_replay(pid, o.name, payload)
        violations.append(('obligation ' + o.name, path,
                           '' if concrete is not None else
                           ' no-failing-input-found'))
      from mmverif import baseline as _bl
      _all_bl = _bl.load()
      proved_before = set(_all_bl.get(pid, []))
      if any(getattr(o, 'foreign', False) for o, r in und):
        for _keys in _all_bl.values():
          proved_before |= set(_keys)
      for o, r in und:
        if known('obligation', o.name + ' ' + o.label):
          expected_fail += 1      # listed finding: expected not to be provable
          continue
        if _bl.key(o) in proved_before:
          # discharged on the unchanged tree, not accepted now: the verifier
          # rejects the obligation (no counter-model from the solver)
          payload = {
              'property': pid, 'failed_obligation': o.name, 'label': o.label,
              'kind': o.kind, 'function': o.func, 'line': o.lineno,
              'goal': o.text, 'solver': r['runs'],
              'note': ('this obligation is discharged on the unchanged tree '
                       '(baseline_obligations.json) and is not accepted by '
                       'the verifier on this tree; the solver returned no '
                       'counter-model'),
              'source_root': common.REPO}
          concrete = None
          if hasattr(mod, 'replay'):
            try:
              concrete = mod.replay(o, {})
            except Exception as e:  # pylint: disable=broad-except
              payload['replay_error'] = repr(e)
          if concrete is not None:
            payload['failing_input'] = concrete
          path = common.write_replay(pid, o.name, payload)
          violations.append(('obligation ' + o.name, path,
                             '' if concrete is not None else
                             ' no-failing-input-found'))
          continue
        undecided.append(o.name)
      vac = [u.contract.qualname for u in pr.units if getattr(u, 'vacuous',
                                                              False)]
      if vac:
        errors.append('vacuous precondition in: %s' % ', '.join(vac))
      if n_ob == 0 and not pr.errors:
        errors.append('zero obligations generated')
      backends = {}
      for o, r in obs:
        for run in r['runs']:
          if run['result'] == 'unsat':
            backends[run['backend']] = backends.get(run['backend'], 0) + 1
      funcs = []
      for u in pr.units:
        mine = [(o, r) for o, r in obs if o in u.obligations]
        funcs.append({
            'function': '%s.%s' % (u.modname, u.contract.qualname),
            'paths': u.paths,
            'obligations': len(mine),
            'discharged': sum(1 for o, r in mine
                              if r['verdict'] == 'discharged'),
            'source_sha256': u.sha256[:16],
        })
      samples = []
      for o, r in obs:
        if not o.trivial and len(samples) < 4:
          samples.append({'obligation': o.name, 'kind': o.kind,
                          'text': o.text[:300],
                          'verdict': r['verdict']})
      cov.update({
          # obligations of the claim = everything generated except the
          # obligations that ARE the listed known findings (reported apart)
          'obligations': n_ob - expected_fail,
          'discharged': len(disc),
          'known_finding_obligations_not_discharged': expected_fail,
          'failed': [o.name for o, r in failed],
          'undecided': undecided,
          'checker_cmd': '.venv/bin/python -m mmverif.check %s --tier %s' %
                         (pid, self.tier),
          'trusted_base': trusted,
          'functions_under_contract': funcs,
          'functions_fully_discharged': sum(
              1 for f in funcs if f['obligations'] == f['discharged']),
          'discharged_by_backend': backends,
          'generation_time_s': round(pr.gen_time, 2),
          'solver_time_s': round(pr.solve_time, 2),
          'paths': sum(u.paths for u in pr.units),
          'obligation_samples': samples,
      })
      # mechanical scan: contracts of repository functions that are used at
      # call sites in this run but whose bodies are not verified
      from mmverif.engine import specs as _specs
      assumed = []
      for short, sp in sorted(_specs.REGISTRY.items()):
        for q, c in sorted(sp.contracts.items()):
          if getattr(c, 'assumed', None):
            assumed.append('%s.%s: %s' % (short, q, c.assumed))
      if assumed:
        cov['assumed_contracts'] = assumed
      # every library-ledger statement loaded for this run (mechanical list:
      # the notes the ledger entries register, whether or not a path used
      # them)
      from mmverif.engine import lib as _lib
      cov['library_ledger'] = sorted(set(_lib.ASSUMPTIONS))
    # ---------------- bounded part
    if self.mon is not None:
      m = self.mon
      for v in m.violations:
        if v.get('region') in getattr(mod, 'IGNORED_REGIONS', ()):
          continue       # input outside the property's stated domain
        if known('monitor', v['what'], v.get('region')):
          continue
        path = common.write_replay(pid, 'monitor-' + v['what'], {
            'property': pid, 'monitor_contract': v['what'],
            'failing_input': v['input'], 'region': v.get('region'),
            'source_root': common.REPO})
        violations.append(('run-time contract ' + v['what'], path, ''))
      cov.update({
          'evaluations': m.evaluations,
          'distinct_nontrivial': len(m.nontrivial),
          'rule': m.rule,
          'samples': m.samples[:6] or cov.get('obligation_samples', []),
          'exhaustive': bool(m.exhaustive),
          'bounded_part': ('run-time contracts on the real functions over an '
                           'enumerated domain; labelled bounded, never counted '
                           'as proved. ' + m.bound),
          'monitor_notes': m.notes[:10],
      })
    elif 'samples' not in cov:
      cov['samples'] = cov.get('obligation_samples', [])
    for lr in getattr(self, 'lean', ()):
      cov.setdefault('lean_lemmas', []).append(lr)
      if lr['status'] == 'rejected':
        errors.append('lean rejects %s: %s' % (lr['file'],
                                               lr['output'][-300:]))
      elif lr['status'] == 'accepted':
        assumptions.append('%s: accepted by Lean 4 + Mathlib on this run '
                           '(%.1f s)' % (lr['file'], lr['wall_s']))
      else:
        assumptions.append('%s: NOT machine-checked on this run (%s); the '
                           'lemma is an unchecked assumption' %
                           (lr['file'], lr.get('output', '')))
    level = mod.LEVEL
    if level == 'proof' and self.proof is not None:
      # proof level requires every obligation discharged (known findings are
      # reported separately and keep the level honest in level_note)
      pass
    nviol = len(violations)
    for i, f in enumerate(findings):
      if i in used_findings:
        lines.append('KNOWN-FINDING: property=%s %s' % (pid, f['what']))
    # one line per distinct failed clause (the same clause usually fails on
    # several paths): the replay file of the first occurrence is named
    seen_labels = {}
    for what, path, suffix in violations:
      key = what.split('@L')[0]
      seen_labels.setdefault(key, [what, path, suffix, 0])
      seen_labels[key][3] += 1
    for key, (what, path, suffix, cnt) in list(seen_labels.items())[:25]:
      lines.append('VIOLATION property=%s replay=%s%s' % (pid, path, suffix))
      lines.append('  failed: %s%s' % (what, ' (and %d more paths)' % (cnt - 1)
                                        if cnt > 1 else ''))
    for n in undecided[:20]:
      lines.append('UNDECIDED property=%s obligation=%s' % (pid, n))
    for e in errors[:20]:
      lines.append('CHECKER-ERROR property=%s %s' % (pid, e))
    cov['known_findings_seen'] = [findings[i]['what'] for i in sorted(
        used_findings)]
    common.write_evidence(pid, self.tier, self.seed, level, cov, assumptions,
                          self.wall_s, nviol)
    for l in lines:
      print(l)
    summ = 'property=%s tier=%s' % (pid, self.tier)
    if self.proof is not None:
      summ += ' obligations=%d discharged=%d' % (cov['obligations'],
                                                 cov['discharged'])
    if self.mon is not None:
      summ += ' evaluations=%d distinct=%d' % (cov['evaluations'],
                                               cov['distinct_nontrivial'])
    summ += ' wall=%.1fs' % self.wall_s
    if nviol:
      print('RESULT violation ' + summ)
      return common.EXIT_VIOLATION
    if errors:
      print('RESULT checker-error ' + summ)
      return common.EXIT_ERROR
    if undecided:
      print('RESULT undecided ' + summ)
      return common.EXIT_UNDECIDED
    print('RESULT ok ' + summ)
    return common.EXIT_OK


def run_property(mod, tier, seed):
  rep = Report(mod, tier, seed)
  targets = mod.proof_targets(tier) if hasattr(mod, 'proof_targets') else []
  only = os.environ.get('MMVERIF_ONLY_FUNC')
  if only:
    # self-test mode (mutation analysis): prove only one function
    omod, oq = only.split(':', 1)
    from mmverif import prove as _pv
    kept = []
    for modname, quals, _ in targets:
      if modname != omod:
        continue
      if quals is None:
        side = _pv.load_sidecar(modname)
        quals = {'tbrmmscore': getattr(side, 'SCORE_FUNCTIONS', None),
                 'tbrmmdesign': getattr(side, 'DESIGN_FUNCTIONS', None),
                 'common_classes': getattr(side, 'CC_FUNCTIONS', None),
                 'tbr_iroas': getattr(side, 'IROAS_FUNCTIONS', None)}.get(
                     modname) or side.FUNCTIONS
      hit = [q for q in quals if q == oq or q.startswith(oq + '.setter')
             or q.split('#')[0] == oq]
      if hit:
        kept.append((modname, hit, False))
    targets = kept
  if targets:
    from mmverif import prove
    from mmverif.engine import backend
    tmo = 12000 if tier == 'quick' else 60000
    rep.proof = prove.prove(
        targets, props={mod.ID}, timeout_ms=tmo,
        use_cvc5='fallback' if tier == 'quick' else 'always')
    # second chance with a longer budget for the few undecided ones, so that
    # a loaded machine does not flip a verdict
    # (also for "sat-candidate": z3 gave up on the quantified hypotheses and
    # only the quantifier-free part has a model - with more time the
    # obligation may well be provable)
    def soft(r):
      return r['verdict'] == 'undecided' or (
          r['verdict'] == 'failed' and
          all(x.get('result') != 'sat' for x in r['runs']))
    _kf = [f.get('match', {}).get('obligation') for f in
           common.load_known_findings().get('findings', [])]
    _kf = [k for k in _kf if k]

    def listed(o):          # a recorded finding: expected not to be provable
      return any(k in (o.name + ' ' + o.label) for k in _kf)
    und = [(o, r) for o, r in rep.proof.obligations
           if soft(r) and not listed(o)]
    # at most one representative per clause when many paths fail the same one
    if len(und) > 48:
      seen, few = set(), []
      for o, r in und:
        k = (o.func, o.kind, o.label)
        if k not in seen:
          seen.add(k)
          few.append((o, r))
      und = few[:48] if len(few) <= 48 else []
    if und:
      out = backend.discharge([(o.name, o.smt2) for o, r in und],
                              timeout_ms=tmo * 4, use_cvc5='no')
      for i, (o, r) in enumerate(rep.proof.obligations):
        if soft(r) and o.name in out:
          nr = out[o.name]
          nr['runs'] = r['runs'] + nr['runs']
          nr['verdict'] = backend.verdict(nr['runs'])
          rep.proof.obligations[i] = (o, nr)
  rep.lean = [run_lean(f) for f in getattr(mod, 'LEAN', ())]
  if hasattr(mod, 'monitor'):
    try:
      rep.mon = mod.monitor(tier, seed)
    except Exception as e:  # pylint: disable=broad-except
      crash = crash_in_code_under_test(e)
      if crash is None:
        raise
      # the run-time contract harness was interrupted by an exception raised
      # inside the repository code on one of its (valid) inputs: the observed
      # function does not deliver what the property is about
      m = MonitorResult('monitor interrupted by an exception of the code '
                        'under test')
      m.bound = 'interrupted'
      m.violation('unexpected-exception/%s' % crash['type'], crash)
      rep.mon = m
  return rep


def crash_in_code_under_test(exc):
  """If the traceback of `exc` (including a worker's remote traceback) ends
  inside the repository tree - i.e. after the last frame of /verif there is a
  frame of the code under test - returns a description, else None."""
  import traceback
  text = ''.join(traceback.format_exception(type(exc), exc,
                                            exc.__traceback__))
  repo = os.path.realpath(common.REPO)
  hit = []
  # a worker's traceback arrives as the text of the cause: look at every
  # chained block separately
  for block in text.split('The above exception was the direct cause'):
    frames = [l.strip() for l in block.splitlines()
              if l.strip().startswith('File "')]
    last_verif = max([i for i, l in enumerate(frames)
                      if '/mmverif/' in l] or [-1])
    tail = frames[last_verif + 1:]
    hit += [l for l in tail if ('File "%s/' % repo) in l or
            ('File "%s/' % common.REPO) in l]
  if not hit:
    return None
  return {'type': type(exc).__name__, 'message': str(exc)[:300],
          'raised_at': hit[-1][:300], 'traceback_tail': text[-2500:],
          'source_root': common.REPO}


def run_lean(fname):
  """Checks a Lean 4 / Mathlib lemma file (code-independent mathematics an
  SMT obligation uses as a hypothesis).  Rejection is a checker error; a
  missing tool chain leaves the lemma an unchecked assumption."""
  import shutil
  import subprocess
  import time
  path = os.path.join(os.path.dirname(os.path.dirname(
      os.path.abspath(__file__))), 'lean', fname)
  mathlib = os.environ.get('MMVERIF_MATHLIB', '/opt/veriftools/mathlib4')
  out = {'file': 'mmverif/lean/' + fname, 'status': 'not-run', 'wall_s': 0.0}
  if shutil.which('lake') is None or not os.path.isdir(mathlib):
    out['output'] = 'lake / mathlib not available'
    return out
  t0 = time.time()
  try:
    r = subprocess.run(['lake', 'env', 'lean', path], cwd=mathlib,
                       capture_output=True, text=True, timeout=1800)
    text = (r.stdout + r.stderr).strip()
    bad = r.returncode != 0 or 'error' in text or 'sorry' in text
    out['status'] = 'rejected' if bad else 'accepted'
    out['output'] = text[-1500:]
  except subprocess.TimeoutExpired:
    out['output'] = 'timeout'
  out['wall_s'] = round(time.time() - t0, 2)
  return out
