"""C14 — ordered, capped results; the bounded queue keeps the top k."""
import itertools

from mmverif.props import base

ID = 'C14'
LEVEL = 'proof'

TRUSTED = [
    'heapq.heappush / heappushpop / nlargest (ledger in engine/libcontracts.py)',
    'collections.defaultdict(list): missing key inserts a new empty list',
    'len(h) is the total multiplicity of bag(h) (maintained together by the '
    'heapq ledger entries)',
    'items are ordered by a strict weak order (no NaN scores)',
    'pyvc symbolic executor + finite-set / bag encodings (engine soundness)',
    'z3 5.1 / cvc5 1.0.3',
]
ASSUMPTIONS = [
    'Python ints are mathematical; object references do not alias unless the '
    'code makes them alias',
    'the search-level part (at most n_designs designs, order preserved by '
    'search_results) is carried by the contracts of tbrmatchedmarkets '
    '(search_results copies the snapshot in order)',
]


def proof_targets(tier):
  return [('heapdict', None, True), ('tbrmmscore', None, False),
          ('tbrmmdesign', None, False),
          ('tbrmatchedmarkets', ['TBRMatchedMarkets.search_results',
                                 'TBRMatchedMarkets.exhaustive_search',
                                 'TBRMatchedMarkets.greedy_search'], False)]


def monitor(tier, seed):
  """Run-time contract of HeapDict against a brute-force oracle: all
  histories of pushes and reads up to a length bound (exhaustive within the
  bound).  Every read is compared with the oracle, so a read that disturbs
  the container shows up at the next read."""
  from matched_markets.methodology import heapdict
  maxlen = 5 if tier == 'quick' else 6
  res = base.MonitorResult(
      'all histories of length <= %d over {push(key, item) : key in {a,b}, '
      'item in {0,1,2}} + {read}, capacity k in {0,1,2,3}; every read is '
      'checked; non-trivial = at least one push before a read; distinct = '
      '(k, history)' % maxlen, exhaustive=True)
  res.bound = 'history length <= %d' % maxlen
  moves = [(k, i) for k in 'ab' for i in (0, 1, 2)] + ['read']

  def check_read(h, want, cap, inp):
    got = h.get_result()
    again = h.get_result()
    for key, items in want.items():
      exp = sorted(items, reverse=True)[:max(cap, 0)]
      if got.get(key, []) != exp:
        res.violation('HeapDict.get_result/post:top-k descending', inp)
        return False
    if set(got) != set(want):
      res.violation('HeapDict.get_result/post:keys', inp)
      return False
    if again != got:
      res.violation('HeapDict.get_result/post:read-only', inp)
      return False
    for v in got.values():
      v.append(99)          # mutating the snapshot must not reach the container
    if h.get_result() != again:
      res.violation('HeapDict.get_result/post:fresh lists', inp)
      return False
    return True

  for cap in (0, 1, 2, 3):
    for n in range(0, maxlen + 1):
      for seq in itertools.product(moves, repeat=n):
        h = heapdict.HeapDict(cap)
        want = {}
        inp = {'capacity': cap,
               'history': [m if m == 'read' else list(m) for m in seq]}
        ok = True
        pushed = False
        nontrivial = False
        for m in seq:
          if m == 'read':
            nontrivial = nontrivial or pushed
            ok = check_read(h, want, cap, inp)
            if not ok:
              break
          else:
            h.push(m[0], m[1])
            want.setdefault(m[0], []).append(m[1])
            pushed = True
        if ok:
          ok = check_read(h, want, cap, inp)
        res.case((cap, seq), nontrivial=nontrivial or pushed,
                 sample=inp if n == maxlen and len(res.samples) < 3 else None)
        if len(res.violations) > 3:
          return res
  return res


def replay(ob, model):
  """Concrete failing input for a failed obligation: search the bounded
  domain with the run-time contract."""
  r = monitor('quick', 0)
  if r.violations:
    return r.violations[0]
  return None

MANIFEST = {
    'category': 'proof',
    'text': ('Every obligation generated from the real AST of HeapDict.__init__/'
             'push/get_result (relational, ghost-free postconditions, loop '
             'invariant, frames) and the code-independent history lemma '
             '(top-k invariant preserved by any push) is discharged by z3 for '
             'all keys, items, capacities and sequence lengths; plus an '
             'exhaustive bounded run-time contract as cross-check and replay '
             'source.'),
    'design_ref': 'DESIGN.md section 7, C14; Appendix A',
    'level_note': ('Trusted: heapq/defaultdict ledger, strict-weak-order items '
                   '(no NaN), pyvc engine soundness, z3/cvc5. The bounded '
                   'run-time sweep is labelled bounded and not counted as '
                   'proved.'),
    'technique': ('contract-based deductive verification: VCs generated from '
                  'the Python AST (own symbolic executor) + sidecar contracts, '
                  'discharged by z3/cvc5; run-time contracts as bounded '
                  'stand-in'),
}
