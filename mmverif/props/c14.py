"""C14 — ordered, capped results; the bounded queue keeps the top k."""
import itertools

from mmverif.props import base

ID = 'C14'
LEVEL = 'proof'

TRUSTED = [
    'heapq.heappush / heappushpop / nlargest (ledger in engine/libcontracts.py)',
    'collections.defaultdict(list): missing key inserts a new empty list',
    'len(h) is the total multiplicity of bag(h) (maintained together by the '
    'heapq ledger entries)',
    'items are ordered by a strict weak order (no NaN scores)',
    'pyvc symbolic executor + finite-set / bag encodings (engine soundness)',
    'z3 5.1 / cvc5 1.0.3',
]
ASSUMPTIONS = [
    'Python ints are mathematical; object references do not alias unless the '
    'code makes them alias',
    'the search-level part (at most n_designs designs, order preserved by '
    'search_results) is carried by the contracts of tbrmatchedmarkets '
    '(search_results copies the snapshot in order)',
]


def proof_targets(tier):
  return [('heapdict', None, True)]


def monitor(tier, seed):
  """Run-time contract of HeapDict against a brute-force oracle, all push
  sequences up to a length bound (exhaustive within the bound)."""
  from matched_markets.methodology import heapdict
  maxlen = 5 if tier == 'quick' else 7
  res = base.MonitorResult(
      'all push sequences of length <= %d over items {0,1,2} x keys {a,b} x '
      'capacity k in {0,1,2,3}; non-trivial = at least one push; distinct = '
      '(k, sequence)' % maxlen, exhaustive=True)
  res.bound = 'sequence length <= %d' % maxlen
  moves = [(k, i) for k in 'ab' for i in (0, 1, 2)]
  for cap in (0, 1, 2, 3):
    for n in range(0, maxlen + 1):
      for seq in itertools.product(moves, repeat=n):
        h = heapdict.HeapDict(cap)
        want = {}
        for key, item in seq:
          h.push(key, item)
          want.setdefault(key, []).append(item)
        got = h.get_result()
        again = h.get_result()
        inp = {'capacity': cap, 'pushes': [list(m) for m in seq]}
        res.case((cap, seq), nontrivial=n > 0,
                 sample=inp if n == maxlen else None)
        for key, items in want.items():
          exp = sorted(items, reverse=True)[:max(cap, 0)]
          if got.get(key, []) != exp:
            res.violation('HeapDict.get_result/post:top-k descending', inp)
            break
          if len(got.get(key, [])) > max(cap, 0):
            res.violation('HeapDict/cap', inp)
            break
        else:
          if set(got) != set(want):
            res.violation('HeapDict.get_result/post:keys', inp)
          elif again != got:
            res.violation('HeapDict.get_result/post:read-only', inp)
          else:
            # mutating the snapshot must not affect the container
            for v in got.values():
              v.append(99)
            if h.get_result() != again:
              res.violation('HeapDict.get_result/post:fresh lists', inp)
        if len(res.violations) > 3:
          return res
  return res


def replay(ob, model):
  """Concrete failing input for a failed obligation: search the bounded
  domain with the run-time contract."""
  r = monitor('quick', 0)
  if r.violations:
    return r.violations[0]
  return None

MANIFEST = {
    'category': 'proof',
    'text': ('Every obligation generated from the real AST of HeapDict.__init__/'
             'push/get_result (relational, ghost-free postconditions, loop '
             'invariant, frames) and the code-independent history lemma '
             '(top-k invariant preserved by any push) is discharged by z3 for '
             'all keys, items, capacities and sequence lengths; plus an '
             'exhaustive bounded run-time contract as cross-check and replay '
             'source.'),
    'design_ref': 'DESIGN.md section 7, C14; Appendix A',
    'level_note': ('Trusted: heapq/defaultdict ledger, strict-weak-order items '
                   '(no NaN), pyvc engine soundness, z3/cvc5. The bounded '
                   'run-time sweep is labelled bounded and not counted as '
                   'proved.'),
    'technique': ('contract-based deductive verification: VCs generated from '
                  'the Python AST (own symbolic executor) + sidecar contracts, '
                  'discharged by z3/cvc5; run-time contracts as bounded '
                  'stand-in'),
}
