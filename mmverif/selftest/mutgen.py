"""Source-level mutants of one methodology file (mutation analysis of the
checks themselves: a change that keeps the test suite green and breaks a
property should make a check fail).

  python -m mmverif.selftest.mutgen <module> [--list]

Operators: comparison flips (< <= > >= == !=), arithmetic (+ - * /), set /
bit operators (| & -), and/or, dropped `not`, integer constants +-1,
`continue` -> `pass`, swapped attribute names of the geo-assignment classes.
Only code inside function bodies is mutated; docstrings, asserts-free; the
formatting of the rest of the file is untouched (the edit is made on the
source text at the AST node's position).
"""
import ast
import sys

from mmverif import common

CMP = {ast.Lt: '<', ast.LtE: '<=', ast.Gt: '>', ast.GtE: '>=', ast.Eq: '==',
       ast.NotEq: '!='}
CMP_SWAP = {'<': ['<='], '<=': ['<'], '>': ['>='], '>=': ['>'], '==': ['!='],
            '!=': ['==']}
BIN = {ast.Add: '+', ast.Sub: '-', ast.Mult: '*', ast.Div: '/',
       ast.BitOr: '|', ast.BitAnd: '&'}
BIN_SWAP = {'+': ['-'], '-': ['+'], '*': ['/'], '/': ['*'], '|': ['&'],
            '&': ['|']}
ATTR_SWAP = {'c_fixed': 't_fixed', 't_fixed': 'c_fixed', 'cx': 'tx',
             'tx': 'cx', 'x_fixed': 'x', 'ct': 'ctx', 'ctx': 'ct',
             'control': 'treatment', 'treatment': 'control', 'pre': 'test',
             'first_day': 'last_day'}


def _offsets(src):
  offs, n = [0], 0
  for line in src.splitlines(keepends=True):
    n += len(line.encode('utf8'))
    offs.append(n)
  return offs


class Gen(ast.NodeVisitor):

  def __init__(self, src):
    self.src = src
    self.b = src.encode('utf8')
    self.offs = _offsets(src)
    self.out = []        # (lineno, func, description, start, end, new text)
    self.func = []

  def pos(self, line, col):
    return self.offs[line - 1] + col

  def span(self, node):
    return (self.pos(node.lineno, node.col_offset),
            self.pos(node.end_lineno, node.end_col_offset))

  def add(self, node, desc, start, end, new):
    self.out.append((node.lineno, '.'.join(self.func), desc, start, end, new))

  def between(self, a, b, token, node, swaps, kind):
    s, e = self.span(a)[1], self.span(b)[0]
    gap = self.b[s:e].decode('utf8')
    i = gap.find(token)
    if i < 0:
      return
    for new in swaps:
      self.add(node, '%s: %s -> %s' % (kind, token, new), s + i,
               s + i + len(token), new)

  def visit_FunctionDef(self, node):
    self.func.append(node.name)
    body = node.body
    if body and isinstance(body[0], ast.Expr) and isinstance(
        body[0].value, ast.Constant) and isinstance(body[0].value.value, str):
      body = body[1:]
    for st in body:
      self.visit(st)
    self.func.pop()

  def visit_ClassDef(self, node):
    self.func.append(node.name)
    for st in node.body:
      if isinstance(st, ast.FunctionDef):
        self.visit(st)
    self.func.pop()

  def visit_Compare(self, node):
    if self.func:
      left = node.left
      for op, right in zip(node.ops, node.comparators):
        tok = CMP.get(type(op))
        if tok:
          self.between(left, right, tok, node, CMP_SWAP[tok], 'compare')
        left = right
    self.generic_visit(node)

  def visit_BinOp(self, node):
    if self.func:
      tok = BIN.get(type(node.op))
      if tok:
        self.between(node.left, node.right, tok, node, BIN_SWAP[tok], 'binop')
    self.generic_visit(node)

  def visit_BoolOp(self, node):
    if self.func:
      tok = 'and' if isinstance(node.op, ast.And) else 'or'
      new = 'or' if tok == 'and' else 'and'
      for a, b in zip(node.values, node.values[1:]):
        self.between(a, b, tok, node, [new], 'boolop')
    self.generic_visit(node)

  def visit_UnaryOp(self, node):
    if self.func and isinstance(node.op, ast.Not):
      s, e = self.span(node)
      os_, oe = self.span(node.operand)
      self.add(node, 'dropped not', s, e, self.b[os_:oe].decode('utf8'))
    self.generic_visit(node)

  def visit_Constant(self, node):
    if self.func and type(node.value) is int and 0 <= node.value <= 100:
      s, e = self.span(node)
      for d in (1, -1):
        self.add(node, 'constant %d -> %d' % (node.value, node.value + d), s,
                 e, str(node.value + d))

  def visit_Continue(self, node):
    if self.func:
      s, e = self.span(node)
      self.add(node, 'continue -> pass', s, e, 'pass')

  def visit_Attribute(self, node):
    if self.func and node.attr in ATTR_SWAP:
      s, e = self.span(node)
      text = self.b[s:e].decode('utf8')
      k = text.rfind(node.attr)
      self.add(node, 'attribute .%s -> .%s' % (node.attr,
                                                ATTR_SWAP[node.attr]),
               s + k, s + k + len(node.attr), ATTR_SWAP[node.attr])
    self.generic_visit(node)


def mutants(module, repo=None):
  path = '%s/matched_markets/methodology/%s.py' % (repo or common.REPO, module)
  src = open(path).read()
  g = Gen(src)
  g.visit(ast.parse(src))
  out = []
  for i, (line, func, desc, s, e, new) in enumerate(g.out):
    b = g.b[:s] + new.encode('utf8') + g.b[e:]
    out.append({'id': '%s:%d' % (module, i), 'module': module, 'line': line,
                'function': func, 'description': desc,
                'source': b.decode('utf8')})
  return out


if __name__ == '__main__':
  ms = mutants(sys.argv[1])
  for m in ms:
    print(m['id'], 'L%d' % m['line'], m['function'], '|', m['description'])
  print(len(ms), 'mutants')
