"""Mutation analysis of the checks: python -m mmverif.selftest.mutrun
<module> <n> <seed> <out.jsonl>.

Samples n mutants of one methodology file (mutgen.py), and for each: applies
it to a scratch copy of the repository, runs the unedited test suite (a
mutant that changes the pass/fail outcome is `killed-by-tests` and skipped),
then runs the quick check of every property anchored in that file against the
scratch copy (proof part restricted to the mutated function, monitors in
full), stopping at the first check that reports a violation.  Evidence and
replays of these runs go to the scratch directory.
"""
import json
import os
import random
import shutil
import subprocess
import sys
import tempfile
import time

from mmverif import common
from mmverif.selftest import mutgen

PROPS = {
    'common_classes': ['C20', 'C18'],
    'geoeligibility': ['C16', 'C01', 'C15', 'C09', 'C11'],
    'heapdict': ['C14', 'C03', 'C10'],
    'tbr': ['C06', 'C05', 'C18', 'C07'],
    'tbr_iroas': ['C07', 'C18'],
    'tbrdiagnostics': ['C19'],
    'tbrmatchedmarkets': ['C01', 'C02', 'C09', 'C04', 'C03', 'C11', 'C13',
                          'C10', 'C14'],
    'tbrmmdata': ['C15', 'C04', 'C01', 'C10', 'C09'],
    'tbrmmdesign': ['C03', 'C14', 'C01'],
    'tbrmmdesignparameters': ['C17', 'C02'],
    'tbrmmdiagnostics': ['C08', 'C05', 'C06', 'C04', 'C02', 'C09'],
    'tbrmmscore': ['C03', 'C04'],
    'utils': ['C20', 'C07'],
}
BASELINE = '9 failed, 540 passed'


def run_one(m, tmp):
  dst = os.path.join(tmp, 'repo')
  if os.path.exists(dst):
    shutil.rmtree(dst)
  shutil.copytree('/repo/matched_markets', os.path.join(dst, 'matched_markets'),
                  ignore=shutil.ignore_patterns('__pycache__'))
  path = os.path.join(dst, 'matched_markets/methodology/%s.py' % m['module'])
  open(path, 'w').write(m['source'])
  rec = {k: m[k] for k in ('id', 'module', 'line', 'function', 'description')}
  t0 = time.time()
  try:
    r = subprocess.run(
        ['/venv/bin/python', '-m', 'pytest', '-q', '-p', 'no:cacheprovider',
         '--timeout=600', '--continue-on-collection-errors',
         'matched_markets'],
        cwd=dst, capture_output=True, text=True, timeout=1500)
    tail = (r.stdout.strip().splitlines() or [''])[-1]
  except subprocess.TimeoutExpired:
    tail = 'timeout'
  rec['tests'] = tail
  rec['tests_s'] = round(time.time() - t0, 1)
  if BASELINE not in tail:
    rec['outcome'] = 'killed-by-tests'
    return rec
  env = dict(os.environ, MMVERIF_REPO=dst,
             MMVERIF_EVIDENCE_DIR=os.path.join(tmp, 'ev'),
             MMVERIF_REPLAY_DIR=os.path.join(tmp, 'rp'),
             MMVERIF_ONLY_FUNC='%s:%s' % (m['module'], m['function']),
             MMVERIF_SEARCH_LIMIT_S='30')
  rec['checks'] = {}
  rec['outcome'] = 'survived'
  for pid in PROPS[m['module']]:
    t1 = time.time()
    try:
      r = subprocess.run([sys.executable, '-m', 'mmverif.check', pid,
                          '--tier', 'quick'], cwd=common.VERIF, env=env,
                         capture_output=True, text=True, timeout=3600)
      rc = r.returncode
      lines = [l for l in r.stdout.splitlines() if l.startswith(
          ('  failed', 'CHECKER', 'UNDECIDED'))][:3]
    except subprocess.TimeoutExpired:
      rc, lines = 'timeout', []
    rec['checks'][pid] = {'exit': rc, 's': round(time.time() - t1, 1),
                          'lines': [l[:200] for l in lines]}
    if rc == 1:
      rec['outcome'] = 'detected'
      rec['by'] = pid
      break
  return rec


def main(argv):
  module, n, seed, out = argv[0], int(argv[1]), int(argv[2]), argv[3]
  ms = mutgen.mutants(module)
  rng = random.Random(seed)
  rng.shuffle(ms)
  ms = ms[:n]
  tmp = tempfile.mkdtemp(prefix='mmv_mutrun_')
  try:
    with open(out, 'a') as f:
      for m in ms:
        rec = run_one(m, tmp)
        f.write(json.dumps(rec) + '\n')
        f.flush()
        print(rec['id'], rec['outcome'], rec.get('by', ''), flush=True)
  finally:
    shutil.rmtree(tmp, ignore_errors=True)


if __name__ == '__main__':
  main(sys.argv[1:])
