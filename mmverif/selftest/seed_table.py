"""Prints the markdown table of seeded changes (DESIGN.md section E) from
seeded/<ID>/meta.json and check_output.txt."""
import glob
import json
import os
import re

ROOT = os.path.join(os.path.dirname(os.path.abspath(__file__)), '..', '..',
                    'seeded')


def main():
  print('| seed | change (files) | check exit | failed proof obligations '
        '| fired run-time contracts |')
  print('|---|---|---|---|---|')
  for d in sorted(glob.glob(os.path.join(ROOT, '*'))):
    sid = os.path.basename(d)
    try:
      meta = json.load(open(os.path.join(d, 'meta.json')))
      out = open(os.path.join(d, 'check_output.txt')).read()
    except OSError:
      continue
    obl, mon = [], []
    for m in re.finditer(r'^  failed: (obligation|run-time contract) (.*)$',
                         out, re.M):
      text = re.sub(r'@L\d+[~.\w]*', '', m.group(2))
      text = re.sub(r' \(and \d+ more paths\)', '', text).strip()
      (obl if m.group(1) == 'obligation' else mon).append(text)
    nf = 'no-failing-input-found' in out
    summ = (meta.get('summary') or '').strip()
    summ = summ if len(summ) < 230 else summ[:227] + '...'
    files = ', '.join(os.path.basename(f) for f in (meta.get('files') or []))
    conf = meta.get('confirmed', {})

    def short(xs, n=3):
      xs = list(dict.fromkeys(xs))
      s = '; '.join('`%s`' % (x if len(x) < 110 else x[:107] + '...')
                    for x in xs[:n])
      if len(xs) > n:
        s += ' (+%d)' % (len(xs) - n)
      return s or '—'
    print('| %s | %s (%s) | %s%s | %s | %s |' % (
        sid, summ.replace('|', '/'), files, conf.get('check_exit_code'),
        ' (no concrete input)' if nf and not mon else '',
        short(obl).replace('|', '/'), short(mon).replace('|', '/')))


if __name__ == '__main__':
  main()
