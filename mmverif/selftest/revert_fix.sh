#!/bin/bash
# revert_fix.sh <property ID> <fix commit>: undo one `fix:` commit of /repo in
# a scratch copy and run the property's quick check against it.  A fixed
# entry of known_findings.json suppresses nothing, so the check must report
# the violation again (exit 1).  Evidence/replays of the run go to a scratch
# directory that is removed afterwards.
set -u
ID=$1; C=$2
TMP=$(mktemp -d /tmp/mmv_revert_XXXXXX)
trap 'rm -rf "$TMP"' EXIT
mkdir -p "$TMP/repo"
cp -r /repo/matched_markets "$TMP/repo/"
git -C /repo diff "$C" "$C^" -- matched_markets > "$TMP/revert.diff"
( cd "$TMP/repo" && git init -q . 2>/dev/null && git apply --unsafe-paths "$TMP/revert.diff" ) || { echo "$ID $C: revert does not apply"; exit 3; }
cd /verif
MMVERIF_EVIDENCE_DIR="$TMP/ev" MMVERIF_REPLAY_DIR="$TMP/rp" MMVERIF_REPO="$TMP/repo" \
  .venv/bin/python -m mmverif.check "$ID" --tier quick > "$TMP/out.txt" 2>&1
RC=$?
echo "$ID $C exit=$RC"
grep -E "^  failed|^CHECKER|^UNDECIDED" "$TMP/out.txt" | head -4 | cut -c1-220
