"""Two-stage mutation analysis: python -m mmverif.selftest.mutrun2 <seed>
<out.jsonl> <module>:<n> ...   Stage 1 runs the unedited test suite on every
sampled mutant in parallel (own scratch copy each); stage 2 runs the checks
on the mutants the tests do not kill (see mutrun.py).  Mutants whose id is
listed in $MMVERIF_MUT_SKIP (a jsonl of earlier records) are not re-run."""
import json
import multiprocessing
import os
import random
import shutil
import subprocess
import sys
import tempfile
import time

from mmverif.selftest import mutgen
from mmverif.selftest import mutrun


def tests_only(m):
  tmp = tempfile.mkdtemp(prefix='mmv_mutrun_')
  try:
    dst = os.path.join(tmp, 'repo')
    shutil.copytree('/repo/matched_markets',
                    os.path.join(dst, 'matched_markets'),
                    ignore=shutil.ignore_patterns('__pycache__'))
    path = os.path.join(dst, 'matched_markets/methodology/%s.py' % m['module'])
    open(path, 'w').write(m['source'])
    t0 = time.time()
    try:
      r = subprocess.run(
          ['/venv/bin/python', '-m', 'pytest', '-q', '-p', 'no:cacheprovider',
           '--timeout=600', '--continue-on-collection-errors',
           'matched_markets'], cwd=dst, capture_output=True, text=True,
          timeout=1800)
      tail = (r.stdout.strip().splitlines() or [''])[-1]
    except subprocess.TimeoutExpired:
      tail = 'timeout'
    return m['id'], tail, round(time.time() - t0, 1)
  finally:
    shutil.rmtree(tmp, ignore_errors=True)


def main(argv):
  seed, out = int(argv[0]), argv[1]
  skip = set()
  sk = os.environ.get('MMVERIF_MUT_SKIP')
  if sk and os.path.exists(sk):
    skip = {json.loads(l)['id'] for l in open(sk)}
  ms = []
  for spec in argv[2:]:
    module, n = spec.split(':')
    cand = [m for m in mutgen.mutants(module) if m['id'] not in skip]
    random.Random(seed).shuffle(cand)
    ms += cand[:int(n)]
  print('stage 1: %d mutants' % len(ms), flush=True)
  with multiprocessing.Pool(12) as pool:
    res = {i: (tail, s) for i, tail, s in pool.imap_unordered(tests_only, ms)}
  survivors = []
  with open(out, 'a') as f:
    for m in ms:
      tail, s = res[m['id']]
      if mutrun.BASELINE in tail:
        survivors.append(m)
      else:
        rec = {k: m[k] for k in ('id', 'module', 'line', 'function',
                                 'description')}
        rec.update(tests=tail, tests_s=s, outcome='killed-by-tests')
        f.write(json.dumps(rec) + '\n')
  print('stage 2: %d survive the tests' % len(survivors), flush=True)
  tmp = tempfile.mkdtemp(prefix='mmv_mutrun_')
  try:
    with open(out, 'a') as f:
      for m in survivors:
        rec = mutrun.run_one(m, tmp)
        f.write(json.dumps(rec) + '\n')
        f.flush()
        print(rec['id'], rec['outcome'], rec.get('by', ''), flush=True)
  finally:
    shutil.rmtree(tmp, ignore_errors=True)


if __name__ == '__main__':
  main(sys.argv[1:])
