"""python -m mmverif.selftest.solve <file.smt2> <timeout_ms>: run the z3
back-end portfolio on one dumped obligation."""
import sys, time
from mmverif.engine import backend
txt = open(sys.argv[1]).read()
t = time.time()
r = backend._z3_check(txt, int(sys.argv[2]), want_model=False)
print({k: v for k, v in r.items() if k != 'model'}, '%.1fs' % (time.time() - t))
