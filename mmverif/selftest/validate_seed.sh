#!/bin/bash
# validate_seed.sh <ID> <seed dir> : confirm a seeded change in a scratch
# worktree (demo passes before, fails after, test suite unchanged), then run
# the property's quick check against the changed tree.  Prints a summary and
# stores patch/demo/meta under /verif/seeded/<ID>/.
set -u
ID=$1; SRC=$2; TAG=${3:-$ID}
WT=/tmp/val_$TAG
OUT=/verif/seeded/$TAG
rm -rf "$WT"; git -C /repo worktree prune
git -C /repo worktree add -q --detach "$WT" HEAD || exit 3
mkdir -p "$OUT"; rm -rf "$OUT/evidence_with_change" "$OUT/replays_with_change"
cd "$WT"
/venv/bin/python "$SRC/demo.py" > "$OUT/demo_before.txt" 2>&1; B=$?
git apply "$SRC/patch.diff" || { echo "$TAG: patch does not apply"; exit 3; }
/venv/bin/python "$SRC/demo.py" > "$OUT/demo_after.txt" 2>&1; A=$?
T=$(/venv/bin/python -m pytest -q -p no:cacheprovider --timeout=900 matched_markets/tests 2>&1 | tail -1)
cp "$SRC/patch.diff" "$SRC/demo.py" "$OUT/"
cd /verif
MMVERIF_EVIDENCE_DIR="$OUT/evidence_with_change" MMVERIF_REPLAY_DIR="$OUT/replays_with_change" MMVERIF_REPO="$WT" .venv/bin/python -m mmverif.check "$ID" --tier quick > "$OUT/check_output.txt" 2>&1; C=$?
git -C /repo worktree remove --force "$WT"
# keep only the replay files the VIOLATION lines name
if [ -d "$OUT/replays_with_change" ]; then
  find "$OUT/replays_with_change" -type f | while read f; do
    grep -q -F "$f" "$OUT/check_output.txt" || rm -f "$f"
  done
fi
echo "$TAG: demo_before=$B demo_after=$A tests='$T' check_exit=$C"
python3 - "$ID" "$TAG" "$SRC" "$B" "$A" "$T" "$C" <<'PY'
import json, sys, os
pid, tag, src, b, a, t, c = sys.argv[1:8]
meta = {}
try:
  meta = json.load(open(os.path.join(src, 'meta.json')))
except Exception:
  pass
out = {
  'property': pid,
  'summary': meta.get('summary'),
  'needs': meta.get('needs'),
  'files': meta.get('files'),
  'confirmed': {
    'demo_exit_on_unchanged_tree': int(b), 'demo_exit_with_change': int(a),
    'test_suite_with_change': t,
    'what_was_run': ('scratch worktree of /repo HEAD under /tmp; demo.py before and after '
                     '`git apply patch.diff`; full pytest suite with the change; then '
                     '`MMVERIF_REPO=<worktree> python -m mmverif.check %s --tier quick`' % pid),
    'check_exit_code': int(c),
  },
}
vio = [l.strip() for l in open('/verif/seeded/%s/check_output.txt' % tag) if l.startswith(('VIOLATION', 'UNDECIDED', 'CHECKER-ERROR', 'RESULT'))]
out['confirmed']['check_lines'] = vio[:12]
json.dump(out, open('/verif/seeded/%s/meta.json' % tag, 'w'), indent=1)
PY
