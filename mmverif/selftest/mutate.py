"""Apply a textual edit to a scratch copy of the repo and run a prover target
against it (engine validation: a deliberately broken body must fail a named
obligation).  Usage: mutate.py <module> <old> <new> [qualname...]"""
import os
import shutil
import subprocess
import sys
import tempfile


def run(module, old, new, quals=(), count=1):
  tmp = tempfile.mkdtemp(prefix='mmv_mut_')
  try:
    dst = os.path.join(tmp, 'repo')
    shutil.copytree('/repo/matched_markets', os.path.join(dst, 'matched_markets'),
                    ignore=shutil.ignore_patterns('__pycache__', 'tests',
                                                  'notebook', 'csv', 'docs'))
    p = os.path.join(dst, 'matched_markets/methodology/%s.py' % module)
    s = open(p).read()
    assert s.count(old) >= 1, 'pattern not found'
    s = s.replace(old, new, count)
    open(p, 'w').write(s)
    env = dict(os.environ, MMVERIF_REPO=dst)
    r = subprocess.run([sys.executable, "-m", "mmverif.prove", module] +
                       list(quals), env=env, capture_output=True, text=True,
                       cwd='/verif')
    return r.stdout + r.stderr
  finally:
    shutil.rmtree(tmp)


if __name__ == '__main__':
  out = run(sys.argv[1], sys.argv[2], sys.argv[3], sys.argv[4:])
  bad = [l for l in out.splitlines() if not l.startswith('discharged')]
  print('\n'.join(bad))
