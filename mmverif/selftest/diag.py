"""python -m mmverif.selftest.diag <file.smt2>: for an unprovable obligation
show which conjunct of the goal is false in a model of the quantifier-free
hypotheses."""
import sys, z3
from mmverif.engine import backend
fs = list(z3.parse_smt2_string(open(sys.argv[1]).read()))
goal = fs[-1]
qf = [f for f in fs[:-1] if not backend._has_quantifier(f, z3)]
s = z3.Solver(); s.set('timeout', 30000); s.add(qf + [goal])
r = s.check(); print('qf+goal:', r)
if r != z3.sat: sys.exit()
m = s.model()
g = goal
if z3.is_not(g): g = g.arg(0)
conj = g.children() if z3.is_and(g) else [g]
for c in conj:
  v = m.eval(c, model_completion=True)
  print(str(v)[:20], '<=', str(c).replace('\n', ' ')[:400])
