"""Dump the SMT-LIB text of obligations of one function whose name contains a
pattern: python -m mmverif.selftest.dump <module> <qualname> <pattern> <outdir>"""
import os
import sys
from mmverif import prove
from mmverif.engine import driver
mod, qual, pat, out = sys.argv[1:5]
prove.load_sidecar(mod)
u = driver.verify_function(mod, qual)
os.makedirs(out, exist_ok=True)
n = 0
for o in u.obligations:
  if pat in o.name and not o.trivial:
    p = os.path.join(out, 'ob%d.smt2' % n)
    open(p, 'w').write(o.smt2)
    print(p, o.name, len(o.smt2))
    n += 1
