#!/bin/bash
# Textual mutants used to validate the engine: each edit is applied to a scratch
# copy of /repo and one prover target is run against it; every mutant must
# leave a named obligation failed or undecided (never all discharged).
cd /verif
# --- exhaustive_search (C02, C04)
run() { echo "=== $2 -> $3"; .venv/bin/python mmverif/selftest/mutate.py tbrmatchedmarkets "$2" "$3" $1 2>&1 | grep -v "^unit\|^     \|^    model\|z3-simplify\|^discharged" | cut -c1-170 | sort | uniq -c | head -6; }
F=TBRMatchedMarkets.exhaustive_search
run $F "          if (budget_range is not None and (self._constraint_not_satisfied(
              req_budget, budget_range[0], budget_range[1]))):
            continue" "          pass" &
run $F "              copy.deepcopy(diag))
          results.push" "              diag)
          results.push" &
run $F "design_score = TBRMMScore(copy.deepcopy(diag))" "design_score = TBRMMScore(diag)" &
run $F "if xy_share > tol_max or xy_share < tol_min:" "if xy_share > tol_max:" &
run $F "          if (treatment_share > treatment_share_range[1] or
              treatment_share < treatment_share_range[0]):" "          if (treatment_share > treatment_share_range[1]):" &
run $F "design_score.score = score._replace(inv_required_impact=1 / iroas)" "design_score.score = score._replace(inv_required_impact=iroas)" &
wait
# --- TBRMMDiagnostics (C08)
run() { echo "=== $1 -> $2"; .venv/bin/python mmverif/selftest/mutate.py tbrmmdiagnostics "$1" "$2" 2>&1 | grep "^failed\|^undecided\|^ERROR" | cut -c1-150 | sed 's/z3:.*//' | sort | uniq -c | head -4; }
run "    self._aatest = None
    self._bbtest = None" "    self._bbtest = None" &
run "    self._dwtest = None
    self._tests_ok = None" "    self._dwtest = None" &
run "    self._y_mean = y.mean()
    self.x = None" "    self._y_mean = y.mean()" &
run "      self._required_impact = self.estimate_required_impact(self.corr)" "      self._required_impact = self.estimate_required_impact(self._corr or 0.5)" &
run "    self._corr = None
    self._required_impact = None" "    self._required_impact = None" &
run "    if self._aatest is not None:
      return self._aatest" "    if self._aatest is not None and self._bbtest is not None:
      return self._aatest" &
wait
# --- count_max_designs, size generator (C11)
run() { echo "=== $2 -> $3"; .venv/bin/python mmverif/selftest/mutate.py tbrmatchedmarkets "$2" "$3" $1 2>&1 | grep "^failed\|^undecided\|^ERROR" | cut -c1-170 | sed 's/z3:.*//' | sort | uniq -c | head -4; }
run TBRMatchedMarkets.count_max_designs "for i_cctx in range(1 + n_ctx - i_ctx):" "for i_cctx in range(n_ctx - i_ctx):"
run TBRMatchedMarkets.count_max_designs "n_t_fixed = len(self.geo_assignments.t_fixed)" "n_t_fixed = len(self.geo_assignments.x_fixed)"
run TBRMatchedMarkets._control_group_size_generator "if geo_ratio >= geo_tol_min and geo_ratio <= geo_tol_max:" "if geo_ratio > geo_tol_min and geo_ratio <= geo_tol_max:"
run TBRMatchedMarkets.count_max_designs "n_designs += n1 * n2 * n3 * n4 * n5" "n_designs += n1 * n2 * n3 * n5"
run TBRMatchedMarkets.count_max_designs "n_ctl = n_c_fixed + i_cx + i_cctx + (n_ct - i_ct)" "n_ctl = n_c_fixed + i_cx + i_cctx + n_ct"
# --- TBRMMDesignParameters (C17)
run() { echo "=== $1 -> $2"; MMVERIF_NOCACHE=1 .venv/bin/python mmverif/selftest/mutate.py tbrmmdesignparameters "$1" "$2" 2>&1 | grep -v "^unit\|^     \|^    model\|z3-simplify\|^discharged" | cut -c1-200 | head -4; }
run "self._test_value_within_bounds(0.9, '<=', 'rho_max', '<', 1.0)" "self._test_value_within_bounds(0.9, '<=', 'rho_max', '<=', 1.0)" &
run "(value == float('inf') or
                                   int(value) != value)" "(int(value) != value)" &
run "_N_TEST_MIN = 1" "_N_TEST_MIN = 0" &
run "        elif (isinstance(lower, int) and
              (int(lower_range) != lower_range or
               int(upper_range) != upper_range)):" "        elif (isinstance(lower, int) and
              (int(lower_range) != lower_range)):" &
run "('treatment_share_range', '<'), '<', 1.0)" "('treatment_share_range', '<='), '<', 1.0)" &
run "    self._test_value_vs_threshold('geo_ratio_tolerance', '>', 0.0)
" "" &
wait
# --- greedy termination (C09): non-strict hill climb never stops
run() { echo "=== $2 -> $3"; .venv/bin/python mmverif/selftest/mutate.py tbrmatchedmarkets "$2" "$3" $1 2>&1 | grep "^failed\|^undecided\|^ERROR" | cut -c1-170 | sed 's/z3:.*//' | sort | uniq -c | head -4; }
run TBRMatchedMarkets.greedy_search "        if current_score > TBRMMScore(current_design):" "        if not current_score < TBRMMScore(current_design):"
# --- closed forms (C05, C06)
run() { echo "=== $1 -> $2"; .venv/bin/python mmverif/selftest/mutate.py tbrmmdiagnostics "$1" "$2" 2>&1 | grep "^failed\|^undecided\|^ERROR" | cut -c1-150 | sed 's/z3:.*//' | sort | uniq -c | head -4; }
run "phi * (n + 1)" "phi * n"
