import cProfile, pstats, sys
from mmverif import prove
from mmverif.engine import driver
prove.load_sidecar(sys.argv[1])
driver.MAX_PATHS = int(sys.argv[3]) if len(sys.argv) > 3 else 4000
def run():
  try:
    driver.verify_function(sys.argv[1], sys.argv[2])
  except Exception as e:
    print('stopped:', str(e)[:100])
cProfile.run("run()", '/tmp/prof.out')
p = pstats.Stats('/tmp/prof.out'); p.sort_stats('cumulative').print_stats(45)
