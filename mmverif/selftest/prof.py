import cProfile, pstats, sys
from mmverif import prove
from mmverif.engine import driver
prove.load_sidecar(sys.argv[1])
cProfile.run("u = driver.verify_function(sys.argv[1], sys.argv[2])", '/tmp/prof.out')
p = pstats.Stats('/tmp/prof.out'); p.sort_stats('cumulative').print_stats(35)
