#!/bin/bash
# with_patch.sh <patch.diff> <command...>: run a command against a scratch copy
# of /repo with the patch applied (MMVERIF_REPO points at it); the copy is
# removed afterwards.  Used to try seeded changes without touching /repo.
set -u
PATCH=$(readlink -f "$1"); shift
TMP=$(mktemp -d /tmp/mmv_patch_XXXXXX)
trap 'rm -rf "$TMP"' EXIT
mkdir -p "$TMP/repo"
cp -r /repo/matched_markets "$TMP/repo/"
( cd "$TMP/repo" && git init -q . 2>/dev/null && git apply --unsafe-paths "$PATCH" ) || { echo "patch does not apply"; exit 3; }
MMVERIF_REPO="$TMP/repo" "$@"
