import sys
import z3
from mmverif import prove
from mmverif.engine import driver, symexec
prove.load_sidecar(sys.argv[1])
u = driver.verify_function(sys.argv[1], sys.argv[2])
print(u.paths, u.vacuous)
for o in u.path_outcomes: print(' ', o)
