import sys
import z3
from mmverif import prove
from mmverif.engine import driver, symexec
prove.load_sidecar('tbrmatchedmarkets')
orig = symexec.Ctx.branch
def branch(self, cond):
  try:
    return orig(self, cond)
  except symexec.PathEnd as e:
    if e.reason == 'infeasible':
      s = z3.Solver(); s.set('timeout', 20000)
      ps = []
      for i, t in enumerate(self.pc):
        p = z3.Bool('p%d' % i); ps.append(p); s.add(z3.Implies(p, t))
      r = s.check(ps)
      print('pc check', r)
      if r == z3.unsat:
        core = s.unsat_core()
        for c in core:
          i = int(str(c)[1:]); print('CORE', i, str(self.pc[i])[:700]); print()
    raise
symexec.Ctx.branch = branch
u = driver.verify_function('tbrmatchedmarkets', sys.argv[1])
print(u.paths, u.path_outcomes, u.vacuous)
