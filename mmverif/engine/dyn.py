"""Dynamically typed values with IEEE-754 floats (mode F), used for
TBRMMDesignParameters (C17): a field may hold None, a bool, an int of any
size, a binary64 float (incl. +-inf, NaN), a tuple, or something else.

    Scalar = none | int(Int) | flt(Float64) | boo(Bool) | oth(Int)
    Dyn    = sc(Scalar) | tup2(Scalar, Scalar) | tupn(Int)

Python semantics encoded here (stated in the evidence as assumptions):
 * bool is a subclass of int (isinstance(True, int)); True == 1;
 * int/float comparisons are exact (no rounding of the int operand);
 * every comparison with NaN is False (!= is True);
 * int(x): floats truncate toward zero; int(+-inf) raises OverflowError,
   int(NaN) raises ValueError; int(None) raises TypeError;
 * ordering comparisons on None / other objects raise TypeError.
"""
import ast

import z3

from mmverif.engine.values import *  # pylint: disable=wildcard-import

F64 = z3.Float64()
RNE = z3.RNE()
RTZ = z3.RTZ()

Scalar = z3.Datatype('Scalar')
Scalar.declare('none')
Scalar.declare('int', ('ival', z3.IntSort()))
Scalar.declare('flt', ('fval', F64))
Scalar.declare('boo', ('bval', z3.BoolSort()))
Scalar.declare('oth', ('oid', z3.IntSort()))
Scalar = Scalar.create()

Dyn = z3.Datatype('Dyn')
Dyn.declare('sc', ('scalar', Scalar))
Dyn.declare('tup2', ('fst', Scalar), ('snd', Scalar))
Dyn.declare('tupn', ('arity', z3.IntSort()))
Dyn = Dyn.create()


class VFP(V):
  """A Python float with IEEE semantics."""
  kind = 'fp'

  def __init__(self, t):
    if isinstance(t, float):
      t = z3.FPVal(t, F64)
    self.t = t

  def flatten(self):
    return [self.t]

  def __repr__(self):
    return 'FP(%s)' % self.t


class VScalar(V):
  kind = 'scalar'

  def __init__(self, t):
    self.t = t

  def flatten(self):
    return [self.t]

  def isinstance_term(self, names):
    ts = []
    for n in names:
      if n == 'int':
        ts.append(z3.Or(Scalar.is_int(self.t), Scalar.is_boo(self.t)))
      elif n == 'float':
        ts.append(Scalar.is_flt(self.t))
      elif n == 'bool':
        ts.append(Scalar.is_boo(self.t))
      else:
        ts.append(z3.BoolVal(False))
    return z3.Or(ts) if ts else z3.BoolVal(False)

  def __repr__(self):
    return 'Scalar(%s)' % self.t


class VDyn(V):
  kind = 'dyn'

  def __init__(self, t):
    self.t = t

  def flatten(self):
    return [self.t]

  def isinstance_term(self, names):
    ts = []
    for n in names:
      if n == 'tuple':
        ts.append(z3.Or(Dyn.is_tup2(self.t), Dyn.is_tupn(self.t)))
      else:
        ts.append(z3.And(Dyn.is_sc(self.t),
                         VScalar(Dyn.scalar(self.t)).isinstance_term([n])))
    return z3.Or(ts) if ts else z3.BoolVal(False)

  def __repr__(self):
    return 'Dyn(%s)' % self.t


class TDyn(Shape):

  def fresh(self, ctx, name):
    d = z3.Const(ctx.sym(name), Dyn)
    ctx.assume(z3.Implies(Dyn.is_tupn(d), z3.And(Dyn.arity(d) >= 0,
                                                 Dyn.arity(d) != 2)))
    return VDyn(d)


def scalar_of(v):
  """Scalar term of a value (VDyn known to be scalar, VScalar, numbers)."""
  if isinstance(v, VScalar):
    return v.t
  if isinstance(v, VDyn):
    return Dyn.scalar(v.t)
  if isinstance(v, VBool):
    return Scalar.boo(v.t)
  if isinstance(v, VInt):
    return Scalar.int(v.t)
  if isinstance(v, VFP):
    return Scalar.flt(v.t)
  if isinstance(v, VNone):
    return Scalar.none
  raise EngineError('not a scalar: %r' % (v,))


def is_none(v):
  if isinstance(v, VDyn):
    return z3.And(Dyn.is_sc(v.t), Scalar.is_none(Dyn.scalar(v.t)))
  if isinstance(v, VScalar):
    return Scalar.is_none(v.t)
  return None


def is_numeric_term(s):
  return z3.Or(Scalar.is_int(s), Scalar.is_flt(s), Scalar.is_boo(s))


def int_of(s):
  """Integer value of an int/bool scalar."""
  return z3.If(Scalar.is_boo(s), z3.If(Scalar.bval(s), 1, 0), Scalar.ival(s))


def _cmp_real(op, a, b):
  return {'<': a < b, '<=': a <= b, '>': a > b, '>=': a >= b, '==': a == b,
          '!=': a != b}[op]


def _cmp_fp(op, a, b):
  return {'<': z3.fpLT(a, b), '<=': z3.fpLEQ(a, b), '>': z3.fpGT(a, b),
          '>=': z3.fpGEQ(a, b), '==': z3.fpEQ(a, b),
          '!=': z3.Not(z3.fpEQ(a, b))}[op]


def fp_vs_real(op, f, r):
  """Exact comparison of a float with a rational/integer (Python semantics)."""
  fin = z3.And(z3.Not(z3.fpIsNaN(f)), z3.Not(z3.fpIsInf(f)))
  fr = z3.fpToReal(f)
  pinf = z3.And(z3.fpIsInf(f), z3.fpIsPositive(f))
  ninf = z3.And(z3.fpIsInf(f), z3.fpIsNegative(f))
  if op == '==':
    return z3.And(fin, fr == r)
  if op == '!=':
    return z3.Not(z3.And(fin, fr == r))
  lt_like = op in ('<', '<=')
  return z3.If(z3.fpIsNaN(f), z3.BoolVal(False),
               z3.If(pinf, z3.BoolVal(not lt_like),
                     z3.If(ninf, z3.BoolVal(lt_like), _cmp_real(op, fr, r))))


_FLIP = {'<': '>', '<=': '>=', '>': '<', '>=': '<=', '==': '==', '!=': '!='}


def compare(ex, op, a, b, node):
  """Python comparison `a op b` with a, b scalars/numbers; returns z3 Bool.
  Ordering on non-numeric operands raises TypeError (safety obligation)."""
  sa, sb = scalar_of(a), scalar_of(b)
  # int(x) == x / int(x) != x: decided inside the FP theory
  for p, q in ((a, sb), (b, sa)):
    src = getattr(p, 'trunc_of', None)
    if src is not None and op in ('==', '!=') and src.eq(q):
      t = is_integral(src)
      return t if op == '==' else z3.Not(t)
  if op in ('<', '<=', '>', '>='):
    ex.safety(z3.And(is_numeric_term(sa), is_numeric_term(sb)), 'TypeError',
              node, 'ordering comparison of non-numbers')
  a_int = z3.Or(Scalar.is_int(sa), Scalar.is_boo(sa))
  b_int = z3.Or(Scalar.is_int(sb), Scalar.is_boo(sb))
  ia, ib = int_of(sa), int_of(sb)
  fa, fb = Scalar.fval(sa), Scalar.fval(sb)
  both_num = z3.And(is_numeric_term(sa), is_numeric_term(sb))
  num = z3.If(
      z3.And(a_int, b_int), _cmp_real(op, ia, ib),
      z3.If(z3.And(a_int, Scalar.is_flt(sb)),
            fp_vs_real(_FLIP[op], fb, z3.ToReal(ia)),
            z3.If(z3.And(Scalar.is_flt(sa), b_int),
                  fp_vs_real(op, fa, z3.ToReal(ib)),
                  _cmp_fp(op, fa, fb))))
  if op == '==':
    return z3.If(both_num, num, sa == sb)
  if op == '!=':
    return z3.If(both_num, num, sa != sb)
  return num


def py_int(ex, v, node):
  """int(v) for a scalar: may raise TypeError / OverflowError / ValueError."""
  from mmverif.engine.symexec import RaiseSig
  s = scalar_of(v)
  ex.safety(is_numeric_term(s), 'TypeError', node, 'int() of a non-number')
  f = Scalar.fval(s)
  is_f = Scalar.is_flt(s)
  ex.safety(z3.Not(z3.And(is_f, z3.fpIsInf(f))), 'OverflowError', node,
            'int() of an infinite float')
  if ex.ctx.branch(z3.And(is_f, z3.fpIsNaN(f))):
    raise RaiseSig('ValueError', 'int(nan)')
  out = VInt(trunc_int(s))
  out.trunc_of = s       # provenance: int() of this scalar (see compare)
  return out


def trunc_int(s):
  """Value of int(s) for a numeric scalar s (finite if a float)."""
  f = Scalar.fval(s)
  tr = z3.ToInt(z3.fpToReal(z3.fpRoundToIntegral(RTZ, f)))
  return z3.If(Scalar.is_flt(s), tr, int_of(s))


def is_integral(s):
  """int(s) == s for a numeric scalar (finite if a float), inside the FP
  theory: a float equals its truncation iff rounding toward zero is exact."""
  f = Scalar.fval(s)
  return z3.If(Scalar.is_flt(s), z3.fpEQ(z3.fpRoundToIntegral(RTZ, f), f),
               z3.BoolVal(True))


_OPS = {ast.Lt: '<', ast.LtE: '<=', ast.Gt: '>', ast.GtE: '>=', ast.Eq: '==',
        ast.NotEq: '!='}


def hook_compare(ex, op, a, b, node):
  """Called by Exec.compare when an operand is a VDyn/VScalar/VFP."""
  if isinstance(op, (ast.Is, ast.IsNot)):
    none_a = isinstance(a, VNone)
    none_b = isinstance(b, VNone)
    if none_b and is_none(a) is not None:
      t = is_none(a)
    elif none_a and is_none(b) is not None:
      t = is_none(b)
    elif isinstance(a, VFP) or isinstance(b, VFP):
      # identity of float objects: a freshly built float is a new object
      t = z3.BoolVal(False)
    else:
      ex.unsupported(node, 'is on dynamic values')
    return VBool(z3.Not(t) if isinstance(op, ast.IsNot) else t)
  if type(op) not in _OPS:
    ex.unsupported(node, 'operator on dynamic values')
  for v in (a, b):
    if isinstance(v, VDyn):
      ex.safety(Dyn.is_sc(v.t), 'TypeError', node,
                'comparison of a tuple with a number')
  return VBool(compare(ex, _OPS[type(op)], a, b, node))


def operator_fn(name):
  """operator.gt etc. as engine callables on scalars."""
  op = {'gt': '>', 'lt': '<', 'ge': '>=', 'le': '<='}[name]

  def call(ex, args, kwargs, node):
    a, b = args
    for v in (a, b):
      if isinstance(v, VDyn):
        ex.safety(Dyn.is_sc(v.t), 'TypeError', node,
                  'comparison of a tuple with a number')
    return VBool(compare(ex, op, a, b, node))
  return call
