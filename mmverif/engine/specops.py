"""Operators for contract clauses.

Every function works on symbolic values (returning V objects / z3 terms) and,
where it makes sense, on plain Python values (so the same clause can be
evaluated by a run-time monitor).
"""
import z3

from mmverif.engine import cardlemmas
from mmverif.engine.symexec import ObjView, unwrap
from mmverif.engine.values import *  # pylint: disable=wildcard-import


def _sym(*xs):
  return any(isinstance(x, (V, ObjView, z3.ExprRef)) for x in xs)


def B(x):
  """z3 Bool of a clause value."""
  if isinstance(x, z3.ExprRef):
    return x
  if isinstance(x, bool):
    return z3.BoolVal(x)
  return as_bool_term(unwrap(x))


def N(x):
  """z3 arithmetic term of a clause value."""
  if isinstance(x, z3.ExprRef):
    return x
  if isinstance(x, bool):
    return z3.IntVal(int(x))
  if isinstance(x, int):
    return z3.IntVal(x)
  if isinstance(x, float):
    return z3.RealVal(repr(x))
  x = unwrap(x)
  if isinstance(x, VOpt):
    x = x.val
  return num_term(x)


def S(x):
  """z3 set term."""
  if isinstance(x, z3.ExprRef):
    return x
  x = unwrap(x)
  if isinstance(x, VOpt):
    x = x.val
  if isinstance(x, VSet):
    return x.t
  if isinstance(x, VSeq) and x.elems is not None:
    return x.elems
  raise EngineError('not a set: %r' % (x,))


def _arith(a, b, f):
  ta, tb = N(a), N(b)
  if ta.sort() != tb.sort():
    if ta.sort() == z3.IntSort():
      ta = z3.ToReal(ta)
    if tb.sort() == z3.IntSort():
      tb = z3.ToReal(tb)
  return f(ta, tb)


def And(*xs):
  if not _sym(*xs):
    return all(xs)
  return z3.And([B(x) for x in xs]) if xs else z3.BoolVal(True)


def Or(*xs):
  if not _sym(*xs):
    return any(xs)
  return z3.Or([B(x) for x in xs]) if xs else z3.BoolVal(False)


def Not(x):
  if not _sym(x):
    return not x
  return z3.Not(B(x))


def Implies(a, b):
  if not _sym(a, b):
    return (not a) or b
  return z3.Implies(B(a), B(b))


def Iff(a, b):
  if not _sym(a, b):
    return bool(a) == bool(b)
  return B(a) == B(b)


def Ite(c, a, b):
  if not _sym(c, a, b):
    return a if c else b
  ta = a if isinstance(a, z3.ExprRef) else (S(a) if isinstance(
      unwrap(a), VSet) else N(a))
  tb = b if isinstance(b, z3.ExprRef) else (S(b) if isinstance(
      unwrap(b), VSet) else N(b))
  if ta.sort() != tb.sort():
    if ta.sort() == z3.IntSort():
      ta = z3.ToReal(ta)
    if tb.sort() == z3.IntSort():
      tb = z3.ToReal(tb)
  return z3.If(B(c), ta, tb)


def Eq(a, b):
  if not _sym(a, b):
    return a == b
  if isinstance(a, z3.ExprRef) or isinstance(b, z3.ExprRef):
    ta = a if isinstance(a, z3.ExprRef) else _term(a)
    tb = b if isinstance(b, z3.ExprRef) else _term(b)
    if ta.sort() != tb.sort():
      if ta.sort() == z3.IntSort():
        ta = z3.ToReal(ta)
      if tb.sort() == z3.IntSort():
        tb = z3.ToReal(tb)
    return ta == tb
  a, b = _lift(a), _lift(b)
  return eq_term(unwrap(a), unwrap(b))


def _lift(x):
  if isinstance(x, bool):
    return VBool(x)
  if isinstance(x, int):
    return VInt(x)
  if isinstance(x, float):
    return VReal(x)
  if x is None:
    return NONE
  return x


def _term(x):
  x = unwrap(_lift(x))
  if isinstance(x, VOpt):
    x = x.val
  if isinstance(x, (VInt, VReal, VSet, VOpaque)):
    return x.t
  if isinstance(x, VBool):
    return x.t
  raise EngineError('no single term for %r' % (x,))


def Ne(a, b):
  return Not(Eq(a, b))


def Le(a, b):
  if not _sym(a, b):
    return a <= b
  return _arith(a, b, lambda x, y: x <= y)


def Lt(a, b):
  if not _sym(a, b):
    return a < b
  return _arith(a, b, lambda x, y: x < y)


def Ge(a, b):
  return Le(b, a)


def Gt(a, b):
  return Lt(b, a)


def Add(a, b):
  if not _sym(a, b):
    return a + b
  return _arith(a, b, lambda x, y: x + y)


def Sub(a, b):
  if not _sym(a, b):
    return a - b
  return _arith(a, b, lambda x, y: x - y)


def Mul(a, b):
  if not _sym(a, b):
    return a * b
  return _arith(a, b, lambda x, y: x * y)


def Div(a, b):
  if not _sym(a, b):
    return a / b
  ta, tb = N(a), N(b)
  if ta.sort() == z3.IntSort():
    ta = z3.ToReal(ta)
  if tb.sort() == z3.IntSort():
    tb = z3.ToReal(tb)
  return ta / tb


def Max(a, b):
  if not _sym(a, b):
    return max(a, b)
  return _arith(a, b, lambda x, y: z3.If(x >= y, x, y))


def Min(a, b):
  if not _sym(a, b):
    return min(a, b)
  return _arith(a, b, lambda x, y: z3.If(x <= y, x, y))


def IsNone(x):
  if not _sym(x):
    return x is None
  return is_none_term(unwrap(x))


def Val(x):
  """Payload of an Optional value."""
  x = unwrap(x)
  if isinstance(x, VOpt):
    return x.val
  return x


def Item(x, i):
  x = Val(x)
  if isinstance(x, VTuple):
    return x.items[i]
  return x[i]


def Subset(a, b):
  if not _sym(a, b):
    return set(a) <= set(b)
  return z3.IsSubset(S(a), S(b))


def Union(*xs):
  if not _sym(*xs):
    out = set()
    for x in xs:
      out |= set(x)
    return out
  ts = [S(x) for x in xs]
  r = ts[0]
  for t in ts[1:]:
    r = z3.SetUnion(r, t)
  return r


def Inter(a, b):
  if not _sym(a, b):
    return set(a) & set(b)
  return z3.SetIntersect(S(a), S(b))


def Diff(a, b):
  if not _sym(a, b):
    return set(a) - set(b)
  return z3.SetDifference(S(a), S(b))


def Member(x, s):
  if not _sym(x, s):
    return x in s
  st = S(s)
  xt = x if isinstance(x, z3.ExprRef) else _term(x)
  return z3.IsMember(xt, st)


def Empty(esort=None):
  return z3.EmptySet(esort if esort is not None else z3.IntSort())


def IsEmpty(s):
  if not _sym(s):
    return len(s) == 0
  st = S(s)
  return st == z3.EmptySet(st.sort().domain())


def Disjoint(a, b):
  if not _sym(a, b):
    return not set(a) & set(b)
  sa = S(a)
  return z3.SetIntersect(sa, S(b)) == z3.EmptySet(sa.sort().domain())


def Card(s):
  if not _sym(s):
    return len(s)
  return cardlemmas.card(S(s))


def SetEq(a, b):
  if not _sym(a, b):
    return set(a) == set(b)
  return S(a) == S(b)


def ForAll(sorts, fn, names=None):
  """ForAll([IntSort(), ...], lambda i, j: ...)."""
  if not isinstance(sorts, (list, tuple)):
    sorts = [sorts]
  vs = [z3.Const('%s!q%d' % ((names or ['q'] * len(sorts))[i], _qid()), s)
        for i, s in enumerate(sorts)]
  return z3.ForAll(vs, B(fn(*vs)))


def Exists(sorts, fn):
  if not isinstance(sorts, (list, tuple)):
    sorts = [sorts]
  vs = [z3.Const('x!q%d' % _qid(), s) for s in sorts]
  return z3.Exists(vs, B(fn(*vs)))


_Q = [0]


def _qid():
  _Q[0] += 1
  return _Q[0]


def IntRangeSet(lo, hi):
  """{i | lo <= i < hi} as a z3 set (named term with instantiated axioms)."""
  return cardlemmas.range_set(N(lo), N(hi))


def T(*xs):
  return z3.BoolVal(True)
