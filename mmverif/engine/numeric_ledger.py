"""TRUSTED numeric ledger: NumPy / SciPy calls as deterministic uninterpreted
functions of their arguments (floats are reals; no NaN propagation is
modelled, `numpy.isnan` is an uninterpreted predicate).  Used where only
determinism matters (C08) and as the opaque layer under the searches."""
import ast

import z3

from mmverif.engine.lib import ASSUMPTIONS, L, M, lib, uf, vmethod
from mmverif.engine.symexec import WORLD, PathEnd, RaiseSig
from mmverif.engine.values import *  # pylint: disable=wildcard-import

Arr = sort_named('Arr')
R = z3.RealSort()
I = z3.IntSort()
NPR = TReal(np=True)

ASSUMPTIONS.append('NumPy / SciPy functions are deterministic functions of '
                   'their arguments (uninterpreted), floats are reals')


def arr(t):
  return VOpaque(t, 'Arr')


def npr(t):
  return VReal(t, np=True)


def _flat(args, kwargs):
  out = list(args)
  for k in sorted(kwargs):
    out.append(kwargs[k])
  return out


def _is_arr(v):
  return isinstance(v, VOpaque) and v.okind == 'Arr'


def _enc(v):
  """Flatten an argument for a UF (None -> a flag)."""
  if isinstance(v, VNone):
    return [z3.BoolVal(True)]
  if isinstance(v, VOpt):
    return [v.none] + v.val.flatten()
  return v.flatten()


def gen(name, result):
  """Register dotted name as a UF with a fixed result kind."""
  def h(ex, args, kwargs, node):
    ts = []
    for a in _flat(args, kwargs):
      if isinstance(a, (VOpt, VNone)) and not isinstance(a, VNone):
        a = ex.need_not_none(a, node, 'argument of %s' % name)
      ts.extend(_enc(a))
    if result == 'arr':
      return arr(uf(name, ts, Arr))
    if result == 'real':
      return npr(uf(name, ts, R))
    if result == 'same':
      a0 = args[0]
      return arr(uf(name + '_arr', ts, Arr)) if _is_arr(a0) else npr(
          uf(name, ts, R))
    if result == 'bool':
      return VBool(uf(name, ts, z3.BoolSort()))
    raise EngineError('bad ledger kind')
  L[name] = h


for _n, _k in [('numpy.sqrt', 'same'), ('numpy.std', 'real'),
               ('numpy.var', 'real'), ('numpy.sum', 'real'),
               ('numpy.mean', 'real'), ('numpy.cumsum', 'arr'),
               ('numpy.arange', 'arr'), ('numpy.isnan', 'bool'),
               ('numpy.abs', 'same'), ('numpy.log10', 'same'),
               ('numpy.floor', 'same'),
               ('scipy.stats.t.ppf', 'real'), ('scipy.stats.t.cdf', 'real')]:
  gen(_n, _k)


def _np_array(ex, args, kwargs, node):
  v = args[0]
  if hasattr(v, 'labels') and v.kind == 'series':
    from mmverif.engine import pandas_ledger
    return pandas_ledger.VShareArray(v.labels)
  if isinstance(v, (VOpt, VNone)):
    v = ex.need_not_none(v, node, 'argument of numpy.array')
  if _is_arr(v):
    # numpy.array of a 1-d float array: an equal array
    return v
  if isinstance(v, (VSeq, VRange)):
    n = v.length if isinstance(v, VSeq) else z3.If(v.hi > v.lo, v.hi - v.lo, 0)
    a = z3.Const(ex.ctx.sym('arr_of_list'), Arr)
    ex.ctx.assume(z3.Function('len_Arr', Arr, I)(a) == n)
    ex.ctx.assume(z3.Function('ndim_Arr', Arr, I)(a) == 1)
    return arr(a)
  ex.unsupported(node, 'numpy.array of %s' % v.kind)


L['numpy.array'] = _np_array
ASSUMPTIONS.append('numpy.array(a) of a 1-d float array equals a')
ASSUMPTIONS.append('a[lo:hi] of a 1-d array has Python slice length and is 1-d')


@lib('numpy.nan')
def _nan(ex, args, kwargs, node):
  return npr(uf('numpy.nan', [], R))


def _attr(okind, name):
  def deco(f):
    WORLD.attr_handlers[(okind, name)] = f
    return f
  return deco


@_attr('Arr', 'ndim')
def _ndim(ex, recv, node):
  return VInt(uf('ndim_Arr', [recv], I))


@vmethod('opaque:Arr', 'mean')
def _arr_mean(ex, recv, args, kwargs, node):
  return npr(uf('mean_Arr', [recv], R))


@vmethod('opaque:Arr', 'sum')
def _arr_sum(ex, recv, args, kwargs, node):
  return npr(uf('sum_Arr', [recv], R))


@vmethod('opaque:Arr', 'std')
def _arr_std(ex, recv, args, kwargs, node):
  return npr(uf('std_Arr', [recv] + _flat(args, kwargs), R))


@vmethod('opaque:Arr', 'tolist')
def _arr_tolist(ex, recv, args, kwargs, node):
  return recv


# numpy.corrcoef(x, y)[0, 1]
@lib('numpy.corrcoef')
def _corrcoef(ex, args, kwargs, node):
  x = ex.need_not_none(args[0], node, 'corrcoef x')
  y = ex.need_not_none(args[1], node, 'corrcoef y')
  return VOpaque(uf('corrcoef', [x, y], sort_named('Mat')), 'Mat')


# scipy.stats.f(dfn=, dfd=).ppf(q)
@lib('scipy.stats.f')
def _stats_f(ex, args, kwargs, node):
  ts = []
  named = list(args)
  for k in ('dfn', 'dfd'):
    if k in kwargs:
      named.append(kwargs[k])
  for a in named:
    ts.extend(_enc(a))
  return VOpaque(uf('stats_f', ts, sort_named('Dist')), 'Dist')


@vmethod('opaque:Dist', 'ppf')
def _dist_ppf(ex, recv, args, kwargs, node):
  return npr(uf('dist_ppf', [recv] + list(args), R))


@lib('scipy.stats.linregress',
     'linregress(x, y) either raises ValueError or returns (slope, intercept, '
     'r, p, stderr); which one is a deterministic function of (x, y)')
def _linregress(ex, args, kwargs, node):
  x = ex.need_not_none(args[0], node, 'linregress x')
  y = ex.need_not_none(args[1], node, 'linregress y')
  if ex.ctx.branch(uf('linregress_raises', [x, y], z3.BoolSort())):
    raise RaiseSig('ValueError', 'linregress')
  return VTuple([npr(uf('linregress_%d' % i, [x, y], R)) for i in range(5)])


# generic opaque operations -------------------------------------------------


def _op_name(op):
  return type(op).__name__


def _binop(opname):
  def h(ex, args, kwargs, node):
    a, b = args
    ts = _enc(a) + _enc(b)
    tag = ('A' if _is_arr(a) else 'S') + ('A' if _is_arr(b) else 'S')
    return arr(uf('arr_%s_%s' % (opname, tag), ts, Arr))
  return h


for _o in ('Add', 'Sub', 'Mult', 'Div', 'Pow', 'Mod', 'FloorDiv'):
  L['numpy.binop.' + _o] = _binop(_o)


def _cmp(opname):
  def h(ex, args, kwargs, node):
    a, b = args
    ts = _enc(a) + _enc(b)
    return VOpaque(uf('arr_cmp_%s' % opname, ts, sort_named('BoolArr')),
                   'BoolArr')
  return h


for _o in ('Lt', 'LtE', 'Gt', 'GtE', 'Eq', 'NotEq'):
  L['numpy.cmp.' + _o] = _cmp(_o)


@lib('numpy.negative')
def _neg(ex, args, kwargs, node):
  return arr(uf('arr_neg', _enc(args[0]), Arr))


@lib('opaque.slice')
def _slice(ex, args, kwargs, node):
  recv, lo, hi = args
  if not _is_arr(recv):
    ex.unsupported(node, 'slice of %s' % recv.okind)
  out = uf('arr_slice', _enc(recv) + _enc(lo) + _enc(hi), Arr)
  ln = z3.Function('len_Arr', Arr, I)
  nd = z3.Function('ndim_Arr', Arr, I)
  n = ln(recv.t)

  def norm(b, default):
    if isinstance(b, VNone):
      return default
    if isinstance(b, VOpt):
      b = ex.need_not_none(b, node, 'slice bound')
    t = num_term(b)
    t = z3.If(t < 0, t + n, t)
    return z3.If(t < 0, 0, z3.If(t > n, n, t))

  a, b = norm(lo, z3.IntVal(0)), norm(hi, n)
  ex.ctx.assume(ln(out) == z3.If(b > a, b - a, 0))
  ex.ctx.assume(nd(out) == nd(recv.t))
  return arr(out)


@lib('opaque.getitem')
def _getitem(ex, args, kwargs, node):
  recv, idx = args
  if recv.okind == 'Mat' and isinstance(idx, VTuple):
    return npr(uf('mat_item', [recv] + idx.items, R))
  if recv.okind == 'Arr' and isinstance(idx, (VInt, VBool)):
    return npr(uf('arr_item', [recv, idx], R))
  ex.unsupported(node, 'subscript of %s' % recv.okind)


def _abs_arr():
  pass
