"""TRUSTED contracts of the standard library / third-party calls.

Everything here is an assumption about code outside the repository.  Each
entry registers a one-line description in lib.ASSUMPTIONS; the evidence files
list them under trusted_base.
"""
import z3

from mmverif.engine import cardlemmas
from mmverif.engine import loops as loopmod
from mmverif.engine.lib import (ASSUMPTIONS, L, M, lib, uf, vmethod, builtin,
                                to_set)
from mmverif.engine.symexec import (WORLD, Exec, PathEnd, elem_term,
                                    term_value)
from mmverif.engine.values import *  # pylint: disable=wildcard-import

# ---------------------------------------------------------------------------
# list heap: lists that are stored in symbolic-key dictionaries are references
# (ints) into per-path arrays  bag : ref -> (Item -> count),  len : ref -> int,
# desc : ref -> bool (known to be sorted in descending order).

BagSort = z3.ArraySort(ItemSort, z3.IntSort())
lt = z3.Function('lt', ItemSort, ItemSort, z3.BoolSort())


def lt_axioms():
  """Strict weak order used by heapq (no NaN among the items)."""
  a, b, c = z3.Consts('a b c', ItemSort)
  return [
      z3.ForAll([a], z3.Not(lt(a, a))),
      z3.ForAll([a, b, c], z3.Implies(z3.And(lt(a, b), lt(b, c)), lt(a, c))),
      z3.ForAll([a, b, c], z3.Implies(
          z3.And(z3.Not(lt(a, b)), z3.Not(lt(b, c))), z3.Not(lt(a, c)))),
  ]


ASSUMPTIONS.append('items pushed into a heap are ordered by a strict weak '
                   'order lt (irreflexive, transitive, transitive '
                   'incomparability): no NaN scores')


ITEM_HOOKS = {'lift': None, 'reflect': None}
ITEM_HOOKS_BY_MODULE = {}      # module short name -> {'lift':..., 'reflect':...}


def item_hook(ctx, which):
  mod = getattr(ctx.unit, 'modname', None)
  h = ITEM_HOOKS_BY_MODULE.get(mod)
  if h is not None:
    return h.get(which)
  return ITEM_HOOKS.get(which)


class VListRef(V):
  kind = 'listref'

  def __init__(self, ref):
    self.ref = ref

  def flatten(self):
    return [self.ref]

  def py_iter(self, ex, node):
    """Iterate a list of heap items: the k-th element is some item of the
    list's bag; the sidecar's `lift` hook turns it into an object view."""
    h = lheap(ex.ctx)
    ref = self.ref
    bag = z3.Select(h['bag'], ref)
    lift = item_hook(ex.ctx, 'lift')
    if lift is None:
      ex.unsupported(node, 'iteration over a list of abstract items')

    def elem(c, k):
      it = z3.Const(c.sym('item'), ItemSort)
      c.assume(z3.Select(bag, it) >= 1)
      return lift(c, it)

    return loopmod.VIter(z3.Select(h['len'], ref), elem)

  def __repr__(self):
    return 'ListRef(%s)' % self.ref


class VDDL(V):
  """dict / defaultdict(list) whose values are list references."""
  kind = 'ddl'

  def __init__(self, dom, ref, default_list):
    self.dom = dom
    self.ref = ref
    self.default_list = default_list

  def flatten(self):
    return [self.dom, self.ref]

  def clone(self):
    return VDDL(self.dom, self.ref, self.default_list)

  def same_as(self, other):
    return self.dom.eq(other.dom) and self.ref.eq(other.ref)

  def shape(self):
    return TDDL(self.default_list)


class TDDL(Shape):

  def __init__(self, default_list=True):
    self.default_list = default_list

  def empty(self, ctx):
    return VDDL(z3.EmptySet(KeySort),
                z3.Const(ctx.sym('d0.ref'), z3.ArraySort(KeySort, z3.IntSort())),
                self.default_list)

  def fresh(self, ctx, name):
    return VDDL(z3.Const(ctx.sym(name + '.dom'), z3.SetSort(KeySort)),
                z3.Const(ctx.sym(name + '.ref'),
                         z3.ArraySort(KeySort, z3.IntSort())),
                self.default_list)


def lheap(ctx):
  if getattr(ctx, '_lheap', None) is None:
    n = ctx.sym('lheap')
    ctx._lheap = {
        'bag': z3.Const(n + '.bag', z3.ArraySort(z3.IntSort(), BagSort)),
        'len': z3.Const(n + '.len', z3.ArraySort(z3.IntSort(), z3.IntSort())),
        'desc': z3.Const(n + '.desc', z3.ArraySort(z3.IntSort(),
                                                   z3.BoolSort())),
        # heap[r]: the list satisfies the heapq order invariant
        'heap': z3.Const(n + '.heap', z3.ArraySort(z3.IntSort(),
                                                   z3.BoolSort())),
        'alloc': z3.Int(n + '.alloc'),
    }
    ctx._lheap_entry = dict(ctx._lheap)
  return ctx._lheap


def empty_bag():
  return z3.K(ItemSort, z3.IntVal(0))


def item_term(v):
  if isinstance(v, VOpaque) and v.t.sort() == ItemSort:
    return v.t
  if isinstance(v, VObj):
    return z3.Function('item_of_obj', z3.IntSort(), ItemSort)(z3.IntVal(v.oid))
  raise EngineError('not a heap item: %r' % (v,))


@lib('collections.defaultdict',
     'defaultdict(list)[k] on a missing key inserts a new empty list object')
def _defaultdict(ex, args, kwargs, node):
  ctx = ex.ctx
  return VDDL(z3.EmptySet(KeySort),
              z3.Const(ctx.sym('dd.ref'), z3.ArraySort(KeySort, z3.IntSort())),
              True)


def ddl_getitem(ex, recv, idx, node):
  ctx = ex.ctx
  h = lheap(ctx)
  k = elem_term(idx, KeySort)
  if ctx.branch(z3.IsMember(k, recv.dom)):
    return VListRef(z3.Select(recv.ref, k))
  if not recv.default_list:
    ex.safety(z3.BoolVal(False), 'KeyError', node, 'dict key')
    raise PathEnd('key error')
  r = h['alloc']
  h['alloc'] = r + 1
  h['bag'] = z3.Store(h['bag'], r, empty_bag())
  h['len'] = z3.Store(h['len'], r, z3.IntVal(0))
  h['desc'] = z3.Store(h['desc'], r, z3.BoolVal(True))
  h['heap'] = z3.Store(h['heap'], r, z3.BoolVal(True))   # [] is a heap
  recv.dom = z3.SetAdd(recv.dom, k)
  recv.ref = z3.Store(recv.ref, k, r)
  recv.dirty = True
  return VListRef(r)


def ddl_setitem(ex, recv, idx, v, node):
  if not isinstance(v, VListRef):
    ex.unsupported(node, 'storing %s into a dict of lists' % v.kind)
  k = elem_term(idx, KeySort)
  recv.dom = z3.SetAdd(recv.dom, k)
  recv.ref = z3.Store(recv.ref, k, v.ref)
  recv.dirty = True
  return None


L[('store.subscript', 'ddl')] = ddl_setitem


@vmethod('ddl', 'items')
def _ddl_items(ex, recv, args, kwargs, node):
  dom, ref = recv.dom, recv.ref

  def elem(c, k):
    e = z3.Const(c.sym('key'), KeySort)
    c.assume(z3.IsMember(e, dom))
    return VTuple([VOpaque(e, 'Key'), VListRef(z3.Select(ref, e))])

  return loopmod.VIter(cardlemmas.card(dom), elem, visited_sort=KeySort,
                       distinct=True, whole=dom,
                       to_term=lambda v: v.items[0].t)


def _need_heap(ex, h, q, node, what):
  ex.ctx.oblige(z3.Select(h['heap'], q.ref),
                '%s: the list is a heap (heapq order invariant)' % what, 'pre',
                ('C14', 'C03'))
  ex.ctx.assume(z3.Select(h['heap'], q.ref))


@lib('heapq.heappush', 'heappush(h, x) on a heap h: bag(h) gains x, len(h) '
     'grows by one, h stays a heap')
def _heappush(ex, args, kwargs, node):
  h = lheap(ex.ctx)
  q, item = args
  if not isinstance(q, VListRef):
    ex.unsupported(node, 'heappush on %s' % q.kind)
  _need_heap(ex, h, q, node, 'heappush')
  x = item_term(item)
  b = z3.Select(h['bag'], q.ref)
  h['bag'] = z3.Store(h['bag'], q.ref, z3.Store(b, x, z3.Select(b, x) + 1))
  h['len'] = z3.Store(h['len'], q.ref, z3.Select(h['len'], q.ref) + 1)
  h['desc'] = z3.Store(h['desc'], q.ref, z3.BoolVal(False))
  return NONE


@lib('heapq.heappushpop',
     'heappushpop(h, x) on a heap h: returns some m of bag(h)+{x} with no '
     'element lt m, leaves bag(h)+{x}-{m}; len(h) unchanged')
def _heappushpop(ex, args, kwargs, node):
  ctx = ex.ctx
  h = lheap(ctx)
  q, item = args
  if not isinstance(q, VListRef):
    ex.unsupported(node, 'heappushpop on %s' % q.kind)
  _need_heap(ex, h, q, node, 'heappushpop')
  x = item_term(item)
  b = z3.Select(h['bag'], q.ref)
  b1 = z3.Store(b, x, z3.Select(b, x) + 1)
  m = z3.Const(ctx.sym('popped'), ItemSort)
  e = z3.Const(ctx.sym('e'), ItemSort)
  ctx.assume(z3.Select(b1, m) >= 1)
  ctx.assume(z3.ForAll([e], z3.Implies(z3.Select(b1, e) >= 1,
                                       z3.Not(lt(e, m)))))
  h['bag'] = z3.Store(h['bag'], q.ref, z3.Store(b1, m, z3.Select(b1, m) - 1))
  h['desc'] = z3.Store(h['desc'], q.ref, z3.BoolVal(False))
  return VOpaque(m, 'Item')


@lib('heapq.nlargest',
     'nlargest(len(h), h): a new list with the same bag as h in descending '
     'order; h unchanged')
def _nlargest(ex, args, kwargs, node):
  ctx = ex.ctx
  h = lheap(ctx)
  n, q = args
  if not isinstance(q, VListRef):
    ex.unsupported(node, 'nlargest on %s' % q.kind)
  ctx.oblige(num_term(n) == z3.Select(h['len'], q.ref),
             'heapq.nlargest takes the whole queue (n == len(q))', 'pre',
             ('C14', 'C03'))
  r = h['alloc']
  h['alloc'] = r + 1
  h['bag'] = z3.Store(h['bag'], r, z3.Select(h['bag'], q.ref))
  h['len'] = z3.Store(h['len'], r, z3.Select(h['len'], q.ref))
  h['desc'] = z3.Store(h['desc'], r, z3.BoolVal(True))
  h['heap'] = z3.Store(h['heap'], r, z3.Select(h['len'], q.ref) <= 1)
  return VListRef(r)


def sorted_copy(ex, q, descending):
  """sorted(q, reverse=descending) for a tracked list."""
  h = lheap(ex.ctx)
  r = h['alloc']
  one = z3.Select(h['len'], q.ref) <= 1
  h['alloc'] = r + 1
  h['bag'] = z3.Store(h['bag'], r, z3.Select(h['bag'], q.ref))
  h['len'] = z3.Store(h['len'], r, z3.Select(h['len'], q.ref))
  h['desc'] = z3.Store(h['desc'], r, z3.BoolVal(True) if descending else one)
  h['heap'] = z3.Store(h['heap'], r, one if descending else z3.BoolVal(True))
  return VListRef(r)


@lib('heapq.nsmallest', 'nsmallest: ascending order (never descending)')
def _nsmallest(ex, args, kwargs, node):
  ctx = ex.ctx
  h = lheap(ctx)
  n, q = args
  r = h['alloc']
  h['alloc'] = r + 1
  h['bag'] = z3.Store(h['bag'], r, z3.Select(h['bag'], q.ref))
  h['len'] = z3.Store(h['len'], r, z3.Select(h['len'], q.ref))
  h['desc'] = z3.Store(h['desc'], r, z3.Select(h['len'], q.ref) <= 1)
  h['heap'] = z3.Store(h['heap'], r, z3.BoolVal(True))   # ascending = heap
  return VListRef(r)


@vmethod('listref', 'sort')
def _list_sort(ex, recv, args, kwargs, node):
  """list.sort(): same multiset; ascending order is a valid heap, descending
  order is not (unless at most one element)."""
  h = lheap(ex.ctx)
  rev = kwargs.get('reverse', VBool(False))
  rv = as_bool_term(rev)
  short = z3.Select(h['len'], recv.ref) <= 1
  h['desc'] = z3.Store(h['desc'], recv.ref, z3.Or(rv, short))
  h['heap'] = z3.Store(h['heap'], recv.ref, z3.Or(z3.Not(rv), short))
  return NONE


ASSUMPTIONS.append('list.sort(reverse=r) keeps the multiset; an ascending '
                   'list is a heap, a descending list of two or more '
                   'distinct-position items is not assumed to be one')


def listref_copy(ex, v):
  h = lheap(ex.ctx)
  r = h['alloc']
  h['alloc'] = r + 1
  for k in ('bag', 'len', 'desc', 'heap'):
    h[k] = z3.Store(h[k], r, z3.Select(h[k], v.ref))
  return VListRef(r)


def listref_len(ex, v):
  h = lheap(ex.ctx)
  return VInt(z3.Select(h['len'], v.ref))


@lib('itertools.combinations',
     'combinations(S, r): every element is an r-subset of S (as a tuple of '
     'distinct members), every r-subset of S is produced exactly once; r '
     'must be >= 0')
def _combinations(ex, args, kwargs, node):
  ctx = ex.ctx
  src, r = args
  sset = to_set(ex, src, node)
  rt = num_term(ex.need_not_none(r, node, 'combinations r'))
  ex.safety(rt >= 0, 'ValueError', node, 'combinations: r must be >= 0')
  n = z3.Int(ctx.sym('n_comb'))
  ctx.assume(n >= 0)

  def elem(c, k):
    e = z3.Const(c.sym('combo'), z3.SetSort(sset.esort))
    c.assume(z3.IsSubset(e, sset.t))
    c.assume(cardlemmas.card(e) == rt)
    return VSet(e, sset.esort)

  # exactness: the iteration visits every r-subset of S exactly once
  csort = z3.SetSort(sset.esort)
  c = z3.Const(ctx.sym('c'), csort)
  whole = z3.Lambda([c], z3.And(z3.IsSubset(c, sset.t),
                                cardlemmas.card(c) == rt))
  it = loopmod.VIter(n, elem, visited_sort=csort, distinct=True, whole=whole,
                     to_term=lambda v: v.t)
  it.comb = (sset, rt)
  return it


# ---------------------------------------------------------------------------
# copy


def _deep(ctx, v, memo):
  from mmverif.engine.symexec import ObjRec
  if isinstance(v, VObj):
    if v.oid in memo:
      return memo[v.oid]
    new = ctx.new_object(v.cls, v.cls.lower() + '_copy')
    memo[v.oid] = new
    for f, fv in list(ctx.objects[v.oid].fields.items()):
      ctx.objects[new.oid].fields[f] = _deep(ctx, fv, memo)
    return new
  if isinstance(v, VOpt):
    return VOpt(v.none, _deep(ctx, v.val, memo))
  if isinstance(v, VTuple):
    return VTuple([_deep(ctx, i, memo) for i in v.items], v.names, v.tname)
  if hasattr(v, 'clone'):
    return v.clone()
  return v          # immutable values (numbers, sets, arrays are values here)


@lib('copy.deepcopy',
     'deepcopy returns a fresh object graph, field-wise equal to the original '
     'and disjoint from it (NumPy arrays are values in this model)')
def _deepcopy(ex, args, kwargs, node):
  return _deep(ex.ctx, args[0], {})


@lib('copy.copy', 'copy.copy of an object: a new object with the same fields')
def _copy(ex, args, kwargs, node):
  v = args[0]
  ctx = ex.ctx
  if isinstance(v, VObj):
    new = ctx.new_object(v.cls, v.cls.lower() + '_copy')
    for f, fv in ctx.objects[v.oid].fields.items():
      ctx.objects[new.oid].fields[f] = fv
    new.copy_of = getattr(v, 'copy_of', v.oid)
    return new
  if hasattr(v, 'clone'):
    return v.clone()
  return v


# ---------------------------------------------------------------------------
# numpy / collections odds and ends used by the searches

_LEN_ARR = z3.Function('len_Arr', sort_named('Arr'), z3.IntSort())


@lib('numpy.random.normal',
     'numpy.random.normal(loc_sequence): an array with one entry per element '
     'of the argument (its values are unconstrained)')
def _np_random_normal(ex, args, kwargs, node):
  ctx = ex.ctx
  v = args[0]
  if isinstance(v, VRange):
    n = z3.If(v.hi > v.lo, v.hi - v.lo, 0)
  elif isinstance(v, VSeq):
    n = v.length
  else:
    ex.unsupported(node, 'random.normal(%s)' % v.kind)
  a = z3.Const(ctx.sym('rnd'), sort_named('Arr'))
  ctx.assume(_LEN_ARR(a) == n)
  ctx.assume(z3.Function('ndim_Arr', sort_named('Arr'), z3.IntSort())(a) == 1)
  return VOpaque(a, 'Arr')


class VNamedTupleType(V):
  kind = 'namedtupletype'

  def __init__(self, tname, names):
    self.tname = tname
    self.names = names

  def py_call(self, ex, args, kwargs, node):
    items = list(args)
    for n in self.names[len(items):]:
      if n not in kwargs:
        ex.safety(z3.BoolVal(False), 'TypeError', node,
                  'missing namedtuple field %s' % n)
        raise PathEnd('namedtuple')
      items.append(kwargs[n])
    if len(items) != len(self.names):
      ex.safety(z3.BoolVal(False), 'TypeError', node, 'namedtuple arity')
      raise PathEnd('namedtuple')
    return VTuple(items, list(self.names), self.tname)


@lib('collections.namedtuple', 'namedtuple(name, fields) builds a tuple type')
def _namedtuple(ex, args, kwargs, node):
  name, fields = args
  if not (isinstance(name, VStr) and isinstance(fields, VTuple)):
    ex.unsupported(node, 'namedtuple with non-literal fields')
  return VNamedTupleType(name.s, [f.s for f in fields.items])


from mmverif.engine import numeric_ledger as _numeric   # registers numpy/scipy


BINOM = z3.Function('BINOM', z3.IntSort(), z3.IntSort(), z3.IntSort())


@lib('scipy.special.comb',
     'scipy.special.comb(n, k, exact=True) is the binomial coefficient (an '
     'uninterpreted function BINOM(n, k) >= 0 here)')
def _comb(ex, args, kwargs, node):
  n = num_term(ex.need_not_none(args[0], node, 'comb n'))
  k = num_term(ex.need_not_none(args[1], node, 'comb k'))
  t = BINOM(n, k)
  ex.ctx.assume(t >= 0)
  return VInt(t)


# ---------------------------------------------------------------------------
# strings and timestamps (utils.find_days_to_exclude / expand_time_windows)

StrSort = sort_named('Str')
TsSort = sort_named('Ts')
NPIECES = z3.Function('NPIECES', StrSort, z3.IntSort())
PIECE = z3.Function('PIECE', StrSort, z3.IntSort(), StrSort)
TS = z3.Function('TS', StrSort, TsSort)
TS_BAD = z3.Function('TS_BAD', StrSort, z3.BoolSort())
TS_GT = z3.Function('TS_GT', TsSort, TsSort, z3.BoolSort())
DR = z3.Function('DR', TsSort, TsSort, z3.SetSort(TsSort))
DR_BAD = z3.Function('DR_BAD', TsSort, TsSort, z3.BoolSort())


@vmethod('opaque:Str', 'split')
def _str_split(ex, recv, args, kwargs, node):
  """s.split(sep): a non-empty list of pieces (their number and contents are
  uninterpreted functions of s)."""
  ctx = ex.ctx
  n = NPIECES(recv.t)
  ctx.assume(n >= 1)
  s = recv.t
  return VSeq(n, lambda i: PIECE(s, i), StrSort, None, False,
              sid=z3.Int(ctx.sym('pieces.sid')))


@lib('pandas.Timestamp',
     'pandas.Timestamp(s) either raises ValueError or returns a timestamp '
     'that is a function of s (NaT included)')
def _timestamp(ex, args, kwargs, node):
  v = args[0]
  if isinstance(v, VOpaque) and v.okind == 'Ts':
    return v
  if not (isinstance(v, VOpaque) and v.okind == 'Str'):
    ex.unsupported(node, 'Timestamp(%s)' % v.kind)
  from mmverif.engine.symexec import RaiseSig
  if ex.ctx.branch(TS_BAD(v.t)):
    raise RaiseSig('ValueError', 'Timestamp')
  return VOpaque(TS(v.t), 'Ts')


class VDateRange(V):
  kind = 'daterange'

  def __init__(self, a, b):
    self.a, self.b = a, b

  def py_getattr(self, ex, name, node):
    if name == 'to_list':
      from mmverif.engine.pandas_ledger import VBound
      a, b = self.a, self.b

      def f(ex_, args, kwargs, n_):
        out = TSeq(TsSort, dupfree=True).fresh(ex_.ctx, 'days')
        ex_.ctx.assume(out.elems == DR(a, b))
        return out
      return VBound(f)
    ex.unsupported(node, 'date_range attribute %s' % name)


@lib('pandas.date_range',
     'pandas.date_range(a, b, freq="D") either raises ValueError (NaT '
     'bounds) or is the duplicate-free list of the days DR(a, b)')
def _date_range(ex, args, kwargs, node):
  a, b = args[0], args[1]
  if not all(isinstance(v, VOpaque) and v.okind == 'Ts' for v in (a, b)):
    ex.unsupported(node, 'date_range of non-timestamps')
  from mmverif.engine.symexec import RaiseSig
  if ex.ctx.branch(DR_BAD(a.t, b.t)):
    raise RaiseSig('ValueError', 'date_range')
  return VDateRange(a.t, b.t)
