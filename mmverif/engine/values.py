"""Symbolic value model of pyvc.

Values are *meta-typed*: the Python class of a value object fixes its kind
(int, float, set, optional, tuple, object reference, opaque library value ...),
the z3 terms inside are symbolic.  Shapes (T*) describe how to make a fresh
symbolic value of a kind; they are used for parameters, havoc and results of
calls by contract.
"""
import itertools
import z3

_SEQEQ = itertools.count()

GeoSort = z3.IntSort()   # geo IDs (strings in the code) are integer codes
ItemSort = z3.DeclareSort('Item')    # heap items (abstract, ordered by lt)
KeySort = z3.DeclareSort('Key')      # HeapDict keys

_SORTS = {'Geo': GeoSort, 'Item': ItemSort, 'Key': KeySort,
          'Int': z3.IntSort(), 'Real': z3.RealSort(), 'Bool': z3.BoolSort()}


def sort_named(name):
  if name not in _SORTS:
    _SORTS[name] = z3.DeclareSort(name)
  return _SORTS[name]


class EngineError(Exception):
  """Unsupported construct or internal problem: exit 3, never a violation."""


# ----------------------------------------------------------------------------
# values


class V:
  kind = 'value'

  def flatten(self):
    raise EngineError('cannot pass %s to an uninterpreted function' % self.kind)


class VNone(V):
  kind = 'None'

  def flatten(self):
    return []

  def __repr__(self):
    return 'None'


NONE = VNone()


class VBool(V):
  kind = 'bool'

  def __init__(self, t):
    if isinstance(t, bool):
      t = z3.BoolVal(t)
    self.t = t

  def flatten(self):
    return [self.t]

  def __repr__(self):
    return 'Bool(%s)' % self.t


class VInt(V):
  kind = 'int'

  def __init__(self, t):
    if isinstance(t, int):
      t = z3.IntVal(t)
    self.t = t

  def flatten(self):
    return [self.t]

  def __repr__(self):
    return 'Int(%s)' % self.t


class VReal(V):
  """Python float (np=False) or NumPy scalar (np=True); reals (mode R)."""
  kind = 'float'

  def __init__(self, t, np=False):
    if isinstance(t, (int, float)):
      t = z3.RealVal(repr(float(t)) if isinstance(t, float) else t)
    self.t = t
    self.np = np

  def flatten(self):
    return [self.t]

  def __repr__(self):
    return 'Real(%s%s)' % (self.t, ',np' if self.np else '')


class VStr(V):
  """String literal (only constant strings are interpreted)."""
  kind = 'str'

  def __init__(self, s):
    self.s = s

  def flatten(self):
    return []

  def __repr__(self):
    return 'Str(%r)' % (self.s,)


class VTuple(V):
  kind = 'tuple'

  def __init__(self, items, names=None, tname=None):
    self.items = list(items)
    self.names = names      # namedtuple field names
    self.tname = tname

  def flatten(self):
    return list(itertools.chain.from_iterable(i.flatten() for i in self.items))

  def __repr__(self):
    return 'Tuple(%s)' % ', '.join(map(repr, self.items))


class VSet(V):
  kind = 'set'

  def __init__(self, t, esort):
    self.t = t
    self.esort = esort

  def flatten(self):
    return [self.t]

  def __repr__(self):
    return 'Set(%s)' % self.t


class VOpt(V):
  """Optional value: `none` says whether it is None, `val` the payload."""
  kind = 'opt'

  def __init__(self, none, val):
    if isinstance(none, bool):
      none = z3.BoolVal(none)
    self.none = none
    self.val = val

  def flatten(self):
    return [self.none] + self.val.flatten()

  def __repr__(self):
    return 'Opt(%s, %r)' % (self.none, self.val)


class VObj(V):
  """Reference to a meta-level heap object."""
  kind = 'object'

  def __init__(self, oid, cls):
    self.oid = oid
    self.cls = cls

  def flatten(self):
    return [z3.IntVal(self.oid)]

  def __repr__(self):
    return 'Obj(%s#%d)' % (self.cls, self.oid)


class VOpaque(V):
  """Value of an uninterpreted sort (NumPy array, Series, frozen dist ...)."""
  kind = 'opaque'

  def __init__(self, t, okind):
    self.t = t
    self.okind = okind

  def flatten(self):
    return [self.t]

  def __repr__(self):
    return 'Opaque[%s](%s)' % (self.okind, self.t)


class VRange(V):
  kind = 'range'

  def __init__(self, lo, hi):
    self.lo = lo    # z3 Int
    self.hi = hi    # z3 Int (exclusive)

  def flatten(self):
    return [self.lo, self.hi]

  def __repr__(self):
    return 'Range(%s, %s)' % (self.lo, self.hi)


class VSeq(V):
  """Abstract finite sequence: length + element function, optional set view.

  `at` is a z3 function Int -> elem sort.  `dupfree` is a Python bool that
  says the axiom "at is injective on [0,len)" was assumed for this sequence.
  """
  kind = 'list'

  def __init__(self, length, at, esort, elems=None, dupfree=False,
               mutable=True, sid=None):
    self.length = length
    self.at = at
    self.esort = esort
    self.elems = elems      # z3 set term of the elements, when tracked
    self.dupfree = dupfree
    self.mutable = mutable
    self.sid = sid          # z3 Int term naming the sequence (for UFs over it)

  def flatten(self):
    out = [self.length]
    if self.elems is not None:
      out.append(self.elems)
    return out

  def clone(self):
    c = VSeq(self.length, self.at, self.esort, self.elems, self.dupfree,
             self.mutable, self.sid)
    return c

  def same_as(self, other):
    return (self.length.eq(other.length) and (
        (self.elems is None and other.elems is None) or
        (self.elems is not None and other.elems is not None and
         self.elems.eq(other.elems))))

  def __repr__(self):
    return 'Seq(len=%s)' % self.length


class VDict(V):
  """Dictionary with symbolic keys: domain set + value array."""
  kind = 'dict'

  def __init__(self, dom, val, ksort, vshape):
    self.dom = dom          # z3 set of keys
    self.val = val          # z3 array key -> encoded value
    self.ksort = ksort
    self.vshape = vshape    # shape of the values (TSet / TInt / TOpaque ...)

  def flatten(self):
    return [self.dom, self.val]

  def clone(self):
    return VDict(self.dom, self.val, self.ksort, self.vshape)

  def same_as(self, other):
    return self.dom.eq(other.dom) and self.val.eq(other.val)

  def __repr__(self):
    return 'Dict(dom=%s)' % self.dom


class VCallable(V):
  kind = 'callable'

  def __init__(self, what, target, bound=None):
    self.what = what        # 'lib' | 'func' | 'class' | 'method' | 'closure'
    self.target = target
    self.bound = bound

  def __repr__(self):
    return 'Callable(%s:%s)' % (self.what, self.target)


class VModule(V):
  kind = 'module'

  def __init__(self, name):
    self.name = name

  def __repr__(self):
    return 'Module(%s)' % self.name


# ----------------------------------------------------------------------------
# shapes


class Shape:

  def fresh(self, ctx, name):
    raise NotImplementedError


class TNone(Shape):

  def fresh(self, ctx, name):
    return NONE


class TBool(Shape):

  def fresh(self, ctx, name):
    return VBool(z3.Bool(ctx.sym(name)))


class TInt(Shape):

  def fresh(self, ctx, name):
    return VInt(z3.Int(ctx.sym(name)))


class TReal(Shape):

  def __init__(self, np=False):
    self.np = np

  def fresh(self, ctx, name):
    return VReal(z3.Real(ctx.sym(name)), np=self.np)


class TSet(Shape):

  def __init__(self, esort=None):
    self.esort = esort if esort is not None else z3.IntSort()

  def fresh(self, ctx, name):
    return VSet(z3.Const(ctx.sym(name), z3.SetSort(self.esort)), self.esort)


class TOpt(Shape):

  def __init__(self, inner):
    self.inner = inner

  def fresh(self, ctx, name):
    return VOpt(z3.Bool(ctx.sym(name + '.isnone')),
                self.inner.fresh(ctx, name + '.val'))


class TTuple(Shape):

  def __init__(self, items, names=None, tname=None):
    self.items = items
    self.names = names
    self.tname = tname

  def fresh(self, ctx, name):
    return VTuple([s.fresh(ctx, '%s.%d' % (name, i))
                   for i, s in enumerate(self.items)], self.names, self.tname)


class TOpaque(Shape):

  def __init__(self, okind):
    self.okind = okind

  def fresh(self, ctx, name):
    return VOpaque(z3.Const(ctx.sym(name), sort_named(self.okind)), self.okind)


class TRecord(Shape):
  """Dictionary with a fixed set of constant string keys."""

  def __init__(self, shapes):
    self.shapes = dict(shapes)

  def fresh(self, ctx, name):
    from mmverif.engine.symexec import VConstDict
    d = VConstDict({k: sh.fresh(ctx, '%s[%s]' % (name, k))
                    for k, sh in self.shapes.items()})
    d.shapes = self.shapes
    return d


class TObj(Shape):
  """A fresh object of class `cls` whose declared fields are all fresh."""

  def __init__(self, cls):
    self.cls = cls

  def fresh(self, ctx, name):
    return ctx.new_object(self.cls, name, symbolic=True)


class TSeq(Shape):

  def __init__(self, esort, dupfree=False, with_elems=True):
    self.esort = esort
    self.dupfree = dupfree
    self.with_elems = with_elems

  def fresh(self, ctx, name):
    n = z3.Int(ctx.sym(name + '.len'))
    at = z3.Function(ctx.sym(name + '.at'), z3.IntSort(), self.esort)
    elems = None
    ctx.assume(n >= 0, 'len>=0')
    if self.with_elems:
      elems = z3.Const(ctx.sym(name + '.elems'), z3.SetSort(self.esort))
      i = z3.Int(ctx.sym('i'))
      e = z3.Const(ctx.sym('e'), self.esort)
      ctx.assume(z3.ForAll([i], z3.Implies(z3.And(i >= 0, i < n),
                                            z3.IsMember(at(i), elems))),
                 'seq elems: members')
      # every element has a position (skolemised: no exists under forall)
      pos = z3.Function(ctx.sym(name + '.pos'), self.esort, z3.IntSort())
      ctx.assume(z3.ForAll([e], z3.Implies(
          z3.IsMember(e, elems),
          z3.And(pos(e) >= 0, pos(e) < n, at(pos(e)) == e))),
                 'seq elems: covered')
    if self.dupfree:
      i, j = z3.Int(ctx.sym('i')), z3.Int(ctx.sym('j'))
      ctx.assume(z3.ForAll([i, j], z3.Implies(
          z3.And(i >= 0, i < n, j >= 0, j < n, at(i) == at(j)), i == j)),
                 'seq dupfree')
    return VSeq(n, at, self.esort, elems, self.dupfree,
                sid=z3.Int(ctx.sym(name + '.sid')))


class TDict(Shape):

  def __init__(self, ksort, vshape):
    self.ksort = ksort
    self.vshape = vshape

  def empty(self, ctx):
    vs = value_sort(self.vshape)
    return VDict(z3.EmptySet(self.ksort),
                 z3.Const(ctx.sym('d0.val'), z3.ArraySort(self.ksort, vs)),
                 self.ksort, self.vshape)

  def fresh(self, ctx, name):
    vs = value_sort(self.vshape)
    return VDict(z3.Const(ctx.sym(name + '.dom'), z3.SetSort(self.ksort)),
                 z3.Const(ctx.sym(name + '.val'), z3.ArraySort(self.ksort, vs)),
                 self.ksort, self.vshape)


def value_sort(shape):
  """z3 sort used to store a value of `shape` inside a z3 array."""
  if isinstance(shape, TInt):
    return z3.IntSort()
  if isinstance(shape, TBool):
    return z3.BoolSort()
  if isinstance(shape, TReal):
    return z3.RealSort()
  if isinstance(shape, TSet):
    return z3.SetSort(shape.esort)
  if isinstance(shape, TOpaque):
    return sort_named(shape.okind)
  if isinstance(shape, TObj):
    return z3.IntSort()
  raise EngineError('no array encoding for shape %r' % shape)


def encode(v):
  """Encode a value as a single z3 term (for storage in arrays)."""
  if isinstance(v, (VInt, VBool, VReal, VSet, VOpaque)):
    return v.t
  if isinstance(v, VObj):
    return z3.IntVal(v.oid)
  raise EngineError('cannot store %r in a symbolic container' % (v,))


def decode(t, shape):
  if isinstance(shape, TInt):
    return VInt(t)
  if isinstance(shape, TBool):
    return VBool(t)
  if isinstance(shape, TReal):
    return VReal(t, np=shape.np)
  if isinstance(shape, TSet):
    return VSet(t, shape.esort)
  if isinstance(shape, TOpaque):
    return VOpaque(t, shape.okind)
  if isinstance(shape, TObj):
    # objects inside symbolic containers are only identities: the value can
    # be dropped or stored again, not dereferenced
    return VOpaque(t, 'ObjId')
  raise EngineError('cannot read a %r out of a symbolic container' % shape)


def shape_of(v):
  """Shape describing a value (used by havoc)."""
  if isinstance(v, VNone):
    return TNone()
  if isinstance(v, VBool):
    return TBool()
  if isinstance(v, VInt):
    return TInt()
  if isinstance(v, VReal):
    return TReal(v.np)
  if isinstance(v, VSet):
    return TSet(v.esort)
  if isinstance(v, VOpt):
    return TOpt(shape_of(v.val))
  if isinstance(v, VTuple):
    return TTuple([shape_of(i) for i in v.items], v.names, v.tname)
  if isinstance(v, VOpaque):
    return TOpaque(v.okind)
  if isinstance(v, VObj):
    return TObj(v.cls)
  if isinstance(v, VSeq):
    return TSeq(v.esort, v.dupfree, v.elems is not None)
  if isinstance(v, VDict):
    return TDict(v.ksort, v.vshape)
  if isinstance(v, VRange):
    return TRangeShape()
  if hasattr(v, 'shape'):
    return v.shape()
  raise EngineError('no shape for %r' % (v,))


class TRangeShape(Shape):

  def fresh(self, ctx, name):
    return VRange(z3.Int(ctx.sym(name + '.lo')), z3.Int(ctx.sym(name + '.hi')))


# ----------------------------------------------------------------------------
# generic operations on values (used by the executor and by contract clauses)


def as_bool_term(v):
  """Python truthiness of a value as a z3 Bool."""
  if isinstance(v, VBool):
    return v.t
  if isinstance(v, VNone):
    return z3.BoolVal(False)
  if isinstance(v, VInt):
    return v.t != 0
  if isinstance(v, VReal):
    return v.t != 0
  if isinstance(v, VSet):
    if getattr(v, 'truth', None) is not None:
      return v.truth          # comprehension set: "some element exists"
    return v.t != z3.EmptySet(v.esort)
  if isinstance(v, VOpt):
    return z3.And(z3.Not(v.none), as_bool_term(v.val))
  if isinstance(v, VTuple):
    return z3.BoolVal(len(v.items) > 0)
  if isinstance(v, VStr):
    return z3.BoolVal(len(v.s) > 0)
  if isinstance(v, VSeq):
    return v.length > 0
  if isinstance(v, VRange):
    return v.hi > v.lo
  if isinstance(v, VDict):
    return v.dom != z3.EmptySet(v.ksort)
  if isinstance(v, (VObj, VCallable, VModule)):
    return z3.BoolVal(True)
  if getattr(v, 'kind', '') == 'ddl':
    return v.dom != z3.EmptySet(KeySort)
  raise EngineError('truth value of %r is not modelled' % (v,))


def is_none_term(v):
  if isinstance(v, VNone):
    return z3.BoolVal(True)
  if isinstance(v, VOpt):
    return v.none
  return z3.BoolVal(False)


def num_term(v):
  """z3 arithmetic term of a numeric value (bool counts as int)."""
  if isinstance(v, VBool):
    return z3.If(v.t, z3.IntVal(1), z3.IntVal(0))
  if isinstance(v, (VInt, VReal)):
    return v.t
  raise EngineError('not a number: %r' % (v,))


def is_numeric(v):
  return isinstance(v, (VBool, VInt, VReal))


def eq_term(a, b):
  """Structural equality (Python ==) of two values as a z3 Bool."""
  if isinstance(a, VOpt) or isinstance(b, VOpt):
    an, bn = is_none_term(a), is_none_term(b)
    av = a.val if isinstance(a, VOpt) else a
    bv = b.val if isinstance(b, VOpt) else b
    if isinstance(av, VNone) or isinstance(bv, VNone):
      return z3.And(an, bn)
    return z3.Or(z3.And(an, bn),
                 z3.And(z3.Not(an), z3.Not(bn), eq_term(av, bv)))
  if isinstance(a, VNone) or isinstance(b, VNone):
    return z3.BoolVal(isinstance(a, VNone) and isinstance(b, VNone))
  if is_numeric(a) and is_numeric(b):
    ta, tb = num_term(a), num_term(b)
    if isinstance(a, VBool) and isinstance(b, VBool):
      return a.t == b.t
    return _coerce(ta, tb, lambda x, y: x == y)
  if isinstance(a, VSet) and isinstance(b, VSet):
    return a.t == b.t
  if isinstance(a, VTuple) and isinstance(b, VTuple):
    if len(a.items) != len(b.items):
      return z3.BoolVal(False)
    return z3.And([eq_term(x, y) for x, y in zip(a.items, b.items)] or
                  [z3.BoolVal(True)])
  if isinstance(a, VOpaque) and isinstance(b, VOpaque):
    if a.okind != b.okind:
      return z3.BoolVal(False)
    return a.t == b.t
  if isinstance(a, VObj) and isinstance(b, VObj):
    return z3.BoolVal(a.oid == b.oid)
  if isinstance(a, VStr) and isinstance(b, VStr):
    return z3.BoolVal(a.s == b.s)
  if isinstance(a, VDict) and isinstance(b, VDict):
    return z3.And(a.dom == b.dom, a.val == b.val)
  if isinstance(a, VRange) and isinstance(b, VRange):
    return z3.And(a.lo == b.lo, a.hi == b.hi)
  if isinstance(a, VSeq) and isinstance(b, VSeq):
    if a.esort != b.esort:
      return z3.BoolVal(False)
    i = z3.Int('i!seqeq%d' % next(_SEQEQ))
    return z3.And(a.length == b.length, z3.ForAll([i], z3.Implies(
        z3.And(i >= 0, i < a.length), a.at(i) == b.at(i))))
  return z3.BoolVal(False)


def _coerce(ta, tb, f):
  if ta.sort() != tb.sort():
    if ta.sort() == z3.IntSort():
      ta = z3.ToReal(ta)
    if tb.sort() == z3.IntSort():
      tb = z3.ToReal(tb)
  return f(ta, tb)


def ite_value(c, a, b):
  """Merge two values of the same shape under condition c."""
  if isinstance(a, VNone) and isinstance(b, VNone):
    return NONE
  if isinstance(a, VBool) and isinstance(b, VBool):
    return VBool(z3.If(c, a.t, b.t))
  if isinstance(a, VInt) and isinstance(b, VInt):
    return VInt(z3.If(c, a.t, b.t))
  if is_numeric(a) and is_numeric(b):
    return VReal(_coerce(num_term(a), num_term(b),
                         lambda x, y: z3.If(c, x, y)),
                 np=getattr(a, 'np', False) or getattr(b, 'np', False))
  if isinstance(a, VSet) and isinstance(b, VSet):
    return VSet(z3.If(c, a.t, b.t), a.esort)
  if isinstance(a, VOpaque) and isinstance(b, VOpaque) and a.okind == b.okind:
    return VOpaque(z3.If(c, a.t, b.t), a.okind)
  if isinstance(a, VTuple) and isinstance(b, VTuple) and len(a.items) == len(
      b.items):
    return VTuple([ite_value(c, x, y) for x, y in zip(a.items, b.items)],
                  a.names, a.tname)
  if isinstance(a, (VOpt, VNone)) or isinstance(b, (VOpt, VNone)):
    an, bn = is_none_term(a), is_none_term(b)
    av = a.val if isinstance(a, VOpt) else a
    bv = b.val if isinstance(b, VOpt) else b
    if isinstance(av, VNone):
      av = bv
    if isinstance(bv, VNone):
      bv = av
    if isinstance(av, VNone):
      return NONE
    return VOpt(z3.If(c, an, bn), ite_value(c, av, bv))
  raise EngineError('cannot merge %r and %r' % (a, b))


def shape_apply(shape, name, args):
  """A value of `shape` whose leaves are applications name#path(args) of
  uninterpreted functions: a compound spec function."""
  def fn(path, sort):
    f = z3.Function('%s#%s' % (name, path), *([a.sort() for a in args] + [sort]))
    return f(*args)

  def go(sh, path):
    if isinstance(sh, TNone):
      return NONE
    if isinstance(sh, TBool):
      return VBool(fn(path, z3.BoolSort()))
    if isinstance(sh, TInt):
      return VInt(fn(path, z3.IntSort()))
    if isinstance(sh, TReal):
      return VReal(fn(path, z3.RealSort()), np=sh.np)
    if isinstance(sh, TSet):
      return VSet(fn(path, z3.SetSort(sh.esort)), sh.esort)
    if isinstance(sh, TOpaque):
      return VOpaque(fn(path, sort_named(sh.okind)), sh.okind)
    if isinstance(sh, TOpt):
      return VOpt(fn(path + '.isnone', z3.BoolSort()), go(sh.inner, path + '.val'))
    if isinstance(sh, TTuple):
      return VTuple([go(s_, '%s.%d' % (path, i))
                     for i, s_ in enumerate(sh.items)], sh.names, sh.tname)
    raise EngineError('shape_apply: unsupported shape %r' % sh)
  return go(shape, 'r')
