"""Instance-wise finite-set cardinality lemmas.

`card` is an uninterpreted function Set(E) -> Int.  For every obligation the
terms `card(X)` that occur are collected and the true facts about the
cardinality of *finite* sets that relate them structurally are added as extra
hypotheses (they are consequences of the theory of finite sets, listed in the
trusted base as "finite-set cardinality lemma instances"):

  card X >= 0,  card X = 0 <=> X = {}
  card(A u B) = card A + card B - card(A n B)
  card(A - B) = card A - card(A n B)
  card(A n B) <= card A, card B
  card(A + {x}) = card A + (x in A ? 0 : 1)
  card(ite(c,A,B)) = ite(c, card A, card B)
  X subset Y => card X <= card Y;  X subset Y and card X = card Y => X = Y
"""
import z3

_CARD = {}


def card_fn(esort):
  key = str(esort)
  if key not in _CARD:
    safe = ''.join(c if c.isalnum() else '_' for c in key)
    _CARD[key] = z3.Function('card_' + safe, z3.SetSort(esort), z3.IntSort())
  return _CARD[key]


def card(set_term):
  es = set_term.sort().domain()
  return card_fn(es)(set_term)


_RS = z3.Function('rangeset', z3.IntSort(), z3.IntSort(),
                  z3.SetSort(z3.IntSort()))


def range_set(lo, hi):
  """{i | lo <= i < hi} as a named term; its membership and cardinality
  axioms are instantiated per occurrence (trusted arithmetic fact)."""
  return _RS(lo, hi)


def _is_rs(t):
  return z3.is_app(t) and t.decl().name() == 'rangeset' and t.num_args() == 2


def _collect_rs(t, acc, seen):
  stack = [t]
  while stack:
    x = stack.pop()
    if x.get_id() in seen:
      continue
    seen.add(x.get_id())
    if z3.is_quantifier(x):
      stack.append(x.body())
      continue
    if _is_rs(x) and not _has_bound(x):
      acc[x.get_id()] = x
    if z3.is_app(x):
      stack.extend(x.children())


def _is_card(t):
  return z3.is_app(t) and t.decl().name().startswith('card_') and t.num_args() == 1


def _collect(t, acc, seen):
  tid = t.get_id()
  if tid in seen:
    return
  seen.add(tid)
  if z3.is_quantifier(t):
    # do not descend into binders (bound variables cannot be instantiated)
    return
  if _is_card(t):
    a = t.arg(0)
    if not _has_bound(a):
      acc.append(a)
  if z3.is_app(t):
    for c in t.children():
      _collect(c, acc, seen)


def _has_bound(t):
  stack = [t]
  seen = set()
  while stack:
    x = stack.pop()
    if x.get_id() in seen:
      continue
    seen.add(x.get_id())
    if z3.is_var(x):
      return True
    if z3.is_app(x):
      stack.extend(x.children())
    elif z3.is_quantifier(x):
      return True
  return False


_SCAN = {}


def _scan(t):
  """(card arguments, rangeset terms) of one top-level term, memoised (terms
  are hash-consed and kept alive by the cache)."""
  key = t.get_id()
  hit = _SCAN.get(key)
  if hit is not None and hit[0].eq(t):
    return hit[1], hit[2]
  cards = []
  _collect(t, cards, set())
  rsd = {}
  _collect_rs(t, rsd, set())
  _SCAN[key] = (t, cards, list(rsd.values()))
  if len(_SCAN) > 200000:
    _SCAN.clear()
  return cards, list(rsd.values())


def instantiate(terms, max_sets=28):
  """Return a list of lemma instances for the card terms in `terms`."""
  goal_ids = set()
  roots = []
  rs = {}
  have = set()
  for t in reversed(terms):        # the goal comes last: its sets first
    cards, rsl = _scan(t)
    n0 = len(roots)
    for a in cards:
      if a.get_id() not in have:
        have.add(a.get_id())
        roots.append(a)
    for x in rsl:
      rs[x.get_id()] = x
    if t is terms[-1]:
      goal_ids = {z3.simplify(r).get_id() for r in roots[n0:]}
  work = []
  ids = {}

  def add(s, depth):
    s = z3.simplify(s)
    if s.get_id() in ids or len(ids) >= max_sets:
      return
    ids[s.get_id()] = (s, depth)
    work.append((s, depth))

  for r in roots:
    add(r, 0)
  goal_closure = set(goal_ids)
  out = []
  qi = z3.Int('i!rsax')
  for x in rs.values():
    lo, hi = x.arg(0), x.arg(1)
    out.append(z3.ForAll([qi], z3.Select(x, qi) == z3.And(qi >= lo, qi < hi)))
    out.append(card_fn(z3.IntSort())(x) == z3.If(hi > lo, hi - lo, 0))
  while work:
    s, depth = work.pop()
    es = s.sort().domain()
    c = card_fn(es)
    out.append(c(s) >= 0)
    out.append((c(s) == 0) == (s == z3.EmptySet(es)))
    in_goal = s.get_id() in goal_closure and depth == 0
    if not z3.is_app(s):
      continue
    k = s.decl().kind()
    ch = s.children()
    if depth > 3:
      continue
    if z3.is_map(s):
      # simplified set operations: map(or)=union, map(and)=intersection,
      # map(and, a, map(not, b)) = difference
      fk = z3.get_map_func(s).kind()
      if fk == z3.Z3_OP_OR:
        k = z3.Z3_OP_SET_UNION
      elif fk == z3.Z3_OP_AND:
        neg = [c for c in ch if z3.is_map(c) and z3.get_map_func(c).kind()
               == z3.Z3_OP_NOT]
        pos = [c for c in ch if c not in neg]
        if len(neg) == 0:
          k = z3.Z3_OP_SET_INTERSECT
        elif len(pos) >= 1:
          a = pos[0] if len(pos) == 1 else z3.SetIntersect(*pos)
          b = neg[0].arg(0) if len(neg) == 1 else z3.SetUnion(
              *[n_.arg(0) for n_ in neg])
          k = z3.Z3_OP_SET_DIFFERENCE
          ch = [a, b]
    if k == z3.Z3_OP_SET_UNION and len(ch) >= 2:
      a = ch[0]
      b = ch[1] if len(ch) == 2 else z3.SetUnion(*ch[1:])
      i = z3.SetIntersect(a, b)
      out.append(c(s) == c(a) + c(b) - c(i))
      add(a, depth + 1)
      add(b, depth + 1)
      add(i, depth + 1)
      if in_goal:
        goal_closure.update(z3.simplify(t_).get_id() for t_ in (a, b))
    elif k == z3.Z3_OP_SET_INTERSECT and len(ch) >= 2:
      a = ch[0]
      b = ch[1] if len(ch) == 2 else z3.SetIntersect(*ch[1:])
      out.append(c(s) <= c(a))
      out.append(c(s) <= c(b))
      add(a, depth + 1)
      add(b, depth + 1)
    elif k == z3.Z3_OP_SET_DIFFERENCE:
      a, b = ch
      i = z3.SetIntersect(a, b)
      out.append(c(s) == c(a) - c(i))
      add(a, depth + 1)
      add(i, depth + 1)
    elif k == z3.Z3_OP_STORE and len(ch) == 3:
      a, x, v = ch
      if z3.is_true(v):
        out.append(c(s) == c(a) + z3.If(z3.IsMember(x, a), 0, 1))
        add(a, depth + 1)
      elif z3.is_false(v):
        out.append(c(s) == c(a) - z3.If(z3.IsMember(x, a), 1, 0))
        add(a, depth + 1)
    elif k == z3.Z3_OP_ITE:
      cnd, a, b = ch
      out.append(c(s) == z3.If(cnd, c(a), c(b)))
      add(a, depth + 1)
      add(b, depth + 1)
    elif k == z3.Z3_OP_CONST_ARRAY:
      if z3.is_false(ch[0]):
        out.append(c(s) == 0)
  # Monotonicity / equality lemmas only among the sets of the goal and their
  # direct components (these implications are expensive for the solver);
  # other instances can be supplied explicitly with card_mono().
  cand = [v[0] for k, v in ids.items() if k in goal_closure][:8]
  for i, x in enumerate(cand):
    for j, y in enumerate(cand):
      if i == j or x.sort() != y.sort():
        continue
      c = card_fn(x.sort().domain())
      out.append(z3.Implies(z3.IsSubset(x, y), c(x) <= c(y)))
      if i < j:
        out.append(z3.Implies(z3.And(z3.IsSubset(x, y), c(x) == c(y)), x == y))
  return out


def card_mono(a, b):
  """A subset of a finite set has at most its cardinality (lemma instance)."""
  c = card_fn(a.sort().domain())
  return z3.And(z3.Implies(z3.IsSubset(a, b), c(a) <= c(b)),
                z3.Implies(z3.And(z3.IsSubset(a, b), c(a) == c(b)), a == b))
