"""Builtins and value methods: Python semantics the engine interprets.

Trusted library contracts (numpy / pandas / scipy / heapq / itertools / copy)
live in libcontracts.py; this file only covers the language's own builtins and
the methods of set / list / dict / str / tuple values.
"""
import ast

import z3

from mmverif.engine import cardlemmas
from mmverif.engine import loops as loopmod
from mmverif.engine.symexec import (WORLD, Env, PathEnd, elem_term, term_value,
                                    set_from_items)
from mmverif.engine.values import *  # pylint: disable=wildcard-import

B = WORLD.builtins
L = WORLD.lib
M = WORLD.vmethods

ASSUMPTIONS = []     # human-readable ledger entries, filled by decorators


def builtin(name):
  def deco(f):
    B[name] = f
    return f
  return deco


def lib(name, note=None):
  def deco(f):
    L[name] = f
    if note:
      ASSUMPTIONS.append('%s: %s' % (name, note))
    return f
  return deco


def vmethod(kind, name):
  def deco(f):
    M[(kind, name)] = f
    return f
  return deco


def uf(name, args, result_sort):
  """Application of an uninterpreted function to the flattened arguments."""
  ts = []
  for a in args:
    if isinstance(a, z3.ExprRef):
      ts.append(a)
    else:
      ts.extend(a.flatten())
  f = z3.Function(name, *([t.sort() for t in ts] + [result_sort]))
  return f(*ts) if ts else z3.Const(name, result_sort)


def to_set(ex, v, node, esort_hint=None):
  """set(v) for the iterables the engine knows."""
  if isinstance(v, VSet):
    return v
  if isinstance(v, VSeq):
    if v.elems is None:
      ex.unsupported(node, 'set() of an untracked list')
    return VSet(v.elems, v.esort)
  if isinstance(v, VTuple):
    if not v.items:
      return VSet(z3.EmptySet(esort_hint or z3.IntSort()),
                  esort_hint or z3.IntSort())
    return set_from_items(v.items)
  if isinstance(v, VRange):
    i = z3.Int(ex.ctx.sym('i'))
    return VSet(z3.Lambda([i], z3.And(i >= v.lo, i < v.hi)), z3.IntSort())
  if isinstance(v, VDict):
    return VSet(v.dom, v.ksort)
  if isinstance(v, VOpaque) and ('opaque.toset', v.okind) in L:
    return L[('opaque.toset', v.okind)](ex, v, node)
  if hasattr(v, 'py_toset'):
    return v.py_toset(ex, node)
  if v.kind == 'iter' and getattr(v, 'whole', None) is not None:
    return VSet(v.whole, v.visited_sort)
  ex.unsupported(node, 'set() of %s' % v.kind)


@builtin('setattr')
def _setattr(ex, args, kwargs, node):
  obj, name, val = args
  if not isinstance(name, VStr):
    ex.unsupported(node, 'setattr with a non-literal name')
  ex.set_attr(obj, name.s, val, node)
  return NONE


@builtin('len')
def _len(ex, args, kwargs, node):
  v = args[0]
  if v.kind == 'dyn':
    from mmverif.engine import dyn
    ex.safety(z3.Or(dyn.Dyn.is_tup2(v.t), dyn.Dyn.is_tupn(v.t)), 'TypeError',
              node, 'len() of a non-sequence')
    return VInt(z3.If(dyn.Dyn.is_tup2(v.t), z3.IntVal(2), dyn.Dyn.arity(v.t)))
  if isinstance(v, (VOpt, VNone)):
    v = ex.need_not_none(v, node, 'argument of len()')
  if isinstance(v, VSet):
    return VInt(cardlemmas.card(v.t))
  if isinstance(v, VTuple):
    return VInt(len(v.items))
  if isinstance(v, VStr):
    return VInt(len(v.s))
  if isinstance(v, VSeq):
    return VInt(v.length)
  if isinstance(v, VRange):
    return VInt(z3.If(v.hi > v.lo, v.hi - v.lo, 0))
  if isinstance(v, VDict):
    return VInt(cardlemmas.card(v.dom))
  if isinstance(v, VOpaque):
    t = uf('len_' + v.okind, [v], z3.IntSort())
    ex.ctx.assume(t >= 0)
    return VInt(t)
  if v.kind == 'listref':
    from mmverif.engine import libcontracts
    return libcontracts.listref_len(ex, v)
  if v.kind == 'eligtable':
    # rows of a validated eligibility table are labelled by distinct geo IDs
    # (GeoEligibility rejects duplicates), a .loc[list] selection has one
    # row per requested label
    if v.labels is not None:
      return VInt(v.labels.length)
    return VInt(cardlemmas.card(v.rows))
  ex.unsupported(node, 'len of %s' % v.kind)


@builtin('set')
def _set(ex, args, kwargs, node):
  if not args:
    # every element sort in contract-covered code is Int (indices, ID codes)
    return VSet(z3.EmptySet(z3.IntSort()), z3.IntSort())
  return to_set(ex, args[0], node)


@builtin('range')
def _range(ex, args, kwargs, node):
  ts = [num_term(ex.need_not_none(a, node, 'range argument')) for a in args]
  if len(ts) == 1:
    return VRange(z3.IntVal(0), ts[0])
  if len(ts) == 2:
    return VRange(ts[0], ts[1])
  ex.unsupported(node, 'range with step')


@builtin('list')
def _list(ex, args, kwargs, node):
  ctx = ex.ctx
  if not args:
    return VSeq(z3.IntVal(0), z3.Function(ctx.sym('nil.at'), z3.IntSort(),
                                          z3.IntSort()), None, None)
  v = args[0]
  if isinstance(v, VRange):
    lo = v.lo
    at = lambda i: lo + i
    n = z3.If(v.hi > v.lo, v.hi - v.lo, 0)
    i = z3.Int(ctx.sym('i'))
    elems = z3.Lambda([i], z3.And(i >= v.lo, i < v.hi))
    return VSeq(n, at, z3.IntSort(), elems, dupfree=True)
  if isinstance(v, VSet):
    # arbitrary enumeration of the set, duplicate free
    s = TSeq(v.esort, dupfree=True).fresh(ctx, 'lst')
    ctx.assume(s.elems == v.t)
    ctx.assume(s.length == cardlemmas.card(v.t))
    return s
  if isinstance(v, VSeq):
    return VSeq(v.length, v.at, v.esort, v.elems, v.dupfree, sid=v.sid)
  if isinstance(v, VTuple):
    return VTuple(list(v.items), tname='list')
  if isinstance(v, VCallable) and v.what == 'genexp':
    return L['list.comprehension'](ex, v.target[0], v.target[1])
  if v.kind == 'listref':
    from mmverif.engine import libcontracts
    return libcontracts.listref_copy(ex, v)
  if isinstance(v, VOpaque) and ('opaque.tolist', v.okind) in L:
    return L[('opaque.tolist', v.okind)](ex, v, node)
  if hasattr(v, 'py_tolist'):
    return v.py_tolist(ex, node)
  ex.unsupported(node, 'list() of %s' % v.kind)


@builtin('tuple')
def _tuple(ex, args, kwargs, node):
  v = args[0]
  if isinstance(v, VTuple):
    return VTuple(list(v.items))
  ex.unsupported(node, 'tuple() of %s' % v.kind)


def _minmax(ex, args, node, is_max):
  args = [ex.need_not_none(a, node, 'argument of min/max') if isinstance(
      a, (VOpt, VNone)) else a for a in args]
  if len(args) == 2 and all(is_numeric(a) for a in args):
    a, b = args
    ta, tb = num_term(a), num_term(b)
    if ta.sort() != tb.sort():
      ta = z3.ToReal(ta) if ta.sort() == z3.IntSort() else ta
      tb = z3.ToReal(tb) if tb.sort() == z3.IntSort() else tb
      c = ta >= tb if is_max else ta <= tb
      return VReal(z3.If(c, ta, tb))
    c = ta >= tb if is_max else ta <= tb
    if ta.sort() == z3.IntSort():
      return VInt(z3.If(c, ta, tb))
    return VReal(z3.If(c, ta, tb), getattr(a, 'np', False) or getattr(
        b, 'np', False))
  if len(args) == 1 and isinstance(args[0], VOpaque):
    return VReal(uf(('max_' if is_max else 'min_') + args[0].okind, args,
                    z3.RealSort()), np=True)
  ex.unsupported(node, 'min/max of %s' % [a.kind for a in args])


@builtin('max')
def _max(ex, args, kwargs, node):
  return _minmax(ex, args, node, True)


@builtin('min')
def _min(ex, args, kwargs, node):
  return _minmax(ex, args, node, False)


@builtin('abs')
def _abs(ex, args, kwargs, node):
  v = ex.need_not_none(args[0], node, 'argument of abs()')
  if isinstance(v, VInt):
    return VInt(z3.If(v.t >= 0, v.t, -v.t))
  if isinstance(v, VReal):
    return VReal(z3.If(v.t >= 0, v.t, -v.t), v.np)
  if isinstance(v, VOpaque):
    return VOpaque(uf('abs_' + v.okind, [v], v.t.sort()), v.okind)
  ex.unsupported(node, 'abs of %s' % v.kind)


@builtin('int')
def _int(ex, args, kwargs, node):
  v = args[0]
  if v.kind in ('dyn', 'scalar'):
    from mmverif.engine import dyn
    if v.kind == 'dyn':
      ex.safety(dyn.Dyn.is_sc(v.t), 'TypeError', node, 'int() of a tuple')
    return dyn.py_int(ex, v, node)
  if isinstance(v, (VOpt, VNone)):
    v = ex.need_not_none(v, node, 'argument of int()')
  if isinstance(v, VBool):
    return VInt(num_term(v))
  if isinstance(v, VInt):
    return v
  if isinstance(v, VReal):
    t = v.t
    return VInt(z3.If(t >= 0, z3.ToInt(t), -z3.ToInt(-t)))
  ex.unsupported(node, 'int() of %s' % v.kind)


@builtin('float')
def _float(ex, args, kwargs, node):
  v = args[0]
  if isinstance(v, VStr):
    if v.s in ('inf', '+inf', 'Infinity'):
      if getattr(ex, '_fmode', 'R') == 'F':
        from mmverif.engine import dyn
        return dyn.VFP(z3.fpPlusInfinity(dyn.F64))
      return VReal(uf('float_inf', [], z3.RealSort()))
    ex.unsupported(node, 'float(%r)' % v.s)
  v = ex.need_not_none(v, node, 'argument of float()')
  if isinstance(v, (VInt, VBool)):
    return VReal(z3.ToReal(num_term(v)))
  if isinstance(v, VReal):
    return VReal(v.t)
  ex.unsupported(node, 'float() of %s' % v.kind)


@builtin('round')
def _round(ex, args, kwargs, node):
  v = ex.need_not_none(args[0], node, 'argument of round()')
  nd = args[1] if len(args) > 1 else VInt(0)
  return VReal(uf('round', [v, nd], z3.RealSort()), getattr(v, 'np', False))


@builtin('str')
def _str(ex, args, kwargs, node):
  return VStr('<str>')


@builtin('sorted')
def _sorted(ex, args, kwargs, node):
  v = args[0]
  if v.kind == 'listref':
    # sorted(q) / sorted(q, reverse=True): a new list with the same multiset,
    # ascending / descending; q unchanged
    from mmverif.engine import libcontracts
    rev = kwargs.get('reverse', VBool(False))
    if not isinstance(rev, VBool) or not (z3.is_true(z3.simplify(rev.t)) or
                                          z3.is_false(z3.simplify(rev.t))):
      ex.unsupported(node, 'sorted(reverse=<non-constant>)')
    if set(kwargs) - {'reverse'}:
      ex.unsupported(node, 'sorted with a key')
    return libcontracts.sorted_copy(ex, v, z3.is_true(z3.simplify(rev.t)))
  if isinstance(v, VTuple):
    return VTuple(list(v.items), tname='list')
  s = to_set(ex, v, node)
  seq = TSeq(s.esort, dupfree=True).fresh(ex.ctx, 'sorted')
  ex.ctx.assume(seq.elems == s.t)
  ex.ctx.assume(seq.length == cardlemmas.card(s.t))
  return seq


@builtin('isinstance')
def _isinstance(ex, args, kwargs, node):
  v, t = args
  names = []
  if isinstance(t, VCallable):
    names = [t.target if isinstance(t.target, str) else t.target[-1]]
  elif isinstance(t, VTuple):
    names = [x.target if isinstance(x.target, str) else x.target[-1]
             for x in t.items]
  if hasattr(v, 'isinstance_term'):
    return VBool(v.isinstance_term(names))
  res = False
  for n in names:
    if n == 'int' and isinstance(v, (VInt, VBool)):
      res = True
    elif n == 'float' and isinstance(v, VReal) and not v.np:
      res = True
    elif n == 'float' and v.kind == 'fp':
      res = True
    elif n == 'bool' and isinstance(v, VBool):
      res = True
    elif n == 'tuple' and isinstance(v, VTuple) and v.tname != 'list':
      res = True
    elif n == 'str' and isinstance(v, VStr):
      res = True
    elif isinstance(v, VObj) and v.cls == n:
      res = True
    elif isinstance(v, VOpaque) and v.okind == 'Ts' and n.endswith(
        'Timestamp'):
      res = True
  if isinstance(v, VOpt):
    ex.unsupported(node, 'isinstance on an Optional value')
  return VBool(res)


for _n in ('int', 'float', 'bool', 'tuple', 'str'):
  pass


@builtin('bool')
def _bool(ex, args, kwargs, node):
  return VBool(as_bool_term(args[0]))


@builtin('any')
def _any(ex, args, kwargs, node):
  return _anyall(ex, args, node, True)


@builtin('all')
def _all(ex, args, kwargs, node):
  return _anyall(ex, args, node, False)


def _anyall(ex, args, node, is_any):
  v = args[0]
  if hasattr(v, 'py_any') and is_any:
    return v.py_any(ex, node)
  if isinstance(v, VCallable) and v.what == 'genexp':
    gnode, genv = v.target
    if len(gnode.generators) != 1 or gnode.generators[0].ifs:
      ex.unsupported(node, 'any/all over a filtered generator')
    g = gnode.generators[0]
    it = ex.eval(g.iter, genv)
    if it.kind == 'dyn':
      from mmverif.engine import dyn
      ex.safety(dyn.Dyn.is_tup2(it.t), 'TypeError', node,
                'iteration over a non-pair')
      it = VTuple([dyn.VScalar(dyn.Dyn.fst(it.t)),
                   dyn.VScalar(dyn.Dyn.snd(it.t))])
    if getattr(it, 'map_keys', None) is not None:
      it = VTuple(list(it.map_keys))       # iterating a dict literal: keys
    if isinstance(it, VTuple):
      terms = []
      for item in it.items:
        e2 = Env(genv.module, genv.cls, parent=genv, qualname=genv.qualname)
        ex.assign_target(g.target, item, e2, node)
        terms.append(as_bool_term(ex.eval(gnode.elt, e2)))
      if is_any:
        return VBool(z3.Or(terms) if terms else z3.BoolVal(False))
      return VBool(z3.And(terms) if terms else z3.BoolVal(True))
    if isinstance(it, (VSet, VSeq, VDict)):
      # quantify over the elements
      if isinstance(it, VSet):
        st, es = it.t, it.esort
      elif isinstance(it, VDict):
        st, es = it.dom, it.ksort
      else:
        if it.elems is None:
          ex.unsupported(node, 'any/all over an untracked list')
        st, es = it.elems, it.esort
      q = z3.Const(ex.ctx.sym('q'), es)
      e2 = Env(genv.module, genv.cls, parent=genv, qualname=genv.qualname)
      ex.assign_target(g.target, term_value(q, es), e2, node)
      n0 = len(ex.ctx.decisions)
      body = as_bool_term(ex.eval(gnode.elt, e2))
      if len(ex.ctx.decisions) != n0:
        ex.unsupported(node, 'branching inside a quantified generator')
      if is_any:
        return VBool(z3.Exists([q], z3.And(z3.IsMember(q, st), body)))
      return VBool(z3.ForAll([q], z3.Implies(z3.IsMember(q, st), body)))
    ex.unsupported(node, 'any/all over %s' % it.kind)
  if isinstance(v, VTuple):
    ts = [as_bool_term(x) for x in v.items]
    if is_any:
      return VBool(z3.Or(ts) if ts else z3.BoolVal(False))
    return VBool(z3.And(ts) if ts else z3.BoolVal(True))
  if isinstance(v, VOpaque):
    return VBool(uf(('any_' if is_any else 'all_') + v.okind, [v],
                    z3.BoolSort()))
  ex.unsupported(node, 'any/all of %s' % v.kind)


@builtin('sum')
def _sum(ex, args, kwargs, node):
  v = args[0]
  if isinstance(v, VOpaque):
    return VReal(uf('sum_' + v.okind, [v], z3.RealSort()), np=True)
  if hasattr(v, 'total'):
    return v.total()
  ex.unsupported(node, 'sum of %s' % v.kind)


@builtin('getattr')
def _getattr(ex, args, kwargs, node):
  obj, name = args[0], args[1]
  if not isinstance(name, VStr):
    ex.unsupported(node, 'getattr with a non-literal name')
  return ex.get_attr(obj, name.s, node)


@builtin('print')
def _print(ex, args, kwargs, node):
  return NONE


# --------------------------------------------------------------------------
# comprehensions


def _comprehension(ex, node, env, as_set):
  """[elt for x in src if cond] for the shapes used in the repository."""
  ctx = ex.ctx
  if len(node.generators) != 1:
    ex.unsupported(node, 'nested comprehension')
  g = node.generators[0]
  src = ex.eval(g.iter, env)
  if hasattr(src, 'py_iter'):
    src = src.py_iter(ex, node)
  if isinstance(src, VTuple):
    items = []
    for item in src.items:
      e2 = Env(env.module, env.cls, parent=env, qualname=env.qualname)
      ex.assign_target(g.target, item, e2, node)
      ok = True
      for c in g.ifs:
        if not ctx.branch(as_bool_term(ex.eval(c, e2))):
          ok = False
          break
      if ok:
        items.append(ex.eval(node.elt, e2))
    if as_set:
      return set_from_items(items) if items else VSet(
          z3.EmptySet(z3.IntSort()), z3.IntSort())
    return VTuple(items, tname='list')
  # symbolic source: element-wise image / filter
  if isinstance(src, VSet):
    st, es, length, at, dup = src.t, src.esort, None, None, True
  elif isinstance(src, VSeq):
    if src.elems is None:
      ex.unsupported(node, 'comprehension over an untracked list')
    st, es, length, at, dup = src.elems, src.esort, src.length, src.at, src.dupfree
  elif isinstance(src, VDict):
    st, es, length, at, dup = src.dom, src.ksort, None, None, True
  else:
    ex.unsupported(node, 'comprehension over %s' % src.kind)
  q = z3.Const(ctx.sym('c'), es)
  e2 = Env(env.module, env.cls, parent=env, qualname=env.qualname)
  ex.assign_target(g.target, term_value(q, es), e2, node)
  n0 = len(ctx.decisions)
  npc = len(ctx.pc)
  cond = z3.BoolVal(True)
  for c in g.ifs:
    cond = z3.And(cond, as_bool_term(ex.eval(c, e2)))
  # safety obligations of the element expression are checked for an
  # arbitrary member q of the source satisfying the filter
  ctx.pc.append(z3.And(z3.IsMember(q, st), cond))
  ctx.solver.push()
  ctx.solver.add(ctx.pc[-1])
  try:
    elt = ex.eval(node.elt, e2)
  finally:
    ctx.solver.pop()
    del ctx.pc[npc:]
  if len(ctx.decisions) != n0:
    ex.unsupported(node, 'branching inside a comprehension')
  identity = isinstance(node.elt, ast.Name) and isinstance(
      g.target, ast.Name) and node.elt.id == g.target.id
  img = getattr(elt, 'image_of', None)
  if as_set and img is not None and isinstance(src, VSet) and not g.ifs:
    # {seq[x] for x in S}: the image of S under the sequence, as a named term
    # with its membership definition (pointwise fact)
    seq = img
    f = z3.Function('IMG', z3.IntSort(), z3.SetSort(z3.IntSort()),
                    z3.SetSort(seq.esort))
    t = f(seq.sid, st)
    y = z3.Const(ctx.sym('y'), seq.esort)
    ctx.assume(z3.ForAll([y], z3.IsMember(y, t) == z3.Exists([q], z3.And(
        z3.IsMember(q, st), seq.at(q) == y))))
    return VSet(t, seq.esort)
  if identity:
    rset = z3.Lambda([q], z3.And(z3.IsMember(q, st), cond))
    if as_set:
      return VSet(rset, es)
    # order-preserving filter of a sequence
    out = TSeq(es, dupfree=dup).fresh(ctx, 'flt')
    ctx.assume(out.elems == rset)
    if dup:
      ctx.assume(out.length == cardlemmas.card(rset))
    if at is not None:
      pos = z3.Function(ctx.sym('flt.pos'), z3.IntSort(), z3.IntSort())
      i, j = z3.Int(ctx.sym('i')), z3.Int(ctx.sym('j'))
      ctx.assume(z3.ForAll([i], z3.Implies(
          z3.And(i >= 0, i < out.length),
          z3.And(pos(i) >= 0, pos(i) < length, at(pos(i)) == out.at(i)))))
      ctx.assume(z3.ForAll([i, j], z3.Implies(
          z3.And(i >= 0, i < j, j < out.length), pos(i) < pos(j))))
      out.pos = pos
    return out
  # image set {elt(q) | q in src, cond}
  et = elt
  if isinstance(et, VOpt):
    et = et.val
  if isinstance(et, VStr):
    return VStr('<list of strings>')     # only ever joined into a message
  if isinstance(et, (VInt, VBool)):
    rs, tt = z3.IntSort(), num_term(et)
  elif isinstance(et, (VOpaque, VSet, VReal)):
    rs, tt = et.t.sort(), et.t
  else:
    ex.unsupported(node, 'comprehension element %s' % et.kind)
  y = z3.Const(ctx.sym('y'), rs)
  img = z3.Lambda([y], z3.Exists([q], z3.And(z3.IsMember(q, st), cond,
                                             tt == y)))
  if as_set:
    return VSet(img, rs)
  out = TSeq(rs).fresh(ctx, 'img')
  ctx.assume(out.elems == img)
  return out


L['list.comprehension'] = lambda ex, node, env: _comprehension(ex, node, env,
                                                               False)
L['set.comprehension'] = lambda ex, node, env: _comprehension(ex, node, env,
                                                              True)


# --------------------------------------------------------------------------
# set methods


def _other_set(ex, recv, arg, node):
  return to_set(ex, arg, node, recv.esort)


@vmethod('set', 'union')
def _s_union(ex, recv, args, kwargs, node):
  o = _other_set(ex, recv, args[0], node)
  return VSet(z3.SetUnion(recv.t, o.t), recv.esort)


@vmethod('set', 'intersection')
def _s_inter(ex, recv, args, kwargs, node):
  o = _other_set(ex, recv, args[0], node)
  return VSet(z3.SetIntersect(recv.t, o.t), recv.esort)


@vmethod('set', 'difference')
def _s_diff(ex, recv, args, kwargs, node):
  o = _other_set(ex, recv, args[0], node)
  return VSet(z3.SetDifference(recv.t, o.t), recv.esort)


@vmethod('set', 'symmetric_difference')
def _s_symdiff(ex, recv, args, kwargs, node):
  o = _other_set(ex, recv, args[0], node)
  return VSet(z3.SetUnion(z3.SetDifference(recv.t, o.t),
                          z3.SetDifference(o.t, recv.t)), recv.esort)


@vmethod('set', 'issubset')
def _s_issubset(ex, recv, args, kwargs, node):
  o = _other_set(ex, recv, args[0], node)
  return VBool(z3.IsSubset(recv.t, o.t))


@vmethod('set', 'issuperset')
def _s_issuperset(ex, recv, args, kwargs, node):
  o = _other_set(ex, recv, args[0], node)
  return VBool(z3.IsSubset(o.t, recv.t))


@vmethod('set', 'copy')
def _s_copy(ex, recv, args, kwargs, node):
  return VSet(recv.t, recv.esort)


# --------------------------------------------------------------------------
# str methods (strings are opaque except literals)


@vmethod('str', 'format')
def _str_format(ex, recv, args, kwargs, node):
  return VStr('<formatted>')


@vmethod('str', 'join')
def _str_join(ex, recv, args, kwargs, node):
  v = args[0]
  bad = None
  # geo IDs (strings) are integer codes, so symbolic containers cannot be
  # told apart from index containers here; only literal numbers are flagged.
  if isinstance(v, VTuple) and any(
      isinstance(i, (VInt, VReal, VBool)) for i in v.items):
    bad = z3.BoolVal(True)
  if bad is not None:
    ex.safety(z3.Not(bad), 'TypeError', node, 'str.join on non-strings')
  return VStr('<joined>')


# --------------------------------------------------------------------------
# namedtuple / tuple methods


@vmethod('tuple', '_replace')
def _nt_replace(ex, recv, args, kwargs, node):
  items = list(recv.items)
  for k, v in kwargs.items():
    if not recv.names or k not in recv.names:
      ex.safety(z3.BoolVal(False), 'ValueError', node, '_replace field ' + k)
      raise PathEnd('bad field')
    items[recv.names.index(k)] = v
  return VTuple(items, recv.names, recv.tname)


# --------------------------------------------------------------------------
# abstract lists


@vmethod('list', 'pop')
def _l_pop(ex, recv, args, kwargs, node):
  if args:
    ex.unsupported(node, 'list.pop(i)')
  ex.safety(recv.length > 0, 'IndexError', node, 'pop from empty list')
  last = recv.at(recv.length - 1)
  # value semantics of the popped list are not needed by the callers: the
  # receiver is shortened in place.
  recv.length = recv.length - 1
  recv.elems = None if not recv.dupfree else (
      z3.SetDel(recv.elems, last) if recv.elems is not None else None)
  return term_value(last, recv.esort)


@vmethod('list', 'append')
def _l_append(ex, recv, args, kwargs, node):
  x = args[0]
  ctx = ex.ctx
  if recv.esort is None:
    # first element fixes the element sort of an empty list()
    if isinstance(x, VSet):
      recv.esort = x.t.sort()
    elif isinstance(x, (VInt, VBool)):
      recv.esort = z3.IntSort()
    elif isinstance(x, VOpaque):
      recv.esort = x.t.sort()
    elif isinstance(x, VObj):
      recv.esort = ItemSort
    else:
      ex.unsupported(node, 'append of %s' % x.kind)
    recv.at = z3.Function(ctx.sym('lst.at'), z3.IntSort(), recv.esort)
    recv.elems = z3.EmptySet(recv.esort)
  if isinstance(x, VObj):
    from mmverif.engine import libcontracts
    xt = libcontracts.item_term(x)
    _rf = libcontracts.item_hook(ctx, 'reflect')
    if _rf is not None:
      _rf(ctx, x, xt)
  else:
    xt = elem_term(x, recv.esort)
  old_at, n = recv.at, recv.length
  new_at = z3.Function(ctx.sym('lst.at'), z3.IntSort(), recv.esort)
  i = z3.Int(ctx.sym('i'))
  ctx.assume(z3.ForAll([i], new_at(i) == z3.If(i == n, xt, old_at(i))))
  recv.at = new_at
  recv.length = n + 1
  if recv.elems is not None:
    recv.elems = z3.SetAdd(recv.elems, xt)
  recv.dupfree = False
  if isinstance(x, VObj):
    recv.objs = getattr(recv, 'objs', []) + [x]
  return NONE


@lib('list.slice')
def _l_slice(ex, args, kwargs, node):
  recv, lo, hi = args
  ctx = ex.ctx
  if not isinstance(lo, VNone):
    ex.unsupported(node, 'list slice with a lower bound')
  if isinstance(hi, VNone):
    return VSeq(recv.length, recv.at, recv.esort, recv.elems, recv.dupfree,
                sid=recv.sid)
  h = num_term(ex.need_not_none(hi, node, 'slice bound'))
  n = recv.length
  # Python: negative bounds count from the end
  m = z3.If(h >= 0, z3.If(h < n, h, n), z3.If(n + h > 0, n + h, 0))
  out = VSeq(m, recv.at, recv.esort, None, recv.dupfree)
  if recv.elems is not None:
    e = z3.Const(ctx.sym('e'), recv.esort)
    i = z3.Int(ctx.sym('i'))
    out.elems = z3.Lambda([e], z3.Exists([i], z3.And(i >= 0, i < m,
                                                     recv.at(i) == e)))
    if recv.dupfree:
      ctx.assume(cardlemmas.card(out.elems) == m)
    ctx.assume(z3.IsSubset(out.elems, recv.elems))
  return out


@lib('list.concat')
def _l_concat(ex, args, kwargs, node):
  a, b = args
  ctx = ex.ctx
  if isinstance(a, VSeq) and a.esort is None and isinstance(b, VSeq):
    return VSeq(b.length, b.at, b.esort, b.elems, b.dupfree, sid=b.sid)
  if isinstance(a, VSeq) and isinstance(b, VSeq):
    out = TSeq(a.esort).fresh(ctx, 'cat')
    ctx.assume(out.length == a.length + b.length)
    if a.elems is not None and b.elems is not None:
      ctx.assume(out.elems == z3.SetUnion(a.elems, b.elems))
    return out
  ex.unsupported(node, 'list concatenation of %s and %s' % (a.kind, b.kind))


@lib('store.subscript')
def _store_subscript(ex, args, kwargs, node):
  recv, idx, v = args
  if isinstance(recv, VDict):
    # dicts are mutable objects: update in place (aliases see the change)
    k = elem_term(idx, recv.ksort)
    recv.dom = z3.SetAdd(recv.dom, k)
    recv.val = z3.Store(recv.val, k, encode(
        v if not isinstance(v, VOpt) else v.val))
    return None
  if recv.kind == 'constdict' and isinstance(idx, VStr):
    sh = getattr(recv, 'shapes', None)
    if sh is not None and idx.s in sh:
      from mmverif.engine.symexec import conform
      v = conform(ex.ctx, v, sh[idx.s])
    new = recv.store(idx.s, v)
    new.shapes = sh
    return new
  h = L.get(('store.subscript', recv.kind if not isinstance(recv, VOpaque)
             else recv.okind))
  if h is not None:
    return h(ex, recv, idx, v, node)
  ex.unsupported(node, 'subscript store on %s' % recv.kind)


@vmethod('dict', 'pop')
def _d_pop(ex, recv, args, kwargs, node):
  k = elem_term(args[0], recv.ksort)
  if len(args) < 2:
    ex.safety(z3.IsMember(k, recv.dom), 'KeyError', node, 'dict.pop key')
  old = decode(z3.Select(recv.val, k), recv.vshape)
  present = z3.IsMember(k, recv.dom)
  recv.dom = z3.SetDel(recv.dom, k)
  if len(args) < 2:
    return old
  if isinstance(args[1], VNone):
    return VOpt(z3.Not(present), old)
  return ite_value(present, old, args[1])


@vmethod('dict', 'keys')
def _d_keys(ex, recv, args, kwargs, node):
  return VSet(recv.dom, recv.ksort)


@vmethod('dict', 'copy')
def _d_copy(ex, recv, args, kwargs, node):
  return VDict(recv.dom, recv.val, recv.ksort, recv.vshape)


for _n in ('gt', 'lt', 'ge', 'le'):
  def _mk(n):
    def h(ex, args, kwargs, node):
      from mmverif.engine import dyn
      return dyn.operator_fn(n)(ex, args, kwargs, node)
    return h
  L['operator.' + _n] = _mk(_n)
