"""Loop cutting: for/while with sidecar invariants."""
import ast

import z3

from mmverif.engine import cardlemmas
from mmverif.engine.symexec import (BreakSig, ContinueSig, PathEnd, NS,
                                    elem_term, term_value)
from mmverif.engine.values import *  # pylint: disable=wildcard-import


class VIter(V):
  """Abstract finite iteration: length + element constructor.

  elem(ctx, k) returns the k-th element (a value) and may assume facts.
  `visited_sort` (optional) makes a ghost set `visited` of the elements seen
  so far available to invariants (elements must then be encodable).
  """
  kind = 'iter'

  def __init__(self, n, elem, visited_sort=None, distinct=False, whole=None,
               to_term=None):
    self.n = n
    self.elem = elem
    self.visited_sort = visited_sort
    self.distinct = distinct
    self.whole = whole        # z3 set of all elements, when known
    self.to_term = to_term

  def flatten(self):
    raise EngineError('iterator passed to an uninterpreted function')


def iteration_model(ex, it, node):
  ctx = ex.ctx
  if hasattr(it, 'py_iter'):
    it = it.py_iter(ex, node)
  if isinstance(it, VIter):
    return it
  if isinstance(it, VRange):
    n = z3.If(it.hi > it.lo, it.hi - it.lo, z3.IntVal(0))
    return VIter(n, lambda c, k: VInt(it.lo + k))
  if isinstance(it, VSet):
    return set_iter(ctx, it.t, it.esort)
  if isinstance(it, VDict):
    return set_iter(ctx, it.dom, it.ksort)
  if isinstance(it, VSeq) and it.esort == ItemSort:
    from mmverif.engine import libcontracts
    lift = libcontracts.item_hook(ctx, 'lift')
    if lift is not None:
      def elem_obj(c, k):
        t = it.at(k)
        if it.elems is not None:
          c.assume(z3.IsMember(t, it.elems))
        o = lift(c, t)
        o.item_term = t
        return o
      return VIter(it.length, elem_obj,
                   visited_sort=ItemSort if it.elems is not None else None,
                   distinct=it.dupfree, whole=it.elems,
                   to_term=lambda v: v.item_term)
  if isinstance(it, VSeq):
    return VIter(it.length, lambda c, k: term_value(it.at(k), it.esort),
                 visited_sort=it.esort if it.elems is not None else None,
                 distinct=it.dupfree, whole=it.elems,
                 to_term=lambda v: elem_term(v, it.esort))
  ex.unsupported(node, 'iteration over %s' % it.kind)


def set_iter(ctx, sterm, esort):
  n = cardlemmas.card(sterm)

  def elem(c, k):
    e = z3.Const(c.sym('e'), esort)
    c.assume(z3.IsMember(e, sterm))
    return term_value(e, esort)

  return VIter(n, elem, visited_sort=esort, distinct=True, whole=sterm,
               to_term=lambda v: elem_term(v, esort))


def assigned_names(stmts):
  out = set()

  class Vis(ast.NodeVisitor):

    def visit_Name(self, n):
      if isinstance(n.ctx, (ast.Store, ast.Del)):
        out.add(n.id)

    def visit_FunctionDef(self, n):
      out.add(n.name)

    def visit_Subscript(self, n):
      if isinstance(n.ctx, ast.Store) and isinstance(n.value, ast.Name):
        out.add(n.value.id)
      self.generic_visit(n)

    def visit_Call(self, n):
      f = n.func
      if isinstance(f, ast.Attribute) and isinstance(f.value, ast.Name) and (
          f.attr in ('append', 'extend', 'pop', 'add', 'remove', 'update',
                     'insert', 'clear', 'discard')):
        out.add(f.value.id)
      self.generic_visit(n)

  for s in stmts:
    Vis().visit(s)
  return out


def visible_vars(env):
  vals = {}
  chain = []
  e = env
  while e is not None:
    chain.append(e)
    e = e.parent
  for e in reversed(chain):
    vals.update(e.vars)
  return vals


def active_gen(env):
  e = env
  while e is not None:
    if e.gen is not None:
      return e.gen
    e = e.parent
  return None


def inv_ns(ex, env, ghost):
  ctx = ex.ctx
  vals = visible_vars(env)
  g = active_gen(env)
  if g is not None and g.ys is not None:
    ghost = dict(ghost)
    ghost['yielded'] = VSet(g.ys, g.esort)
  return NS(ctx, vals, heap=None, old=ctx.entry_old_ns, extra=ghost)


def check_invs(ex, spec, env, ghost, kind):
  ns = inv_ns(ex, env, ghost)
  for cl in spec.invariants:
    g = cl.fn(ns)
    ex.ctx.oblige(g, cl.label, kind, cl.props)
    ex.ctx.assume(g)


def assume_invs(ex, spec, env, ghost):
  ns = inv_ns(ex, env, ghost)
  for cl in spec.invariants:
    ex.ctx.assume(cl.fn(ns))


def fresh_like(ctx, v, name):
  return shape_of(v).fresh(ctx, name)


def havoc(ex, env, modified):
  ctx = ex.ctx
  g = active_gen(env)
  if g is not None and g.ys is not None:
    g.ys = z3.Const(ctx.sym('yielded'), z3.SetSort(g.esort))
  for m in sorted(modified):
    if m == '@lheap':
      from mmverif.engine import libcontracts
      h = libcontracts.lheap(ctx)
      n = ctx.sym('lheap')
      h['bag'] = z3.Const(n + '.bag', h['bag'].sort())
      h['len'] = z3.Const(n + '.len', h['len'].sort())
      h['desc'] = z3.Const(n + '.desc', h['desc'].sort())
      h['heap'] = z3.Const(n + '.heap', h['heap'].sort())
      h['alloc'] = z3.Int(n + '.alloc')
      continue
    if '.' in m:
      root, field = m.split('.', 1)
      obj = env.lookup(root)
      if obj is None:
        continue
      parts = field.split('.')
      for f in parts[:-1]:
        obj = ctx.get_field(obj if isinstance(obj, VObj) else obj.val, f)
      if isinstance(obj, VOpt):
        obj = obj.val
      if not isinstance(obj, VObj):
        raise EngineError('loop modifies %s: not an object' % m)
      cs = ex.world.class_spec(obj.cls)
      last = parts[-1]
      fields = list(cs.fields) if last == '*' else [last]
      for f in fields:
        if cs is None or f not in cs.fields:
          raise EngineError('loop modifies %s: no declared shape' % m)
        ctx.objects[obj.oid].fields[f] = cs.fields[f].fresh(
            ctx, 'h_%s.%s' % (root, f))
      continue
    e = env
    while e is not None and m not in e.vars:
      e = e.parent
    if e is None:
      continue          # first assigned inside the loop: not live at the head
    e.vars[m] = fresh_like(ctx, e.vars[m], 'h_' + m)


def state_marks(ex, env):
  """Identity snapshot of all variables and heap fields."""
  ctx = ex.ctx
  vars_ = {}
  e = env
  depth = 0
  while e is not None:
    for k, v in e.vars.items():
      vars_.setdefault((depth, k), v)
    e = e.parent
    depth += 1
  heap = {(oid, f): v for oid, rec in ctx.objects.items()
          for f, v in rec.fields.items()}
  return vars_, heap


def check_frame_of_loop(ex, env, before, modified, node):
  """Everything not havocked at the head must be unchanged at the back edge,
  otherwise the cut would be unsound: engine error, not a violation."""
  vars0, heap0 = before
  vars1, heap1 = state_marks(ex, env)
  mod_names = {m for m in modified if '.' not in m}
  for (d, k), v in vars0.items():
    if (d, k) in vars1 and vars1[(d, k)] is not v and k not in mod_names:
      raise EngineError('loop at line %d changes %s, which is not in its '
                        'havoc set' % (node.lineno, k))
  mod_fields = set()
  for m in modified:
    if '.' in m:
      mod_fields.add(m.split('.')[-1])
  for key, v in heap0.items():
    rec = ex.ctx.objects.get(key[0])
    if rec is not None and getattr(rec, 'epoch', -1) == ex.ctx.epoch:
      continue      # object of this iteration (fresh or havocked at the head)
    if heap1.get(key) is not v and key[1] not in mod_fields and (
        '*' not in mod_fields):
      raise EngineError('loop at line %d changes field %s of object %d, '
                        'which is not in its havoc set' %
                        (node.lineno, key[1], key[0]))


def check_no_frozen_alias(ex, env, node, head_names):
  """At a back edge no variable that is live at the loop head may refer to an
  object owned by a stored result (ownership argument of C04).  Names first
  assigned inside the body are not defined at the head of the next iteration
  in this encoding, so reading them before assignment is an engine error."""
  ctx = ex.ctx
  if not ctx.frozen:
    return
  for name, v in visible_vars(env).items():
    if name not in head_names:
      continue
    if isinstance(v, VObj) and v.oid in ctx.frozen:
      ctx.oblige(z3.BoolVal(False),
                 'loop-carried variable %s does not alias an object owned by '
                 'a stored result' % name, 'frame', ('C04',))


def exec_for(ex, node, env):
  ctx = ex.ctx
  if node.orelse:
    ex.unsupported(node, 'for/else')
  it = ex.eval(node.iter, env)
  if isinstance(it, VTuple):
    for item in it.items:
      ex.assign_target(node.target, item, env, node)
      try:
        ex.exec_block(node.body, env)
      except ContinueSig:
        continue
      except BreakSig:
        break
    return
  spec = ex.find_loop_spec(node, env)
  if spec is None:
    ex.unsupported(node, 'loop without invariant in the sidecar: for %s in %s'
                   % (ast.unparse(node.target), ast.unparse(node.iter)))
  for ev in getattr(ex, 'iter_events', []):
    ev.add('loop:' + ast.unparse(node.target))
  model = iteration_model(ex, it, node)
  modified = set(spec.modifies) if spec.modifies is not None else (
      assigned_names(node.body))
  modified |= set(spec.extra_modifies)
  modified |= assigned_names([ast.Assign(targets=[node.target], value=None)])
  line = node.lineno

  def ghost_at(k, vis):
    g = {'iter_index': VInt(k), 'iter_count': VInt(model.n)}
    if vis is not None:
      g['visited'] = VSet(vis, model.visited_sort)
    for name, fn in spec.ghost.items():
      g[name] = fn
    return g

  vis0 = z3.EmptySet(model.visited_sort) if model.visited_sort is not None else None
  ctx.cur_line = line
  check_invs(ex, spec, env, ghost_at(z3.IntVal(0), vis0), 'loop-init')
  d = ctx.choice(2)
  if d == 0:
    ctx.epoch += 1      # objects made by the havoc belong to this iteration
  havoc(ex, env, modified)
  if d == 0:
    k = z3.Int(ctx.sym('k'))
    ctx.assume(z3.And(k >= 0, k < model.n))
    vis = None
    if model.visited_sort is not None:
      vis = z3.Const(ctx.sym('visited'), z3.SetSort(model.visited_sort))
      if model.whole is not None:
        ctx.assume(z3.IsSubset(vis, model.whole))
      if model.distinct:
        ctx.assume(cardlemmas.card(vis) == k)
    assume_invs(ex, spec, env, ghost_at(k, vis))
    if spec.export_visited and vis is not None:
      env.assign(spec.export_visited, VSet(vis, model.visited_sort))
    elem = model.elem(ctx, k)
    if vis is not None and model.distinct:
      ctx.assume(z3.Not(z3.IsMember(model.to_term(elem), vis)))
    head_names = set(visible_vars(env))
    ex.assign_target(node.target, elem, env, node)
    before = state_marks(ex, env)
    events = set()
    if not hasattr(ex, 'iter_events'):
      ex.iter_events = []
    ex.iter_events.append(events)
    normal = True
    try:
      try:
        ex.exec_block(node.body, env)
      except ContinueSig:
        normal = False
      except BreakSig:
        if spec.no_break:
          ctx.cur_line = line
          ctx.oblige(z3.BoolVal(False), 'C03 the enumeration is not left '
                     'early (no break)', 'flow', spec.props_flow)
        return
    finally:
      ex.iter_events.pop()
    if normal:
      ctx.cur_line = line
      if spec.must_call:
        ctx.oblige(z3.BoolVal(('call:' + spec.must_call) in events),
                   'C03 an enumerated element that is not skipped reaches %s'
                   % spec.must_call, 'flow', spec.props_flow)
      if spec.must_iterate:
        ctx.oblige(z3.BoolVal(('loop:' + spec.must_iterate) in events),
                   'C03 an enumerated element that is not skipped is expanded '
                   'by the loop over %s' % spec.must_iterate, 'flow',
                   spec.props_flow)
    check_frame_of_loop(ex, env, before, modified, node)
    check_no_frozen_alias(ex, env, node, head_names)
    vis1 = z3.SetAdd(vis, model.to_term(elem)) if vis is not None else None
    ctx.cur_line = line
    check_invs(ex, spec, env, ghost_at(k + 1, vis1), 'loop-preserve')
    raise PathEnd('loop back edge')
  # exit: all elements visited
  vis = None
  if model.visited_sort is not None:
    if model.whole is not None:
      vis = model.whole
    else:
      vis = z3.Const(ctx.sym('visited'), z3.SetSort(model.visited_sort))
  assume_invs(ex, spec, env, ghost_at(model.n, vis))


def exec_while(ex, node, env):
  ctx = ex.ctx
  if node.orelse:
    ex.unsupported(node, 'while/else')
  spec = ex.find_loop_spec(node, env)
  if spec is None:
    ex.unsupported(node, 'while loop without invariant in the sidecar')
  modified = set(spec.modifies) if spec.modifies is not None else (
      assigned_names(node.body))
  modified |= set(spec.extra_modifies)
  line = node.lineno
  ctx.cur_line = line
  check_invs(ex, spec, env, dict(spec.ghost), 'loop-init')
  d = ctx.choice(2)
  if d == 0:
    ctx.epoch += 1
  havoc(ex, env, modified)
  assume_invs(ex, spec, env, dict(spec.ghost))
  if d == 0:
    v0 = None
    if spec.variant is not None:
      v0 = spec.variant(inv_ns(ex, env, dict(spec.ghost)))
    c = ex.eval(node.test, env)
    if not ctx.branch(as_bool_term(c)):
      raise PathEnd('exit covered by the other branch')
    before = state_marks(ex, env)
    try:
      ex.exec_block(node.body, env)
    except ContinueSig:
      pass
    except BreakSig:
      return
    check_frame_of_loop(ex, env, before, modified, node)
    ctx.cur_line = line
    check_invs(ex, spec, env, dict(spec.ghost), 'loop-preserve')
    if v0 is not None:
      ns1 = inv_ns(ex, env, dict(spec.ghost))
      v1 = spec.variant(ns1)
      goal = lex_decreases(v0, v1)
      if spec.variant_lemmas is not None:
        hyps = [h for _, h in spec.variant_lemmas(ns1, v0, v1)]
        goal = z3.Implies(z3.And(hyps), goal)
      ctx.oblige(goal, 'termination: the loop variant decreases '
                 'lexicographically and is bounded below', 'variant',
                 ('C09',))
    raise PathEnd('loop back edge')
  c = ex.eval(node.test, env)
  if ctx.branch(as_bool_term(c)):
    raise PathEnd('body covered by the other branch')


def lex_decreases(v0, v1):
  """Lexicographic decrease of tuples of non-negative integer terms."""
  if not isinstance(v0, (list, tuple)):
    v0, v1 = [v0], [v1]
  a = [num_term(x) if isinstance(x, V) else x for x in v0]
  b = [num_term(x) if isinstance(x, V) else x for x in v1]
  res = z3.BoolVal(False)
  for i in range(len(a) - 1, -1, -1):
    res = z3.Or(z3.And(b[i] < a[i], a[i] >= 0),
                z3.And(b[i] == a[i], res))
  return res
