"""Verification driver: explore all paths of a function under its contract."""
import ast
import os
import time

import z3

from mmverif.engine import frontend
from mmverif.engine import loops as loopmod
from mmverif.engine import specs as specmod
from mmverif.engine import symexec
from mmverif.engine.symexec import (Ctx, Env, Exec, NS, PathEnd, RaiseSig,
                                    ReturnSig, Unit, WORLD, unwrap)
from mmverif.engine.values import *  # pylint: disable=wildcard-import

MAX_PATHS = 4000


def elem_sort_of(shape):
  if isinstance(shape, TSet):
    return z3.SetSort(shape.esort)
  if isinstance(shape, TInt):
    return z3.IntSort()
  return None


class GenState:
  """Ghost state of a generator body: the set of values yielded so far."""

  def __init__(self, contract):
    self.contract = contract
    self.count = 0
    self.esort = elem_sort_of(getattr(contract, 'elem', None))
    self.ys = z3.EmptySet(self.esort) if self.esort is not None else None

  def add_range(self, lo, hi):
    if self.ys is not None and self.esort == z3.IntSort():
      from mmverif.engine import cardlemmas
      self.ys = z3.SetUnion(self.ys, cardlemmas.range_set(lo, hi))

  def on_yield(self, ex, v, node):
    ctx = ex.ctx
    self.count += 1
    if self.ys is not None:
      self.ys = z3.SetAdd(self.ys, symexec.elem_term(v, self.esort))
    vals = loopmod.visible_vars(self.env)
    vals = dict(vals)
    vals['elem'] = v
    ns = NS(ctx, vals, heap=None, old=ctx.entry_old_ns)
    ctx.cur_line = getattr(node, 'lineno', ctx.cur_line)
    npc = len(ctx.pc)
    for cl in self.contract.yields:
      g = cl.fn(ns)
      ctx.oblige(g, cl.label, 'yield', cl.props)
      ctx.assume(g)


def resolve_modifies(ctx, contract, values):
  """(oid, field) pairs the contract allows the function to change."""
  allowed = set()
  for path in contract.modifies:
    if path == '@lheap':
      continue
    parts = path.split('.')
    root = values.get(parts[0])
    if root is None:
      raise EngineError('modifies %s: unknown root' % path)
    obj = root
    for f in parts[1:-1]:
      if isinstance(obj, VOpt):
        obj = obj.val
      obj = ctx.old_heap[obj.oid].get(f) if f in ctx.old_heap[obj.oid] else (
          ctx.get_field(obj, f))
    if isinstance(obj, VOpt):
      obj = obj.val
    if not isinstance(obj, VObj):
      raise EngineError('modifies %s does not denote an object field' % path)
    allowed.add((obj.oid, parts[-1]))
  return allowed


def run_path(unit, src, cs, fdef, prefix, define=False):
  contract = unit.contract
  sp = unit.modspec
  ctx = Ctx(unit, prefix)
  ex = Exec(ctx)
  qual = contract.qualname
  env = Env(src, cs, qualname=contract.fn_qualname)
  values = {}
  params = [a.arg for a in fdef.args.args]
  if fdef.args.vararg is not None:
    params.append(fdef.args.vararg.arg)     # *args: one opaque tuple
  if fdef.args.kwarg is not None:
    params.append(fdef.args.kwarg.arg)      # **kwargs: one opaque mapping
  is_static = cs is not None and fdef.name in cs.static
  if cs is not None and not is_static and params and params[0] == 'self':
    # a constructor starts from an object without instance fields (class
    # level defaults apply); every other method from an arbitrary object
    self_obj = ctx.new_object(cs.name, 'self',
                              symbolic=(fdef.name != '__init__'))
    values['self'] = self_obj
    params = params[1:]
  for p in params:
    if p in contract.const_args:
      values[p] = contract.const_args[p]
      continue
    if p not in contract.params:
      raise EngineError('%s: parameter %s has no declared shape' % (qual, p))
    values[p] = contract.params[p].fresh(ctx, p)
  for name, shape in contract.captured.items():
    values[name] = shape.fresh(ctx, name)
  env.vars.update(values)
  for label, fn in sp.axioms:
    ctx.assume(fn(ctx))
  if contract.setup is not None:
    contract.setup(ctx, env, values)
  if define:
    contract.define_fresh(ctx, values)
    ctx.no_oblige = True
  pre_ns = NS(ctx, dict(values), heap=None)
  for cl in contract.requires:
    ctx.assume(cl.fn(pre_ns))
  if not define and contract.define_fresh is not None:
    # Definition of the spec function F_h: ghost-execute the body from the
    # FRESH state (same x, y, parameters, all caches empty) inside this path
    # and record  F_h(x, y, par) == <value it returns>.  The decisions of the
    # ghost run become part of the path (case analysis over library
    # predicates); the heap is restored afterwards.
    snap = {oid: dict(rec.fields) for oid, rec in ctx.objects.items()}
    n_obj = set(ctx.objects)
    contract.define_fresh(ctx, values)
    ctx.no_oblige = True
    genv = Env(src, cs, qualname=contract.fn_qualname)
    genv.vars.update(values)
    fresh_res = None
    try:
      try:
        ex.exec_block(frontend.strip_docstring(fdef.body), genv)
        fresh_res = NONE
      except ReturnSig as r:
        fresh_res = r.value
      except RaiseSig:
        fresh_res = None
    finally:
      ctx.no_oblige = False
    for oid, fields in snap.items():
      ctx.objects[oid].fields.clear()
      ctx.objects[oid].fields.update(fields)
    ctx.memo = {}
    if fresh_res is not None:
      if contract.result is not None:
        fresh_res = symexec.conform(ctx, fresh_res, contract.result)
      fv = unwrap(contract.returns(pre_ns))
      ctx.assume(eq_term(fv, fresh_res))
  if not ctx.feasible(z3.BoolVal(True)):
    unit.vacuous = True
  ctx.old_heap = ctx.snapshot_heap()
  ctx.entry_old_ns = NS(ctx, dict(values), heap=ctx.old_heap)
  entry_marks = {(oid, f): (v, ctx.old_heap[oid][f])
                 for oid, rec in ctx.objects.items()
                 for f, v in rec.fields.items()}
  is_gen = any(isinstance(n, (ast.Yield, ast.YieldFrom))
               for n in ast.walk(fdef) if n is not fdef)
  if is_gen:
    env.gen = GenState(contract)
    env.gen.env = env
  outcome = None
  try:
    try:
      ex.exec_block(frontend.strip_docstring(fdef.body), env)
      outcome = ('return', NONE)
    except ReturnSig as r:
      outcome = ('return', r.value)
    except RaiseSig as r:
      outcome = ('raise', r.exc)
    if define:
      if outcome[0] == 'return':
        res = outcome[1]
        if contract.result is not None:
          res = symexec.conform(ctx, res, contract.result)
        unit.fresh_paths.append((list(ctx.pc), res))
    elif outcome[0] == 'return':
      check_return(ctx, contract, values, outcome[1], entry_marks, fdef, env)
    else:
      check_raise(ctx, contract, values, outcome[1], fdef)
  except PathEnd as e:
    outcome = ('cut', e.reason)
  unit.path_outcomes.append(outcome[0] + ':' + str(outcome[1])[:40])
  return ctx


def check_return(ctx, contract, values, result, entry_marks, fdef, env):
  ctx.cur_line = fdef.lineno
  ctx.cur_func = contract.qualname
  vals = dict(values)
  if isinstance(result, VOpt) and contract.result is not None and not isinstance(
      contract.result, TOpt):
    ctx.oblige(z3.Not(result.none), 'result is not None', 'post',
               contract.props)
    ctx.assume(z3.Not(result.none))
    result = result.val
  if contract.result is not None:
    result = symexec.conform(ctx, result, contract.result)
  vals['result'] = result
  if env.gen is not None:
    vals['n_yields'] = VInt(env.gen.count)
    if env.gen.ys is not None:
      vals['yielded'] = VSet(env.gen.ys, env.gen.esort)
  ns = NS(ctx, vals, heap=None, old=ctx.entry_old_ns)
  if env.gen is not None:
    for cl in contract.gen_post:
      g = cl.fn(ns)
      ctx.oblige(g, cl.label, 'post', cl.props)
      ctx.assume(g)
  if contract.returns is not None:
    want = unwrap(contract.returns(ctx.entry_old_ns))
    ctx.oblige(eq_term(result, want),
               'returns the value a freshly built object reports', 'post',
               contract.props)
  for cl in contract.ensures:
    g = cl.fn(ns)
    ctx.oblige(g, cl.label, 'post', cl.props)
    ctx.assume(g)      # proved clauses may be used by the following ones
  for path, fn in contract.binds.items():
    parts = path.split('.')
    obj = values[parts[0]]
    for f in parts[1:-1]:
      obj = ctx.get_field(obj, f)
      if isinstance(obj, VOpt):
        obj = obj.val
    cur = ctx.get_field(obj, parts[-1])
    want = unwrap(fn(ns))
    if isinstance(cur, VOpt) and not isinstance(want, VOpt):
      ctx.oblige(z3.Not(cur.none), 'binds %s: not None' % path, 'post',
                 contract.props)
      cur = cur.val
    if isinstance(want, VObj):
      same = z3.BoolVal(isinstance(cur, VObj) and cur.oid == want.oid)
    else:
      same = eq_term(cur, want)
    ctx.oblige(same, 'binds %s' % path, 'post', contract.props)
  for exc, cl in contract.raises.items():
    ctx.oblige(z3.Not(symexec.to_term(cl.fn(ctx.entry_old_ns))),
               'returns-only-if-not(%s)' % cl.label, 'raises', cl.props)
  # frame
  allowed = resolve_modifies(ctx, contract, values)
  for (oid, f), (live0, v0) in entry_marks.items():
    cur = ctx.objects[oid].fields.get(f)
    if cur is live0 and not hasattr(cur, 'same_as'):
      continue
    if hasattr(cur, 'same_as') and type(cur) is type(v0) and cur.same_as(v0):
      continue
    if (oid, f) in allowed or (oid, '*') in allowed:
      continue
    try:
      if hasattr(cur, 'flatten') and hasattr(v0, 'flatten') and type(
          cur) is type(v0) and hasattr(cur, 'same_as'):
        same = z3.And([a == b for a, b in zip(cur.flatten(), v0.flatten())])
      else:
        same = eq_term(cur, v0)
    except EngineError:
      same = z3.BoolVal(False)
    ctx.oblige(same, 'frame:%s.%s unchanged' % (ctx.objects[oid].cls, f),
               'frame', ('C10',) + tuple(contract.props))


def check_raise(ctx, contract, values, exc, fdef):
  ctx.cur_func = contract.qualname
  if exc in contract.raises:
    cl = contract.raises[exc]
    ctx.oblige(cl.fn(ctx.entry_old_ns), 'raises-%s-only-if(%s)' %
               (exc, cl.label), 'raises', cl.props)
    ns = NS(ctx, dict(values), heap=None, old=ctx.entry_old_ns)
    for c2 in contract.on_raise:
      ctx.oblige(c2.fn(ns), c2.label, 'post', c2.props)
    return
  if contract.raises_only is not None and exc in contract.raises_only:
    return
  ctx.oblige(z3.BoolVal(False), 'no %s escapes' % exc, 'raises',
             tuple(getattr(ctx.unit.modspec, 'safety_props', ('C09',))) +
             tuple(contract.props))


_PAR = {}


def _par_init(modname, qualname):
  """Worker initialiser (fork): the sidecars are already loaded."""
  sp = specmod.REGISTRY[modname]
  contract = sp.contracts[qualname]
  src = WORLD.source(modname)
  fdef, cs = src.find(contract.fn_qualname)
  _PAR['args'] = (sp, contract, src, fdef, cs, modname)


def _par_path(prefix):
  sp, contract, src, fdef, cs, modname = _PAR['args']
  unit = Unit(WORLD, sp, contract)
  unit.fdef = fdef
  unit.vacuous = False
  unit.modname = modname
  unit.sha256 = src.sha256
  unit.fresh_paths = _PAR.get('fresh_paths', []) if (
      contract.define_fresh is not None) else []
  try:
    ctx = run_path(unit, src, cs, fdef, prefix)
  except EngineError as e:
    return {'error': str(e)}
  return {'obligations': unit.obligations, 'pending': ctx.pending,
          'outcome': unit.path_outcomes[-1], 'vacuous': unit.vacuous}


def verify_function(modname, qualname):
  sp = specmod.REGISTRY[modname]
  contract = sp.contracts[qualname]
  src = WORLD.source(modname)
  fdef, cs = src.find(contract.fn_qualname)
  unit = Unit(WORLD, sp, contract)
  unit.fdef = fdef
  unit.vacuous = False
  unit.modname = modname
  unit.sha256 = src.sha256
  t0 = time.time()
  unit.fresh_paths = []
  workers = int(os.environ.get('MMVERIF_PATH_WORKERS', '0') or 0) or min(
      16, os.cpu_count() or 4)
  # first path in-process (most functions have a handful of paths)
  ctx = run_path(unit, src, cs, fdef, [])
  pending = list(ctx.pending)
  unit.paths = 1
  if len(pending) <= 3 or workers <= 1:
    while pending:
      prefix = pending.pop()
      ctx = run_path(unit, src, cs, fdef, prefix)
      pending.extend(ctx.pending)
      unit.paths += 1
      if unit.paths > MAX_PATHS:
        raise EngineError('%s: more than %d paths' % (qualname, MAX_PATHS))
    unit.gen_time = time.time() - t0
    return unit
  # many paths: explore prefixes in forked workers
  import concurrent.futures as cf
  import multiprocessing as mp
  seq = 0
  with cf.ProcessPoolExecutor(max_workers=workers,
                              mp_context=mp.get_context('fork'),
                              initializer=_par_init,
                              initargs=(modname, qualname)) as ex:
    inflight = {}
    order = []
    while pending or inflight:
      while pending and len(inflight) < workers * 2:
        p = pending.pop()
        fu = ex.submit(_par_path, p)
        inflight[fu] = (seq, p)
        seq += 1
      done, _ = cf.wait(list(inflight), return_when=cf.FIRST_COMPLETED)
      for fu in done:
        sq, p = inflight.pop(fu)
        r = fu.result()
        if 'error' in r:
          raise EngineError(r['error'])
        order.append((p, r))
        pending.extend(r['pending'])
        unit.paths += 1
        if unit.paths > MAX_PATHS:
          raise EngineError('%s: more than %d paths' % (qualname, MAX_PATHS))
  # deterministic order: by decision prefix
  order.sort(key=lambda pr: [int(x) for x in pr[0]])
  for p, r in order:
    tag = ''.join(str(int(x)) for x in p)
    for o in r['obligations']:
      o.name = unit.unique(o.name.split('~')[0])
      unit.obligations.append(o)
    unit.path_outcomes.append(r['outcome'])
    unit.vacuous = unit.vacuous or r['vacuous']
  unit.gen_time = time.time() - t0
  return unit


def verify_lemma(modname, label, fn, props=()):
  """A code-independent lemma over contracts: fn(ctx) -> (hyps, goal)."""
  sp = specmod.REGISTRY[modname]
  fake = specmod.Contract('lemma:' + label, props=props)
  unit = Unit(WORLD, sp, fake)
  unit.fdef = None
  unit.vacuous = False
  unit.modname = modname
  unit.sha256 = ''
  ctx = Ctx(unit, [])
  ctx.cur_func = 'lemma'
  hyps, goal = fn(ctx)
  for h in hyps:
    ctx.assume(h)
  ctx.oblige(goal, label, 'lemma', props)
  unit.paths = 1
  unit.gen_time = 0.0
  return unit
