"""TRUSTED row algebra of long-format pandas frames (tbrdiagnostics.py,
tbr_iroas.py): a frame is a finite set of ROWS of one source frame; row
filters keep row identity and cell values; nothing numeric is interpreted.

  VFrame(src, rows)     rows (positions in the source frame `src`) it holds
  COLV(src, c, r)       coded cell value (geo, date, group, period: equality
                        and membership only) of column c in source row r
  CELL(src, c, r)       numeric cell value
  LABEL(src, r)         row label (first index level) of source row r; labels
                        need NOT be unique
  SUMCOL(src, c, rows)  sum of column c over a set of rows

Column names are integer codes (constant names get fixed codes; names taken
from the semantics objects are arbitrary pairwise distinct codes).
"""
import ast

import z3

from mmverif.engine.lib import ASSUMPTIONS, lib, uf
from mmverif.engine.pandas_ledger import VBound
from mmverif.engine.symexec import PathEnd, RaiseSig
from mmverif.engine.values import *  # pylint: disable=wildcard-import

I = z3.IntSort()
R = z3.RealSort()
RowSet = z3.SetSort(I)

COLV = z3.Function('FR_COLV', I, I, I, I)
CELL = z3.Function('FR_CELL', I, I, I, R)
LABEL = z3.Function('FR_LABEL', I, I, I)
SUMCOL = z3.Function('FR_SUMCOL', I, I, RowSet, R)
NUM_OF_LABEL = z3.Function('FR_NUM_OF_LABEL', I, R)
# label codes of the strings the repository writes into cells
NAN_LABEL = z3.IntVal(-7001)
IA = z3.ArraySort(I, I)
RA = z3.ArraySort(I, R)
PivotS = sort_named('AnalysisData')
# pivot_table(index=[i1, i2], columns=cc, values=vv, aggfunc=sum): a function
# of the set of rows and of the four columns read (as row -> value maps)
PIVOT = z3.Function('FR_PIVOT_SUM', RowSet, IA, IA, IA, RA, PivotS)
RESET_INDEX = z3.Function('FR_RESET_INDEX', PivotS, I, PivotS)

ASSUMPTIONS.extend([
    'pandas frames: df.copy(), df[list of columns], df[mask], df.loc[mask] '
    'keep row identity and cell values; df[col].isin(S) / df[col] == v are '
    'the rows whose cell is in S / equals v; ~mask is the complement within '
    'the frame; df.index[mask] are the labels of the masked rows; '
    'df.drop(labels) removes EVERY row whose label is among them; '
    'df.loc[label] selects the rows with that first-level label and raises '
    'KeyError when there is none; sum(column) is a function of the set of '
    'rows (rounding ignored)',
])

_CODES = {}


def colcode(name):
  """Stable integer code of a constant column name."""
  if name not in _CODES:
    _CODES[name] = 7000 + len(_CODES)
  return z3.IntVal(_CODES[name])


def col_term(ex, v, node):
  if isinstance(v, VStr):
    return colcode(v.s)
  if isinstance(v, (VOpt, VNone)):
    v = ex.need_not_none(v, node, 'column name')
  if isinstance(v, VInt):
    return v.t
  ex.unsupported(node, 'column name of kind %s' % v.kind)


def to_codeset(ex, v, node):
  """z3 set of the coded values in a list / set of labels."""
  if isinstance(v, (VOpt, VNone)):
    v = ex.need_not_none(v, node, 'collection of values')
  if isinstance(v, VSet):
    return v.t
  if isinstance(v, VSeq):
    if v.elems is None:
      ex.unsupported(node, 'untracked list of values')
    return v.elems
  if isinstance(v, VFLabels):
    return v.t
  ex.unsupported(node, 'collection of kind %s' % v.kind)


class VFrame(V):
  kind = 'frame'

  def __init__(self, src, rows, over=()):
    self.src = src
    self.rows = rows
    # relabelled columns: (column code, function row -> coded value), latest
    # first; every other cell is that of the source frame
    self.over = tuple(over)

  def flatten(self):
    return [self.src, self.rows]

  def clone(self):
    return VFrame(self.src, self.rows, self.over)

  def colv(self, c, r):
    """Coded value of column c in row r of THIS frame."""
    t = COLV(self.src, c, r)
    for oc, fn in reversed(self.over):
      t = z3.If(c == oc, fn(r), t)
    return t

  def cellv(self, c, r):
    """Numeric value of column c in row r (a relabelled column holds
    labels: its numeric reading is an unspecified function of the label)."""
    t = CELL(self.src, c, r)
    for oc, fn in reversed(self.over):
      t = z3.If(c == oc, NUM_OF_LABEL(fn(r)), t)
    return t

  def py_getattr(self, ex, name, node):
    if name == 'copy':
      return VBound(lambda ex_, a, k, n: VFrame(self.src, self.rows,
                                                 self.over))
    if name == 'drop_duplicates':
      # keeps one row of every group of equal rows: SOME subset of the rows
      def dd(ex_, a, k, n):
        sub = z3.Const(ex_.ctx.sym('dedup.rows'), RowSet)
        ex_.ctx.assume(z3.IsSubset(sub, self.rows))
        return VFrame(self.src, sub, self.over)
      return VBound(dd)
    if name == 'pivot_table':
      return VBound(self._pivot_table)
    if name == 'loc':
      return VFLoc(self)
    if name == 'index':
      return VFIndex(self)
    if name == 'drop':
      return VBound(self._drop)
    ex.unsupported(node, 'frame attribute %s' % name)

  def _drop(self, ex, args, kwargs, node):
    if kwargs or len(args) != 1:
      ex.unsupported(node, 'drop with options')
    labels = to_codeset(ex, args[0], node)
    r = z3.Int(ex.ctx.sym('r'))
    gone = z3.Lambda([r], z3.IsMember(LABEL(self.src, r), labels))
    return VFrame(self.src, z3.SetDifference(self.rows, gone), self.over)

  def _pivot_table(self, ex, args, kwargs, node):
    if args or set(kwargs) != {'index', 'columns', 'values', 'aggfunc'}:
      ex.unsupported(node, 'pivot_table with these arguments')
    agg = kwargs['aggfunc']
    if not (getattr(agg, 'what', None) == 'lib' and agg.target == 'numpy.sum'
            ) and not (isinstance(agg, VStr) and agg.s == 'sum'):
      ex.unsupported(node, 'pivot_table aggfunc other than sum')
    idx = kwargs['index']
    if not (isinstance(idx, VTuple) and len(idx.items) == 2):
      ex.unsupported(node, 'pivot_table index is not a list of two columns')
    i1, i2 = (col_term(ex, v, node) for v in idx.items)
    cc = col_term(ex, kwargs['columns'], node)
    vv = col_term(ex, kwargs['values'], node)
    return VOpaque(pivot_term(self, i1, i2, cc, vv), 'AnalysisData')

  def py_getitem(self, ex, idx, node):
    if isinstance(idx, VFMask):
      if not idx.frame.src.eq(self.src):
        ex.unsupported(node, 'mask of another frame')
      return VFrame(self.src, z3.SetIntersect(self.rows, idx.t), self.over)
    if isinstance(idx, (VSeq, VTuple)):
      return VFrame(self.src, self.rows, self.over)        # column projection
    return VFCol(self, col_term(ex, idx, node))


def pivot_term(frame, i1, i2, cc, vv):
  r = z3.Int('r!pv')
  return PIVOT(frame.rows,
               z3.Lambda([r], frame.colv(i1, r)),
               z3.Lambda([r], frame.colv(i2, r)),
               z3.Lambda([r], frame.colv(cc, r)),
               z3.Lambda([r], frame.cellv(vv, r)))


def relabelled(frame, col, pairs):
  """The frame with column `col` mapped through the (key, label) pairs;
  cells with another value become NaN (Series.map)."""
  def fn(r, frame=frame, col=col, pairs=tuple(pairs)):
    old = frame.colv(col, r)
    t = NAN_LABEL
    for k, lab in pairs:        # a later equal key wins (dict literal)
      t = z3.If(old == k, lab, t)
    return t
  return VFrame(frame.src, frame.rows, frame.over + ((col, fn),))


def label_code(s):
  return colcode('label:' + s)


def _store_frame(ex, recv, idx, v, node):
  """df[col] = <column of the same frame mapped through a dict>"""
  c = col_term(ex, idx, node)
  if isinstance(v, VFMapped) and v.col.frame.src.eq(recv.src):
    # the assigned values are aligned by row label: those of the same rows
    base = v.col
    def fn(r, base=base, pairs=v.pairs):
      old = base.frame.colv(base.col, r)
      t = NAN_LABEL
      for k, lab in pairs:        # a later equal key wins (dict literal)
        t = z3.If(old == k, lab, t)
      return t
    return VFrame(recv.src, recv.rows, recv.over + ((c, fn),))
  ex.unsupported(node, 'column assignment of %s' % v.kind)


from mmverif.engine.lib import L as _L  # noqa: E402
_L[('store.subscript', 'frame')] = _store_frame
ASSUMPTIONS.extend([
    'pandas: df[c].unique() holds exactly the values of column c in the '
    'rows of df; s.map(dict, na_action="ignore") replaces every cell by the '
    'dict value of its content and by NaN when the content is not a key; '
    'df[c] = s (s a column of the same rows) replaces column c row by row '
    'and leaves every other cell; df.drop_duplicates() keeps a subset of the '
    'rows; df.pivot_table(index=[a, b], columns=c, values=v, aggfunc=sum) is '
    'a function of the set of rows and of the cells of these four columns; '
    'reset_index(level=l, inplace=True) replaces the table by a function of '
    'the table and l',
])


class TFrame(Shape):

  def fresh(self, ctx, name):
    return VFrame(z3.Int(ctx.sym(name + '.src')),
                  z3.Const(ctx.sym(name + '.rows'), RowSet))


class VFCol(V):
  kind = 'framecol'

  def __init__(self, frame, col):
    self.frame = frame
    self.col = col

  def flatten(self):
    return [self.frame.src, self.col, self.frame.rows]

  def _mask(self, ex, pred):
    f = self.frame
    r = z3.Int(ex.ctx.sym('r'))
    return VFMask(f, z3.Lambda([r], z3.And(z3.IsMember(r, f.rows),
                                           pred(f.colv(self.col, r)))))

  def py_getattr(self, ex, name, node):
    if name == 'isin':
      def isin(ex_, args, kwargs, n):
        s = to_codeset(ex_, args[0], n)
        return self._mask(ex_, lambda v: z3.IsMember(v, s))
      return VBound(isin)
    if name == 'unique':
      return VBound(lambda ex_, a, k, n: VFUnique(self))
    if name == 'map':
      def map_(ex_, args, kwargs, n):
        m = args[0]
        if getattr(m, 'map_keys', None) is None:
          ex_.unsupported(n, 'Series.map with %s' % m.kind)
        na = kwargs.get('na_action')
        if set(kwargs) - {'na_action'}:
          ex_.unsupported(n, 'Series.map options')
        pairs = [(num_term(k), label_code(v.s))
                 for k, v in zip(m.map_keys, m.map_vals)]
        return VFMapped(self, pairs)
      return VBound(map_)
    ex.unsupported(node, 'column attribute %s' % name)

  def py_compare(self, ex, op, other, node):
    if isinstance(other, (VOpt, VNone)):
      other = ex.need_not_none(other, node, 'compared value')
    if isinstance(op, ast.Eq) and isinstance(other, VInt):
      return self._mask(ex, lambda v: v == other.t)
    # period / group labels are integers: ordering comparisons are those of
    # the labels themselves
    cmp = {ast.NotEq: lambda v: v != other.t, ast.LtE: lambda v: v <= other.t,
           ast.Lt: lambda v: v < other.t, ast.GtE: lambda v: v >= other.t,
           ast.Gt: lambda v: v > other.t}.get(type(op))
    if cmp is not None and isinstance(other, VInt):
      return self._mask(ex, cmp)
    ex.unsupported(node, 'comparison on a frame column')

  def total(self):
    f = self.frame
    return VReal(SUMCOL(f.src, self.col, f.rows), True)


class VFUnique(V):
  """df[c].unique(): the values occurring in the column."""
  kind = 'frameunique'

  def __init__(self, col):
    self.col = col

  def py_contains(self, ex, item, node):
    if isinstance(item, (VOpt, VNone)):
      item = ex.need_not_none(item, node, 'value looked up in unique()')
    f = self.col.frame
    r = z3.Int(ex.ctx.sym('r'))
    return z3.Exists([r], z3.And(
        z3.IsMember(r, f.rows), f.colv(self.col.col, r) == num_term(item)))


class VFMapped(V):
  """df[c].map({k: label, ...}, na_action='ignore')"""
  kind = 'framemapped'

  def __init__(self, col, pairs):
    self.col = col
    self.pairs = tuple(pairs)


class VFMask(V):
  kind = 'framemask'

  def __init__(self, frame, t):
    self.frame = frame
    self.t = t               # z3 set of rows, within frame.rows

  def flatten(self):
    return [self.frame.src, self.t]

  def py_invert(self, ex, node):
    f = self.frame
    return VFMask(f, z3.SetDifference(f.rows, self.t))


class VFLoc(V):
  kind = 'frameloc'

  def __init__(self, frame):
    self.frame = frame

  def py_getitem(self, ex, idx, node):
    f = self.frame
    if isinstance(idx, VFMask):
      return f.py_getitem(ex, idx, node)
    if isinstance(idx, (VOpt, VNone)):
      idx = ex.need_not_none(idx, node, '.loc key')
    if isinstance(idx, VInt):
      r = z3.Int(ex.ctx.sym('r'))
      sel = z3.Lambda([r], z3.And(z3.IsMember(r, f.rows),
                                  LABEL(f.src, r) == idx.t))
      ex.safety(sel != z3.EmptySet(I), 'KeyError', node,
                '.loc label not among the row labels')
      return VFrame(f.src, sel)
    ex.unsupported(node, 'frame .loc[%s]' % idx.kind)


class VFIndex(V):
  kind = 'frameindex'

  def __init__(self, frame):
    self.frame = frame

  def py_getitem(self, ex, idx, node):
    f = self.frame
    if not isinstance(idx, VFMask):
      ex.unsupported(node, 'frame index[%s]' % idx.kind)
    lab, r = z3.Int(ex.ctx.sym('l')), z3.Int(ex.ctx.sym('r'))
    return VFLabels(z3.Lambda([lab], z3.Exists([r], z3.And(
        z3.IsMember(r, idx.t), LABEL(f.src, r) == lab))))


class VFLabels(V):
  kind = 'framelabels'

  def __init__(self, t):
    self.t = t

  def flatten(self):
    return [self.t]


def same_term(a, b, names):
  """a == b, stated argument-wise when both are applications of the same
  ledger function among `names` (equal arguments give equal results); maps
  and row sets are compared element-wise, which keeps the obligation free of
  lambda equalities.  Implies a == b."""
  if (z3.is_app(a) and z3.is_app(b) and a.decl().eq(b.decl())
      and a.decl().name() in names and a.num_args() == b.num_args()):
    parts = []
    for x, y in zip(a.children(), b.children()):
      if isinstance(x.sort(), z3.ArraySortRef):
        r = z3.Int('r!same')
        parts.append(z3.ForAll([r], x[r] == y[r]))
      else:
        parts.append(same_term(x, y, names))
    return z3.And(parts)
  return a == b
