"""TRUSTED row algebra of long-format pandas frames (tbrdiagnostics.py,
tbr_iroas.py): a frame is a finite set of ROWS of one source frame; row
filters keep row identity and cell values; nothing numeric is interpreted.

  VFrame(src, rows)     rows (positions in the source frame `src`) it holds
  COLV(src, c, r)       coded cell value (geo, date, group, period: equality
                        and membership only) of column c in source row r
  CELL(src, c, r)       numeric cell value
  LABEL(src, r)         row label (first index level) of source row r; labels
                        need NOT be unique
  SUMCOL(src, c, rows)  sum of column c over a set of rows

Column names are integer codes (constant names get fixed codes; names taken
from the semantics objects are arbitrary pairwise distinct codes).
"""
import ast

import z3

from mmverif.engine.lib import ASSUMPTIONS, lib, uf
from mmverif.engine.pandas_ledger import VBound
from mmverif.engine.symexec import PathEnd, RaiseSig
from mmverif.engine.values import *  # pylint: disable=wildcard-import

I = z3.IntSort()
R = z3.RealSort()
RowSet = z3.SetSort(I)

COLV = z3.Function('FR_COLV', I, I, I, I)
CELL = z3.Function('FR_CELL', I, I, I, R)
LABEL = z3.Function('FR_LABEL', I, I, I)
SUMCOL = z3.Function('FR_SUMCOL', I, I, RowSet, R)

ASSUMPTIONS.extend([
    'pandas frames: df.copy(), df[list of columns], df[mask], df.loc[mask] '
    'keep row identity and cell values; df[col].isin(S) / df[col] == v are '
    'the rows whose cell is in S / equals v; ~mask is the complement within '
    'the frame; df.index[mask] are the labels of the masked rows; '
    'df.drop(labels) removes EVERY row whose label is among them; '
    'df.loc[label] selects the rows with that first-level label and raises '
    'KeyError when there is none; sum(column) is a function of the set of '
    'rows (rounding ignored)',
])

_CODES = {}


def colcode(name):
  """Stable integer code of a constant column name."""
  if name not in _CODES:
    _CODES[name] = 7000 + len(_CODES)
  return z3.IntVal(_CODES[name])


def col_term(ex, v, node):
  if isinstance(v, VStr):
    return colcode(v.s)
  if isinstance(v, (VOpt, VNone)):
    v = ex.need_not_none(v, node, 'column name')
  if isinstance(v, VInt):
    return v.t
  ex.unsupported(node, 'column name of kind %s' % v.kind)


def to_codeset(ex, v, node):
  """z3 set of the coded values in a list / set of labels."""
  if isinstance(v, (VOpt, VNone)):
    v = ex.need_not_none(v, node, 'collection of values')
  if isinstance(v, VSet):
    return v.t
  if isinstance(v, VSeq):
    if v.elems is None:
      ex.unsupported(node, 'untracked list of values')
    return v.elems
  if isinstance(v, VFLabels):
    return v.t
  ex.unsupported(node, 'collection of kind %s' % v.kind)


class VFrame(V):
  kind = 'frame'

  def __init__(self, src, rows):
    self.src = src
    self.rows = rows

  def flatten(self):
    return [self.src, self.rows]

  def clone(self):
    return VFrame(self.src, self.rows)

  def py_getattr(self, ex, name, node):
    if name == 'copy':
      return VBound(lambda ex_, a, k, n: VFrame(self.src, self.rows))
    if name == 'loc':
      return VFLoc(self)
    if name == 'index':
      return VFIndex(self)
    if name == 'drop':
      return VBound(self._drop)
    ex.unsupported(node, 'frame attribute %s' % name)

  def _drop(self, ex, args, kwargs, node):
    if kwargs or len(args) != 1:
      ex.unsupported(node, 'drop with options')
    labels = to_codeset(ex, args[0], node)
    r = z3.Int(ex.ctx.sym('r'))
    gone = z3.Lambda([r], z3.IsMember(LABEL(self.src, r), labels))
    return VFrame(self.src, z3.SetDifference(self.rows, gone))

  def py_getitem(self, ex, idx, node):
    if isinstance(idx, VFMask):
      if not idx.frame.src.eq(self.src):
        ex.unsupported(node, 'mask of another frame')
      return VFrame(self.src, z3.SetIntersect(self.rows, idx.t))
    if isinstance(idx, (VSeq, VTuple)):
      return VFrame(self.src, self.rows)        # column projection
    return VFCol(self, col_term(ex, idx, node))


class TFrame(Shape):

  def fresh(self, ctx, name):
    return VFrame(z3.Int(ctx.sym(name + '.src')),
                  z3.Const(ctx.sym(name + '.rows'), RowSet))


class VFCol(V):
  kind = 'framecol'

  def __init__(self, frame, col):
    self.frame = frame
    self.col = col

  def flatten(self):
    return [self.frame.src, self.col, self.frame.rows]

  def _mask(self, ex, pred):
    f = self.frame
    r = z3.Int(ex.ctx.sym('r'))
    return VFMask(f, z3.Lambda([r], z3.And(z3.IsMember(r, f.rows),
                                           pred(COLV(f.src, self.col, r)))))

  def py_getattr(self, ex, name, node):
    if name == 'isin':
      def isin(ex_, args, kwargs, n):
        s = to_codeset(ex_, args[0], n)
        return self._mask(ex_, lambda v: z3.IsMember(v, s))
      return VBound(isin)
    ex.unsupported(node, 'column attribute %s' % name)

  def py_compare(self, ex, op, other, node):
    if isinstance(other, (VOpt, VNone)):
      other = ex.need_not_none(other, node, 'compared value')
    if isinstance(op, ast.Eq) and isinstance(other, VInt):
      return self._mask(ex, lambda v: v == other.t)
    ex.unsupported(node, 'comparison on a frame column')

  def total(self):
    f = self.frame
    return VReal(SUMCOL(f.src, self.col, f.rows), True)


class VFMask(V):
  kind = 'framemask'

  def __init__(self, frame, t):
    self.frame = frame
    self.t = t               # z3 set of rows, within frame.rows

  def flatten(self):
    return [self.frame.src, self.t]

  def py_invert(self, ex, node):
    f = self.frame
    return VFMask(f, z3.SetDifference(f.rows, self.t))


class VFLoc(V):
  kind = 'frameloc'

  def __init__(self, frame):
    self.frame = frame

  def py_getitem(self, ex, idx, node):
    f = self.frame
    if isinstance(idx, VFMask):
      return f.py_getitem(ex, idx, node)
    if isinstance(idx, (VOpt, VNone)):
      idx = ex.need_not_none(idx, node, '.loc key')
    if isinstance(idx, VInt):
      r = z3.Int(ex.ctx.sym('r'))
      sel = z3.Lambda([r], z3.And(z3.IsMember(r, f.rows),
                                  LABEL(f.src, r) == idx.t))
      ex.safety(sel != z3.EmptySet(I), 'KeyError', node,
                '.loc label not among the row labels')
      return VFrame(f.src, sel)
    ex.unsupported(node, 'frame .loc[%s]' % idx.kind)


class VFIndex(V):
  kind = 'frameindex'

  def __init__(self, frame):
    self.frame = frame

  def py_getitem(self, ex, idx, node):
    f = self.frame
    if not isinstance(idx, VFMask):
      ex.unsupported(node, 'frame index[%s]' % idx.kind)
    lab, r = z3.Int(ex.ctx.sym('l')), z3.Int(ex.ctx.sym('r'))
    return VFLabels(z3.Lambda([lab], z3.Exists([r], z3.And(
        z3.IsMember(r, idx.t), LABEL(f.src, r) == lab))))


class VFLabels(V):
  kind = 'framelabels'

  def __init__(self, t):
    self.t = t

  def flatten(self):
    return [self.t]
