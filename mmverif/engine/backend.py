"""SMT back ends.

An obligation is shipped as SMT-LIB 2 text (hypotheses + negated goal).
`unsat` = discharged, `sat` = failed with a counter-model, anything else =
undecided.  z3 (python API, 5.x) is the primary solver; cvc5 (CLI) re-checks in
the thorough tier and takes z3's `unknown`s where the text is portable.
"""
import concurrent.futures as cf
import os
import subprocess
import tempfile
import time

CVC5 = '/usr/bin/cvc5'


def _z3_check(smt2, timeout_ms, want_model=True):
  import z3
  t0 = time.time()
  s = z3.Solver()
  s.set('timeout', int(timeout_ms))
  try:
    s.from_string(smt2)
    r = s.check()
  except z3.Z3Exception as e:
    return {'backend': 'z3', 'result': 'error', 'reason': str(e)[:500],
            'time': time.time() - t0}
  out = {'backend': 'z3', 'result': str(r), 'time': time.time() - t0}
  if r == z3.sat and want_model:
    try:
      m = s.model()
      model = {}
      for d in m.decls():
        try:
          model[d.name()] = str(m[d])[:400]
        except Exception:  # pylint: disable=broad-except
          pass
      out['model'] = model
    except z3.Z3Exception:
      pass
  elif r == z3.unknown:
    out['reason'] = s.reason_unknown()
  return out


def _cvc5_check(smt2, timeout_ms):
  t0 = time.time()
  text = smt2
  if '(set-logic' not in text:
    text = '(set-logic ALL)\n' + text
  with tempfile.NamedTemporaryFile('w', suffix='.smt2', delete=False) as f:
    f.write(text)
    path = f.name
  try:
    p = subprocess.run(
        [CVC5, '--tlimit=%d' % int(timeout_ms), '--lang=smt2', path],
        capture_output=True, text=True, timeout=timeout_ms / 1000.0 + 10)
    lines = p.stdout.strip().splitlines()
    first = lines[0].strip() if lines else ''
    if first in ('sat', 'unsat', 'unknown'):
      res = first
    elif 'interrupted by timeout' in p.stdout + p.stderr:
      res = 'unknown'
    else:
      res = 'error'
    return {'backend': 'cvc5', 'result': res, 'time': time.time() - t0,
            'reason': (p.stdout + p.stderr)[:300] if res != 'unsat' else ''}
  except subprocess.TimeoutExpired:
    return {'backend': 'cvc5', 'result': 'unknown', 'time': time.time() - t0,
            'reason': 'timeout'}
  finally:
    os.unlink(path)


def _work(job):
  name, smt2, timeout_ms, use_cvc5 = job
  r = _z3_check(smt2, timeout_ms)
  runs = [r]
  if use_cvc5 == 'always' or (use_cvc5 == 'fallback'
                              and r['result'] not in ('unsat', 'sat')):
    runs.append(_cvc5_check(smt2, timeout_ms))
  return name, runs


def verdict(runs):
  """Combine back-end results: any unsat => discharged; sat (z3) => failed."""
  res = [r['result'] for r in runs]
  if 'unsat' in res and 'sat' in res:
    return 'conflict'
  if 'unsat' in res:
    return 'discharged'
  if 'sat' in res:
    return 'failed'
  return 'undecided'


def discharge(jobs, timeout_ms=10000, use_cvc5='fallback', workers=None):
  """jobs: list of (name, smt2 text). Returns {name: {'verdict', 'runs'}}."""
  workers = workers or min(16, max(1, (os.cpu_count() or 4)))
  out = {}
  payload = [(n, t, timeout_ms, use_cvc5) for n, t in jobs]
  if not payload:
    return out
  if len(payload) <= 2 or workers == 1:
    for j in payload:
      n, runs = _work(j)
      out[n] = {'verdict': verdict(runs), 'runs': runs}
    return out
  with cf.ProcessPoolExecutor(max_workers=workers) as ex:
    for n, runs in ex.map(_work, payload, chunksize=4):
      out[n] = {'verdict': verdict(runs), 'runs': runs}
  return out
