"""SMT back ends.

An obligation is shipped as SMT-LIB 2 text (hypotheses + negated goal).
`unsat` = discharged, `sat` = failed with a counter-model, anything else =
undecided.  z3 (python API, 5.x) is the primary solver; cvc5 (CLI) re-checks in
the thorough tier and takes z3's `unknown`s where the text is portable.
"""
import concurrent.futures as cf
import os
import subprocess
import tempfile
import time

CVC5 = '/usr/bin/cvc5'


_HUBS = ('card_', 'rangeset')


def _symbols(t, z3):
  out = set()
  stack = [t]
  seen = set()
  while stack:
    x = stack.pop()
    if x.get_id() in seen:
      continue
    seen.add(x.get_id())
    if z3.is_quantifier(x):
      stack.append(x.body())
      continue
    if z3.is_app(x):
      d = x.decl()
      if d.kind() == z3.Z3_OP_UNINTERPRETED:
        n = d.name()
        if not n.startswith(_HUBS):
          out.add(n)
      stack.extend(x.children())
  return out


def _slices(fs, z3):
  """Hypothesis slices of growing relevance distance from the goal (the last
  assertion).  Dropping hypotheses is sound: unsat of a slice proves the
  obligation."""
  goal = fs[-1]
  hyps = [(f, _symbols(f, z3)) for f in fs[:-1]]
  cur = _symbols(goal, z3)
  chosen = []
  rest = hyps
  out = []
  for _ in range(3):
    new = [(f, sy) for f, sy in rest if sy & cur]
    if not new:
      break
    rest = [(f, sy) for f, sy in rest if not (sy & cur)]
    for f, sy in new:
      chosen.append(f)
      cur = cur | sy
    out.append(list(chosen) + [goal])
    if not rest:
      break
  return out


def _has_quantifier(t, z3):
  stack = [t]
  seen = set()
  while stack:
    x = stack.pop()
    if x.get_id() in seen:
      continue
    seen.add(x.get_id())
    if z3.is_quantifier(x):
      return True
    if z3.is_app(x):
      stack.extend(x.children())
  return False


def _has_lambda(t, z3):
  stack = [t]
  seen = set()
  while stack:
    x = stack.pop()
    if x.get_id() in seen:
      continue
    seen.add(x.get_id())
    if z3.is_quantifier(x):
      if x.is_lambda():
        return True
      stack.append(x.body())
    elif z3.is_app(x):
      stack.extend(x.children())
  return False


def _try(z3, fs, ms):
  s1 = z3.Solver()
  s1.set('timeout', int(ms))
  s1.add(fs)
  return s1.check() == z3.unsat


def _z3_check(smt2, timeout_ms, want_model=True):
  import z3
  t0 = time.time()
  try:
    fs = list(z3.parse_smt2_string(smt2))
  except z3.Z3Exception as e:
    return {'backend': 'z3', 'result': 'error', 'reason': str(e)[:500],
            'time': time.time() - t0}
  # Portfolio over hypothesis subsets (dropping hypotheses is sound: unsat of
  # a subset proves the obligation): quantifier-free path condition, then
  # + cardinality lemma instances, then relevance slices, then everything.
  goal = fs[-1]
  lemmas, qf, quant = [], [], []
  for f in fs[:-1]:
    if z3.is_implies(f) and z3.is_const(f.arg(0)) and str(
        f.arg(0)) == '__grp_lemma':
      lemmas.append(f.arg(1))
    elif z3.is_const(f) and str(f) == '__grp_lemma':
      continue
    elif _has_quantifier(f, z3):
      quant.append(f)
    else:
      qf.append(f)
  fs = qf + lemmas + quant + [goal]
  short = max(400, timeout_ms // 8)
  stages = []
  if quant or lemmas:
    stages.append(('qf', qf + [goal]))
  if lemmas and quant:
    stages.append(('qf+lemmas', qf + lemmas + [goal]))
  if quant:
    # quantified hypotheses that talk about the goal's own symbols, then one
    # more hop of relevance (through the quantifier-free hypotheses)
    gs = _symbols(goal, z3)
    qsym = [(f, _symbols(f, z3)) for f in quant]
    near = [f for f, sy in qsym if sy & gs]
    # set comprehensions (lambda terms) are expensive: first without them
    plain = [f for f in quant if not _has_lambda(f, z3)]
    near_plain = [f for f in near if not _has_lambda(f, z3)]
    # first the quantified hypotheses that share a RARE symbol with the goal
    # (a symbol occurring in few hypotheses: loop ghosts, skolem constants,
    # fresh results), not merely ubiquitous ones such as card or the fields
    # of self
    freq = {}
    for _, sy in qsym:
      for x in sy:
        freq[x] = freq.get(x, 0) + 1
    for f in qf:
      for x in _symbols(f, z3):
        freq[x] = freq.get(x, 0) + 1
    cut = max(3, (len(quant) + len(qf)) // 12)
    rare_syms = {x for x in gs if freq.get(x, 0) <= cut}
    rare = [f for f, sy in qsym if sy & rare_syms]
    if rare and len(rare) < len(quant):
      stages.append(('qf+lemmas+rare-symbol-quantifiers',
                     qf + lemmas + rare + [goal]))
    if near_plain and len(near_plain) < len(quant) and (
        len(near_plain) != len(rare) or not rare):
      stages.append(('qf+lemmas+goal-foralls',
                     qf + lemmas + near_plain + [goal]))
    if plain and len(near_plain) < len(plain) < len(quant):
      stages.append(('qf+lemmas+all-foralls', qf + lemmas + plain + [goal]))
    if near and len(near_plain) < len(near) < len(quant):
      stages.append(('qf+lemmas+goal-quantifiers', qf + lemmas + near + [goal]))
    gs2 = set(gs)
    for f in qf:
      sy = _symbols(f, z3)
      if sy & gs and len(sy) <= 6:
        gs2 |= sy
    near2 = [f for f, sy in qsym if sy & gs2]
    if len(near) < len(near2) < len(quant):
      stages.append(('qf+lemmas+near-quantifiers',
                     qf + lemmas + near2 + [goal]))
  sl1 = None
  if len(fs) > 12:
    # hypotheses (of every kind) that share a symbol with the goal: small and
    # usually sufficient, so it is tried early and with a fair budget
    sls = _slices(fs, z3)
    if sls and len(sls[0]) < len(fs):
      sl1 = sls[0]
      stages.insert(1 if stages else 0, ('relevance depth 1', sl1))
  for name, sub in stages:
    # the targeted slices get a larger share of the budget than the blind ones
    budget = max(short, timeout_ms // 3) if name in (
        'relevance depth 1', 'qf+lemmas+rare-symbol-quantifiers',
        'qf+lemmas+goal-foralls') else short
    if _try(z3, sub, budget):
      return {'backend': 'z3', 'result': 'unsat', 'time': time.time() - t0,
              'slice': '%s: %d/%d hypotheses' % (name, len(sub) - 1,
                                                 len(fs) - 1)}
  if len(fs) > 12:
    for k, sl in enumerate(_slices(fs, z3)):
      if len(sl) >= len(fs):
        break
      if k == 0 and sl1 is not None:
        continue
      if _try(z3, sl, short):
        return {'backend': 'z3', 'result': 'unsat', 'time': time.time() - t0,
                'slice': 'relevance depth %d: %d/%d hypotheses' % (
                    k + 1, len(sl) - 1, len(fs) - 1)}
  s = z3.Solver()
  s.set('timeout', int(timeout_ms))
  try:
    s.add(fs)
    r = s.check()
  except z3.Z3Exception as e:
    return {'backend': 'z3', 'result': 'error', 'reason': str(e)[:500],
            'time': time.time() - t0}
  out = {'backend': 'z3', 'result': str(r), 'time': time.time() - t0}
  if r == z3.sat and want_model:
    try:
      m = s.model()
      model = {}
      for d in m.decls():
        try:
          model[d.name()] = str(m[d])[:400]
        except Exception:  # pylint: disable=broad-except
          pass
      out['model'] = model
    except z3.Z3Exception:
      pass
  elif r == z3.unknown:
    out['reason'] = s.reason_unknown()
    # The solver could neither prove the obligation nor complete a model of
    # the quantified background axioms.  If the quantifier-free hypotheses
    # (path condition, contracts of callees, lemma instances) together with
    # the negated goal are satisfiable, report the candidate counter-model:
    # the verifier does not accept the obligation ("might not hold").
    s2 = z3.Solver()
    s2.set('timeout', int(timeout_ms))
    s2.add(qf + [l for l in lemmas if not _has_quantifier(l, z3)] + [goal])
    if s2.check() == z3.sat:
      out['result'] = 'sat-candidate'
      if want_model:
        try:
          m = s2.model()
          out['model'] = {d.name(): str(m[d])[:400] for d in m.decls()
                          if d.arity() == 0}
        except z3.Z3Exception:
          pass
  return out


def _cvc5_check(smt2, timeout_ms):
  t0 = time.time()
  text = smt2
  if '(set-logic' not in text:
    text = '(set-logic ALL)\n' + text
  with tempfile.NamedTemporaryFile('w', suffix='.smt2', delete=False) as f:
    f.write(text)
    path = f.name
  try:
    p = subprocess.run(
        [CVC5, '--tlimit=%d' % int(timeout_ms), '--lang=smt2', path],
        capture_output=True, text=True, timeout=timeout_ms / 1000.0 + 10)
    lines = p.stdout.strip().splitlines()
    first = lines[0].strip() if lines else ''
    if first in ('sat', 'unsat', 'unknown'):
      res = first
    elif 'interrupted by timeout' in p.stdout + p.stderr:
      res = 'unknown'
    else:
      res = 'error'
    return {'backend': 'cvc5', 'result': res, 'time': time.time() - t0,
            'reason': (p.stdout + p.stderr)[:300] if res != 'unsat' else ''}
  except subprocess.TimeoutExpired:
    return {'backend': 'cvc5', 'result': 'unknown', 'time': time.time() - t0,
            'reason': 'timeout'}
  finally:
    os.unlink(path)


def _work(job):
  name, smt2, timeout_ms, use_cvc5 = job
  r = _z3_check(smt2, timeout_ms)
  runs = [r]
  if use_cvc5 == 'always' or (use_cvc5 == 'fallback' and r['result'] not in (
      'unsat', 'sat', 'sat-candidate')):
    runs.append(_cvc5_check(smt2, timeout_ms))
  return name, runs


def verdict(runs):
  """Combine back-end results: any unsat => discharged; sat (z3) => failed."""
  res = [r['result'] for r in runs]
  if 'unsat' in res and 'sat' in res:
    return 'conflict'
  if 'unsat' in res:
    return 'discharged'
  if 'sat' in res or 'sat-candidate' in res:
    return 'failed'
  return 'undecided'


def _work_isolated(job):
  """Run one job in a fresh interpreter (a solver crash cannot take the
  check down); a crash is reported as an undecided run."""
  import json
  import sys
  name, smt2, timeout_ms, use_cvc5 = job
  with tempfile.NamedTemporaryFile('w', suffix='.smt2', delete=False) as f:
    f.write(smt2)
    path = f.name
  try:
    code = ('import sys, json; sys.path.insert(0, %r); '
            'from mmverif.engine import backend; '
            'n, runs = backend._work((%r, open(%r).read(), %d, %r)); '
            'print("RESULT" + json.dumps(runs))' % (
                os.path.dirname(os.path.dirname(os.path.dirname(
                    os.path.abspath(__file__)))), name, path, timeout_ms,
                use_cvc5))
    p = subprocess.run([sys.executable, '-c', code], capture_output=True,
                       text=True, timeout=timeout_ms / 1000.0 * 4 + 60)
    for line in p.stdout.splitlines():
      if line.startswith('RESULT'):
        return name, json.loads(line[6:])
    return name, [{'backend': 'z3', 'result': 'crash', 'time': 0.0,
                   'reason': (p.stderr or p.stdout)[-300:]}]
  except subprocess.TimeoutExpired:
    return name, [{'backend': 'z3', 'result': 'unknown', 'time': 0.0,
                   'reason': 'worker timeout'}]
  finally:
    os.unlink(path)


def discharge(jobs, timeout_ms=10000, use_cvc5='fallback', workers=None):
  """jobs: list of (name, smt2 text). Returns {name: {'verdict', 'runs'}}."""
  workers = workers or min(16, max(1, (os.cpu_count() or 4)))
  out = {}
  payload = [(n, t, timeout_ms, use_cvc5) for n, t in jobs]
  if not payload:
    return out
  if len(payload) <= 2 or workers == 1:
    for j in payload:
      n, runs = _work_isolated(j) if len(payload) <= 2 else _work(j)
      out[n] = {'verdict': verdict(runs), 'runs': runs}
    return out
  try:
    with cf.ProcessPoolExecutor(max_workers=workers) as ex:
      futs = {ex.submit(_work, j): j for j in payload}
      for fu in cf.as_completed(futs):
        try:
          n, runs = fu.result()
          out[n] = {'verdict': verdict(runs), 'runs': runs}
        except Exception:  # pylint: disable=broad-except
          pass            # broken pool: handled below
  except Exception:  # pylint: disable=broad-except
    pass
  rest = [j for j in payload if j[0] not in out]
  if rest:
    # a solver crashed and broke the pool: finish the rest in isolation
    with cf.ThreadPoolExecutor(max_workers=workers) as ex:
      for n, runs in ex.map(_work_isolated, rest):
        out[n] = {'verdict': verdict(runs), 'runs': runs}
  return out
