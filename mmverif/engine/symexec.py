"""pyvc: forward symbolic execution of the real function ASTs.

Paths are explored by re-execution under a decision prefix (no state copying):
every run starts from the function entry with fresh deterministic symbols and
follows the recorded decisions; a new two-sided branch takes one side and queues
the other.  Loops are cut at their head with the invariants of the sidecar,
calls are replaced by contracts.  Every check that the code relies on (callee
preconditions, partial operations, frames, loop invariants, postconditions,
allowed exceptions) becomes a named obligation `hypotheses => goal` that is
shipped to the SMT back ends as SMT-LIB text.
"""
import ast
import types

import z3

from mmverif.engine import cardlemmas
from mmverif.engine import frontend
from mmverif.engine import specs as specmod
from mmverif.engine.values import *  # pylint: disable=wildcard-import


def _has_quantifier(t):
  stack = [t]
  seen = set()
  while stack:
    x = stack.pop()
    if x.get_id() in seen:
      continue
    seen.add(x.get_id())
    if z3.is_quantifier(x):
      return True
    if z3.is_app(x):
      stack.extend(x.children())
  return False


_MERGE_OK = (ast.Assign, ast.AugAssign, ast.AnnAssign, ast.Pass)


def _mergeable(stmts):
  """Branch bodies that only assign (possibly in nested ifs)."""
  for st in stmts:
    if isinstance(st, _MERGE_OK):
      for n in ast.walk(st):
        if isinstance(n, (ast.Yield, ast.YieldFrom, ast.Lambda)):
          return False
      continue
    if isinstance(st, ast.If):
      if not (_mergeable(st.body) and _mergeable(st.orelse)):
        return False
      continue
    if isinstance(st, ast.Expr) and isinstance(st.value, ast.Constant):
      continue
    return False
  return True


def to_term(x):
  """z3 Bool of a clause result / value / Python bool."""
  if isinstance(x, bool):
    return z3.BoolVal(x)
  if isinstance(x, z3.ExprRef):
    return x
  if isinstance(x, V):
    return as_bool_term(x)
  raise EngineError('not a truth value: %r' % (x,))


class Signal(Exception):
  pass


class ReturnSig(Signal):

  def __init__(self, value):
    super().__init__()
    self.value = value


class RaiseSig(Signal):

  def __init__(self, exc, where=''):
    super().__init__()
    self.exc = exc
    self.where = where


class BreakSig(Signal):
  pass


class ContinueSig(Signal):
  pass


INPLACE_KINDS = ('series', 'panel', 'rowarray', 'sharearray')


class MergeAbort(Signal):
  """A branch that was being merged needs a real path split."""


class PathEnd(Signal):

  def __init__(self, reason=''):
    super().__init__()
    self.reason = reason


class ObjRec:

  def __init__(self, cls, symbolic):
    self.cls = cls
    self.fields = {}
    self.symbolic = symbolic      # created as a symbolic parameter
    self.fresh = False            # allocated during this run


class Env:
  """Variable scope of one (possibly inlined) function activation."""

  def __init__(self, module, cls=None, parent=None, qualname=''):
    self.vars = {}
    self.module = module      # frontend.ModuleSource
    self.cls = cls            # frontend.ClassSource or None
    self.parent = parent
    self.qualname = qualname
    self.gen = None           # generator state when executing a generator body

  def lookup(self, name):
    e = self
    while e is not None:
      if name in e.vars:
        return e.vars[name]
      e = e.parent
    return None

  def assign(self, name, value):
    self.vars[name] = value


class NS:
  """Namespace handed to contract clauses: s.<name>, s.old.<name>."""

  def __init__(self, ctx, values, heap=None, old=None, extra=None):
    object.__setattr__(self, '_ctx', ctx)
    object.__setattr__(self, '_values', values)
    object.__setattr__(self, '_heap', heap)
    object.__setattr__(self, '_old', old)
    object.__setattr__(self, '_extra', extra or {})

  def __getattr__(self, name):
    if name == 'old':
      if self._old is None:
        raise EngineError('old state not available here')
      return self._old
    if name == 'ctx':
      return self._ctx
    if name in self._extra and self._extra[name] is not None:
      return self._extra[name]
    if name == 'lheap':
      from mmverif.engine import libcontracts
      return dict(libcontracts.lheap(self._ctx))
    if name == 'old_lheap':
      from mmverif.engine import libcontracts
      libcontracts.lheap(self._ctx)
      return dict(self._ctx._lheap_entry)
    if name in self._extra:
      return self._extra[name]
    if name in self._values:
      return wrap(self._ctx, self._values[name], self._heap)
    raise EngineError('contract refers to unknown name %r' % name)

  def has(self, name):
    return name in self._values or name in self._extra


class ObjView:
  """Read-only view of a heap object for contract clauses (raw fields)."""

  def __init__(self, ctx, obj, heap):
    object.__setattr__(self, '_ctx', ctx)
    object.__setattr__(self, '_obj', obj)
    object.__setattr__(self, '_heap', heap)

  def __getattr__(self, name):
    rec = (self._heap or self._ctx.heap_view())[self._obj.oid]
    if name not in rec:
      v = self._ctx.field_default(self._obj, name)
      if v is None:
        raise EngineError('contract reads unknown field %s.%s' %
                          (self._obj.cls, name))
      return wrap(self._ctx, v, self._heap)
    return wrap(self._ctx, rec[name], self._heap)

  @property
  def ref(self):
    return self._obj


def wrap(ctx, v, heap):
  if isinstance(v, VObj):
    return ObjView(ctx, v, heap)
  return v


def unwrap(v):
  if isinstance(v, ObjView):
    return v.ref
  return v


class Obligation:

  def __init__(self, name, label, kind, props, func, lineno, smt2, trivial,
               text):
    self.name = name
    self.label = label
    self.kind = kind
    self.props = tuple(props)
    self.func = func
    self.lineno = lineno
    self.smt2 = smt2
    self.trivial = trivial
    self.text = text


class Unit:
  """One function under verification: collects obligations over all paths."""

  def __init__(self, world, modspec, contract):
    self.world = world
    self.modspec = modspec
    self.contract = contract
    self.obligations = []
    self.paths = 0
    self.path_outcomes = []
    self.names = {}
    self.reached_labels = set()

  def unique(self, base):
    n = self.names.get(base, 0)
    self.names[base] = n + 1
    return base if n == 0 else '%s~%d' % (base, n)


class Ctx:
  """State of one path run."""

  def __init__(self, unit, prefix):
    self.unit = unit
    self.prefix = list(prefix)
    self.decisions = []
    self.pending = []
    self.pc = []
    self.counters = {}
    self.objects = {}
    self.next_oid = 1
    self.solver = z3.Solver()       # quantifier-free part of the pc only
    self.solver.set('timeout', 300)
    self.known = {}                 # ast id of an assumed literal -> bool
    self.pc_ids = set()
    self.spec_consts = {}
    self.old_heap = None
    self.entry_vals = None
    self.cur_line = 0
    self.cur_func = unit.contract.qualname if unit else ''
    self.depth = 0
    self.memo = {}
    self.epoch = 0
    self.frozen = {}        # oid -> why (objects owned by a stored result)
    self.frozen_locals = set()
    self.merging = 0

  # -- symbols ----------------------------------------------------------
  def sym(self, base):
    n = self.counters.get(base, 0)
    self.counters[base] = n + 1
    return base if n == 0 else '%s!%d' % (base, n)

  def spec_const(self, name, shape):
    """A symbol shared by every use in this run (ghost / spec constant)."""
    if name not in self.spec_consts:
      save = self.counters.get(name)
      self.counters[name] = 0
      self.spec_consts[name] = shape.fresh(self, name)
      if save is not None:
        self.counters[name] = save
    return self.spec_consts[name]

  # -- path condition ---------------------------------------------------
  def assume(self, t, label=''):
    t = z3.simplify(to_term(t))
    if z3.is_true(t):
      return
    if z3.is_and(t):
      for c in t.children():
        self.assume(c)
      return
    if t.get_id() in self.pc_ids:
      return
    self.pc_ids.add(t.get_id())
    self.pc.append(t)
    if z3.is_not(t):
      self.known[t.arg(0).get_id()] = False
    else:
      self.known[t.get_id()] = True
    if not _has_quantifier(t):
      self.solver.add(t)

  def feasible(self, cond):
    r = self.solver.check(cond)
    return r != z3.unsat

  def lookup_known(self, cond):
    if cond.get_id() in self.known:
      return self.known[cond.get_id()]
    if z3.is_not(cond) and cond.arg(0).get_id() in self.known:
      return not self.known[cond.arg(0).get_id()]
    return None

  def branch(self, cond):
    cond = z3.simplify(to_term(cond))
    if z3.is_true(cond):
      return True
    if z3.is_false(cond):
      return False
    k = self.lookup_known(cond)
    if k is not None:
      return k
    idx = len(self.decisions)
    if idx < len(self.prefix):
      d = self.prefix[idx]
    else:
      t_ok = self.feasible(cond)
      # the path condition itself is feasible: if one side is not, the
      # other one is
      f_ok = self.feasible(z3.Not(cond)) if t_ok else True
      if t_ok and f_ok:
        if self.merging:
          raise MergeAbort()
        d = True
        self.pending.append(self.decisions + [False])
      elif t_ok:
        d = True
      elif f_ok:
        d = False
      else:
        raise PathEnd('infeasible')
    self.decisions.append(d)
    self.assume(cond if d else z3.Not(cond))
    return d

  def choice(self, n):
    if self.merging:
      raise MergeAbort()
    idx = len(self.decisions)
    if idx < len(self.prefix):
      d = self.prefix[idx]
    else:
      d = 0
      for k in range(1, n):
        self.pending.append(self.decisions + [k])
    self.decisions.append(d)
    return d

  # -- obligations ------------------------------------------------------
  def oblige(self, goal, label, kind, props=(), extra_hyps=(), _split=False,
             _name=None):
    if getattr(self, 'no_oblige', False):
      return
    if len(self.decisions) < len(self.prefix):
      # replay of a recorded prefix: this obligation was already emitted by
      # the path that first reached this point (same code, same decisions)
      return
    goal = to_term(goal)
    unit = self.unit
    unit.reached_labels.add(label)
    g = z3.simplify(goal)
    # a universally quantified GOAL is proved for fresh constants (sound:
    # the constants occur nowhere else); the ground terms this creates are
    # visible to the instance-wise cardinality lemmas
    if z3.is_not(g) and z3.is_quantifier(g.arg(0)) and g.arg(0).is_exists():
      q = g.arg(0)           # not exists x. P  ==  forall x. not P
      fresh = [z3.Const(self.sym('nx!' + q.var_name(i)), q.var_sort(i))
               for i in range(q.num_vars())]
      g = z3.ForAll(fresh, z3.Not(z3.substitute_vars(q.body(),
                                                     *reversed(fresh))))
    while z3.is_quantifier(g) and g.is_forall():
      consts = [z3.Const(self.sym('sk!' + g.var_name(i)), g.var_sort(i))
                for i in range(g.num_vars())]
      g = z3.simplify(z3.substitute_vars(g.body(), *reversed(consts)))
      if z3.is_eq(g) and g.arg(0).sort() == z3.BoolSort():
        # an equivalence about the fresh constants: one obligation per
        # direction
        g = z3.And(z3.Implies(g.arg(0), g.arg(1)),
                   z3.Implies(g.arg(1), g.arg(0)))
    base = '%s/%s:%s@L%d' % (self.cur_func, kind, label, self.cur_line)
    name = _name or unit.unique(base)
    hyps = list(self.pc) + list(extra_hyps)
    if not z3.is_true(g):
      if z3.is_and(g):
        if all(c.get_id() in self.pc_ids for c in g.children()):
          g = z3.BoolVal(True)
      elif g.get_id() in self.pc_ids:
        g = z3.BoolVal(True)
    if z3.is_true(g):
      unit.obligations.append(Obligation(name, label, kind, props,
                                         self.cur_func, self.cur_line, None,
                                         True, 'true'))
      return
    if z3.is_and(g) and 2 <= g.num_args() <= 16 and not _split:
      # VC splitting: one obligation per conjunct (earlier conjuncts become
      # hypotheses of the later ones)
      extra = list(extra_hyps)
      for i, c in enumerate(g.children()):
        if c.get_id() in self.pc_ids:
          continue
        self.oblige(c, label, kind, props, extra_hyps=extra, _split=True,
                    _name='%s.c%d' % (name, i))
        extra.append(c)
      return
    lem = cardlemmas.instantiate(hyps + [g])
    s = z3.Solver()
    for h in hyps:
      s.add(h)
    marker = z3.Bool('__grp_lemma')
    for h in lem:
      s.add(z3.Implies(marker, h))
    s.add(marker)
    s.add(z3.Not(g))
    text = s.to_smt2()
    unit.obligations.append(Obligation(
        name, label, kind, props, self.cur_func, self.cur_line, text, False,
        ('goal: %s' % g)[:600]))

  # -- heap -------------------------------------------------------------
  def new_object(self, cls, name='obj', symbolic=False):
    oid = self.next_oid
    self.next_oid += 1
    rec = ObjRec(cls, symbolic)
    rec.fresh = not symbolic
    rec.epoch = self.epoch
    self.objects[oid] = rec
    obj = VObj(oid, cls)
    if symbolic:
      cs = self.unit.world.class_spec(cls)
      if cs is not None:
        for f, shape in cs.fields.items():
          rec.fields[f] = shape.fresh(self, '%s.%s' % (name, f))
    return obj

  def heap_view(self):
    return {oid: rec.fields for oid, rec in self.objects.items()}

  def snapshot_heap(self):
    return {oid: {f: (v.clone() if hasattr(v, 'clone') else v)
                  for f, v in rec.fields.items()}
            for oid, rec in self.objects.items()}

  def field_default(self, obj, name):
    """Class-level default (e.g. `_x = None`) evaluated from the AST and
    coerced to the declared field shape."""
    v = self.unit.world.class_default(self, obj.cls, name)
    if v is None:
      return None
    cs = self.unit.world.class_spec(obj.cls)
    if cs is not None and name in cs.fields:
      v = conform(self, v, cs.fields[name])
    return v

  def get_field(self, obj, name):
    rec = self.objects[obj.oid]
    if name in rec.fields:
      return rec.fields[name]
    v = self.field_default(obj, name)
    if v is not None:
      return v
    raise EngineError('unknown field %s.%s (declare it in the sidecar)' %
                      (obj.cls, name))

  def set_field(self, obj, name, value):
    rec = self.objects[obj.oid]
    if obj.oid in self.frozen:
      self.oblige(z3.BoolVal(False),
                  'no write to %s.%s of an object owned by a stored result' %
                  (obj.cls, name), 'frame', ('C04', 'C10'))
    cs = self.unit.world.class_spec(obj.cls)
    if cs is not None and name in cs.fields:
      value = conform(self, value, cs.fields[name])
    rec.fields[name] = value


class VConstDict(V):
  """Dictionary literal with constant string keys (class-level tables)."""
  kind = 'constdict'

  def __init__(self, d):
    self.d = d

  def py_getitem(self, ex, idx, node):
    if not isinstance(idx, VStr):
      ex.unsupported(node, 'constant dict indexed by %s' % idx.kind)
    if idx.s not in self.d:
      ex.safety(z3.BoolVal(False), 'KeyError', node, 'key %r' % idx.s)
      raise PathEnd('key error')
    return self.d[idx.s]

  def flatten(self):
    out = []
    for k in sorted(self.d):
      out.extend(self.d[k].flatten())
    return out

  def store(self, key, value):
    d = dict(self.d)
    d[key] = value
    return VConstDict(d)


class VEmptyDict(V):
  """The literal {} before its shape is known."""
  kind = 'emptydict'


def conform(ctx, v, shape):
  """Coerce a value to a declared shape (wrap into Optional, int->real)."""
  if type(shape).__name__ == 'TDyn':
    from mmverif.engine import dyn
    if isinstance(v, dyn.VDyn):
      return v
    if isinstance(v, VTuple) and len(v.items) == 2:
      return dyn.VDyn(dyn.Dyn.tup2(dyn.scalar_of(v.items[0]),
                                   dyn.scalar_of(v.items[1])))
    return dyn.VDyn(dyn.Dyn.sc(dyn.scalar_of(v)))
  if isinstance(v, VEmptyDict):
    if hasattr(shape, 'empty'):
      return shape.empty(ctx)
    raise EngineError('empty dict literal: shape %r cannot be empty' % shape)
  if hasattr(shape, 'coerce'):
    return shape.coerce(ctx, v)
  if isinstance(shape, TOpt):
    if isinstance(v, VNone):
      return VOpt(True, shape.inner.fresh(ctx, 'dead'))
    if isinstance(v, VOpt):
      return VOpt(v.none, conform(ctx, v.val, shape.inner))
    return VOpt(False, conform(ctx, v, shape.inner))
  if isinstance(shape, TReal) and isinstance(v, (VInt, VBool)):
    return VReal(z3.ToReal(num_term(v)), np=shape.np)
  if isinstance(shape, TOpaque) and shape.okind == 'Key' and isinstance(
      v, (VInt, VBool)):
    return VOpaque(z3.Function('key_int', z3.IntSort(), KeySort)(num_term(v)),
                   'Key')
  if isinstance(shape, TOpaque) and shape.okind == 'Item' and isinstance(
      v, VObj):
    return VOpaque(z3.Function('item_of_obj', z3.IntSort(), ItemSort)(
        z3.IntVal(v.oid)), 'Item')
  if isinstance(shape, TOpaque) and shape.okind == 'Arr' and isinstance(
      v, (VSeq, VRange)):
    # a list handed to code that wraps it with numpy.array: an array of the
    # same length
    n = v.length if isinstance(v, VSeq) else z3.If(v.hi > v.lo, v.hi - v.lo, 0)
    a = z3.Const(ctx.sym('arr_of_list'), sort_named('Arr'))
    ctx.assume(z3.Function('len_Arr', sort_named('Arr'), z3.IntSort())(a) == n)
    ctx.assume(z3.Function('ndim_Arr', sort_named('Arr'), z3.IntSort())(a) == 1)
    return VOpaque(a, 'Arr')
  if isinstance(shape, TSeq) and isinstance(v, VTuple) and v.tname == 'list' and (
      not v.items):
    return VSeq(z3.IntVal(0), z3.Function(ctx.sym('lst.at'), z3.IntSort(),
                                          shape.esort), shape.esort,
                z3.EmptySet(shape.esort), dupfree=False,
                sid=z3.Int(ctx.sym('lst.sid')))
  if isinstance(shape, TTuple) and isinstance(v, VTuple) and len(
      shape.items) == len(v.items):
    return VTuple([conform(ctx, i, s) for i, s in zip(v.items, shape.items)],
                  v.names or shape.names, v.tname or shape.tname)
  return v


# ----------------------------------------------------------------------------


class World:
  """All module sources + sidecar specs + library table."""

  def __init__(self):
    self.sources = {}      # short module name -> ModuleSource
    self.lib = {}          # dotted name -> handler(ex, args, kwargs, node)
    self.vmethods = {}     # (kind, name) -> handler(ex, recv, args, kwargs, node)
    self.builtins = {}
    self.attr_handlers = {}  # (opaque kind, attr) -> handler(ex, recv, node)

  def spec(self, modname):
    return specmod.REGISTRY.get(modname)

  def source(self, modname):
    if modname not in self.sources:
      sp = self.spec(modname)
      rel = sp.relpath if sp else 'matched_markets/methodology/%s.py' % modname
      self.sources[modname] = frontend.load(rel)
    return self.sources[modname]

  def class_spec(self, cls):
    for sp in specmod.REGISTRY.values():
      if cls in sp.classes:
        return sp.classes[cls]
    return None

  def class_source(self, cls):
    for sp in specmod.REGISTRY.values():
      src = self.source(sp.relpath.split('/')[-1][:-3])
      if cls in src.classes:
        return src.classes[cls]
    return None

  def class_default(self, ctx, cls, name):
    cs = self.class_source(cls)
    if cs is None or name not in cs.defaults:
      return None
    ex = Exec(ctx)
    env = Env(cs.module, cs)
    return ex.eval(cs.defaults[name], env)

  def contract_for(self, modname, qualname):
    sp = self.spec(modname)
    if sp is None:
      return None
    return sp.contracts.get(qualname)


WORLD = World()

_IMPLICIT = ('ZeroDivisionError', 'IndexError', 'KeyError', 'TypeError',
             'AttributeError', 'OverflowError')


class Exec:
  """Expression / statement interpreter over symbolic values."""

  def __init__(self, ctx):
    self.ctx = ctx
    self.world = WORLD
    self._fmode = getattr(getattr(ctx.unit, 'modspec', None), 'float_mode',
                          'R')

  # ------------------------------------------------------------ helpers
  def unsupported(self, node, what=''):
    raise EngineError('UNSUPPORTED %s:%s %s %s' % (
        self.ctx.cur_func, getattr(node, 'lineno', '?'),
        type(node).__name__, what))

  def safety(self, goal, exc, node, what):
    """Partial operation: `goal` must hold or `exc` would be raised."""
    self.ctx.cur_line = getattr(node, 'lineno', self.ctx.cur_line)
    self.ctx.oblige(goal, '%s:%s' % (exc, what), 'safety',
                    getattr(self.ctx.unit.modspec, 'safety_props', ('C09',)))
    self.ctx.assume(goal)

  def need_not_none(self, v, node, what):
    """Use of an Optional value where a real value is required."""
    if isinstance(v, VNone):
      self.safety(z3.BoolVal(False), 'TypeError', node, what + ' is None')
      raise PathEnd('None used')
    if isinstance(v, VOpt):
      self.safety(z3.Not(v.none), 'TypeError', node, what + ' may be None')
      return v.val
    return v

  # ------------------------------------------------------------ names
  def lookup_name(self, name, env, node):
    v = env.lookup(name)
    if v is not None:
      return v
    mod = env.module
    if name in mod.classes:
      return VCallable('class', (mod.name, name))
    if name in mod.functions:
      return VCallable('func', (mod.name, name))
    if name in mod.assigns:
      return self.eval(mod.assigns[name], Env(mod))
    if name in mod.imports:
      return self.import_value(mod.imports[name])
    if name in self.world.builtins:
      return VCallable('builtin', name)
    if name in ('ValueError', 'TypeError', 'KeyError', 'IndexError',
                'NotImplementedError', 'ZeroDivisionError', 'OverflowError',
                'AttributeError', 'Exception'):
      return VCallable('exc', name)
    self.unsupported(node, 'unknown name %s' % name)

  def import_value(self, dotted):
    parts = dotted.split('.')
    if parts[0] == 'matched_markets':
      last = parts[-1]
      if len(parts) == 3:          # matched_markets.methodology.<module>
        return VModule('repo:' + last)
      if len(parts) == 4:          # from ...<module> import Name
        return self.module_attr('repo:' + parts[2], last, None)
    return VModule(dotted)

  def module_attr(self, modname, attr, node):
    if modname.startswith('repo:'):
      short = modname[5:]
      if 'repo:%s.%s' % (short, attr) in self.world.lib:
        return VCallable('lib', 'repo:%s.%s' % (short, attr))
      src = self.world.source(short)
      if attr in src.classes:
        return VCallable('class', (short, attr))
      if attr in src.functions:
        return VCallable('func', (short, attr))
      if attr in src.assigns:
        return self.eval(src.assigns[attr], Env(src))
      self.unsupported(node, 'no %s in module %s' % (attr, short))
    dotted = modname + '.' + attr
    if dotted in self.world.lib:
      if dotted in ('numpy.nan', 'numpy.inf'):
        return self.world.lib[dotted](self, [], {}, node)
      return VCallable('lib', dotted)
    if any(isinstance(k, str) and k.startswith(dotted + '.')
           for k in self.world.lib):
      return VModule(dotted)
    self.unsupported(node, 'library name %s has no contract' % dotted)

  # ------------------------------------------------------------ eval
  def eval(self, node, env):
    self.ctx.cur_line = getattr(node, 'lineno', self.ctx.cur_line)
    m = getattr(self, 'eval_' + type(node).__name__, None)
    if m is None:
      self.unsupported(node)
    return m(node, env)

  def eval_Constant(self, node, env):
    v = node.value
    if v is None:
      return NONE
    if isinstance(v, bool):
      return VBool(v)
    if isinstance(v, int):
      return VInt(v)
    if isinstance(v, float):
      if self.float_mode(env) == 'F':
        from mmverif.engine import dyn
        return dyn.VFP(v)
      return VReal(v)
    if isinstance(v, str):
      return VStr(v)
    self.unsupported(node, 'constant %r' % (v,))

  def float_mode(self, env):
    sp = self.world.spec(env.module.name) if env is not None else None
    return sp.float_mode if sp is not None else 'R'

  def eval_Name(self, node, env):
    return self.lookup_name(node.id, env, node)

  def eval_JoinedStr(self, node, env):
    return VStr('<fstring>')

  def eval_Tuple(self, node, env):
    return VTuple([self.eval(e, env) for e in node.elts])

  def eval_List(self, node, env):
    items = [self.eval(e, env) for e in node.elts]
    return make_concrete_list(self.ctx, items)

  def eval_Set(self, node, env):
    items = [self.eval(e, env) for e in node.elts]
    if not items:
      self.unsupported(node)
    return set_from_items(items)

  def eval_Dict(self, node, env):
    keys = [self.eval(k, env) for k in node.keys]
    vals = [self.eval(v, env) for v in node.values]
    if not keys:
      return VEmptyDict()
    if all(isinstance(k, VStr) for k in keys):
      return VConstDict({k.s: v for k, v in zip(keys, vals)})
    if all(isinstance(v, VStr) for v in vals):
      # {column: 'sum', ...}: an option mapping only ever handed to a library
      d = VOpaque(z3.Const(self.ctx.sym('optdict'), sort_named('OptDict')),
                  'OptDict')
      d.map_keys, d.map_vals = list(keys), list(vals)
      return d
    return dict_from_items(self, keys, vals, node)

  def eval_Attribute(self, node, env):
    recv = self.eval(node.value, env)
    return self.get_attr(recv, node.attr, node, env)

  def get_attr(self, recv, attr, node, env=None):
    if isinstance(recv, VModule):
      return self.module_attr(recv.name, attr, node)
    if isinstance(recv, VOpt):
      recv = self.need_not_none(recv, node, 'receiver of .%s' % attr)
    if isinstance(recv, VNone):
      self.safety(z3.BoolVal(False), 'AttributeError', node,
                  'None has no attribute %s' % attr)
      raise PathEnd('attribute of None')
    if isinstance(recv, VObj):
      return self.obj_attr(recv, attr, node)
    if isinstance(recv, VTuple) and recv.names and attr in recv.names:
      return recv.items[recv.names.index(attr)]
    if isinstance(recv, VCallable) and recv.what == 'class':
      # class attribute (constant or static method)
      modname, cname = recv.target
      cs = self.world.source(modname).classes[cname]
      if attr in cs.methods:
        return VCallable('func', (modname, '%s.%s' % (cname, attr)))
      if attr in cs.defaults:
        return self.eval(cs.defaults[attr], Env(cs.module, cs))
      self.unsupported(node, 'class attribute %s' % attr)
    if isinstance(recv, VOpaque):
      h = self.world.attr_handlers.get((recv.okind, attr))
      if h is not None:
        return h(self, recv, node)
    if hasattr(recv, 'py_getattr'):
      return recv.py_getattr(self, attr, node)
    key = (recv.kind if not isinstance(recv, VOpaque) else
           'opaque:' + recv.okind, attr)
    if key in self.world.vmethods:
      return VCallable('vmethod', key, bound=recv)
    self.unsupported(node, 'attribute %s of %s' % (attr, key[0]))

  def obj_attr(self, obj, attr, node):
    cs = self.world.class_source(obj.cls)
    cached_fn = getattr(self.ctx, 'cached_fn', None)
    if cached_fn and not (cs is not None and attr in cs.methods
                          and attr not in cs.properties):
      self.ctx.cur_line = getattr(node, 'lineno', self.ctx.cur_line)
      self.ctx.oblige(
          z3.BoolVal(False),
          'lru_cache purity: %s reads the attribute %s of a %s, which is not '
          'part of its cache key (the cached result goes stale when that '
          'state changes)' % (cached_fn, attr, obj.cls), 'purity',
          ('C08', 'C05', 'C10'))
    if cs is not None:
      if attr in cs.properties:
        return self.call_repo(cs.module.name, '%s.%s' % (cs.name, attr), obj,
                              [], {}, node)
      if attr in cs.methods:
        if attr in cs.static:
          return VCallable('func', (cs.module.name, '%s.%s' % (cs.name, attr)))
        return VCallable('method', (cs.module.name,
                                    '%s.%s' % (cs.name, attr)), bound=obj)
    return self.ctx.get_field(obj, attr)

  def set_attr(self, recv, attr, value, node):
    if isinstance(recv, VOpt):
      recv = self.need_not_none(recv, node, 'receiver of .%s=' % attr)
    if not isinstance(recv, VObj):
      self.unsupported(node, 'attribute store on %s' % recv.kind)
    cs = self.world.class_source(recv.cls)
    if cs is not None and attr in cs.setters:
      self.call_repo(cs.module.name, '%s.%s.setter' % (cs.name, attr), recv,
                     [value], {}, node)
      return
    if cs is not None and attr in cs.properties:
      self.safety(z3.BoolVal(False), 'AttributeError', node,
                  'property %s has no setter' % attr)
      raise PathEnd('no setter')
    self.ctx.set_field(recv, attr, value)

  def eval_BoolOp(self, node, env):
    # Python semantics: returns an operand; short-circuit.
    is_and = isinstance(node.op, ast.And)
    result = None
    for i, e in enumerate(node.values):
      v = self.eval(e, env)
      result = v
      if i == len(node.values) - 1:
        break
      t = as_bool_term(v)
      taken = self.ctx.branch(t)
      if is_and and not taken:
        return v
      if (not is_and) and taken:
        return v
    return result

  def eval_UnaryOp(self, node, env):
    v = self.eval(node.operand, env)
    if isinstance(node.op, ast.Not):
      return VBool(z3.Not(as_bool_term(v)))
    if isinstance(node.op, ast.USub):
      v = self.need_not_none(v, node, 'operand of unary -')
      if isinstance(v, VInt):
        return VInt(-v.t)
      if isinstance(v, VReal):
        return VReal(-v.t, v.np)
      if isinstance(v, VBool):
        return VInt(-num_term(v))
      if isinstance(v, VOpaque):
        return self.lib_call('numpy.negative', [v], {}, node)
    if isinstance(node.op, ast.Invert):
      if hasattr(v, 'py_invert'):
        return v.py_invert(self, node)
      if isinstance(v, VOpaque):
        return self.lib_call('pandas.invert', [v], {}, node)
      if isinstance(v, VBool):
        self.unsupported(node, '~ on bool')
    self.unsupported(node)

  def eval_BinOp(self, node, env):
    a = self.eval(node.left, env)
    b = self.eval(node.right, env)
    return self.binop(node.op, a, b, node)

  def binop(self, op, a, b, node):
    a = self.need_not_none(a, node, 'left operand') if isinstance(
        a, (VOpt, VNone)) else a
    b = self.need_not_none(b, node, 'right operand') if isinstance(
        b, (VOpt, VNone)) else b
    if isinstance(a, VSet) and isinstance(b, VSet):
      if isinstance(op, ast.BitOr):
        return VSet(z3.SetUnion(a.t, b.t), a.esort)
      if isinstance(op, ast.BitAnd):
        return VSet(z3.SetIntersect(a.t, b.t), a.esort)
      if isinstance(op, ast.Sub):
        return VSet(z3.SetDifference(a.t, b.t), a.esort)
      if isinstance(op, ast.BitXor):
        return VSet(z3.SetUnion(z3.SetDifference(a.t, b.t),
                                z3.SetDifference(b.t, a.t)), a.esort)
    if isinstance(a, VBool) and isinstance(b, VBool):
      if isinstance(op, ast.BitOr):
        return VBool(z3.Or(a.t, b.t))
      if isinstance(op, ast.BitAnd):
        return VBool(z3.And(a.t, b.t))
    if is_numeric(a) and is_numeric(b):
      return self.arith(op, a, b, node)
    if isinstance(a, VStr) and isinstance(b, VStr) and isinstance(op, ast.Add):
      return VStr(a.s + b.s)
    if isinstance(a, VStr) and isinstance(op, ast.Mod):
      return VStr(a.s)
    if isinstance(a, VStr) or isinstance(b, VStr):
      if isinstance(op, ast.Add):
        return VStr('<str>')
    if isinstance(a, VOpaque) or isinstance(b, VOpaque):
      name = 'numpy.binop.' + type(op).__name__
      return self.lib_call(name, [a, b], {}, node)
    if isinstance(a, VSeq) and isinstance(b, VSeq) and isinstance(op, ast.Add):
      return self.lib_call('list.concat', [a, b], {}, node)
    if isinstance(a, VTuple) and isinstance(b, VTuple) and isinstance(
        op, ast.Add) and a.tname == b.tname:
      return VTuple(list(a.items) + list(b.items), tname=a.tname)
    if a.kind == 'series' and is_numeric(b) and isinstance(
        op, (ast.Div, ast.Mult, ast.Add, ast.Sub)):
      # element-wise arithmetic of a Series with a scalar: same labels
      c = num_term(b)
      c = z3.ToReal(c) if c.sort() == z3.IntSort() else c
      old = a.val
      f = {ast.Div: lambda v: v / c, ast.Mult: lambda v: v * c,
           ast.Add: lambda v: v + c, ast.Sub: lambda v: v - c}[type(op)]
      return type(a)(a.labels, lambda g: f(old(g)))
    self.unsupported(node, '%s %s %s' % (a.kind, type(op).__name__, b.kind))

  def arith(self, op, a, b, node):
    isint = not isinstance(a, VReal) and not isinstance(b, VReal)
    np_ = getattr(a, 'np', False) or getattr(b, 'np', False)
    ta, tb = num_term(a), num_term(b)

    def real(t):
      return z3.ToReal(t) if t.sort() == z3.IntSort() else t

    if isinstance(op, ast.Add):
      return VInt(ta + tb) if isint else VReal(real(ta) + real(tb), np_)
    if isinstance(op, ast.Sub):
      return VInt(ta - tb) if isint else VReal(real(ta) - real(tb), np_)
    if isinstance(op, ast.Mult):
      return VInt(ta * tb) if isint else VReal(real(ta) * real(tb), np_)
    if isinstance(op, ast.Div):
      if not np_:
        self.safety(tb != 0, 'ZeroDivisionError', node, 'division')
      return VReal(real(ta) / real(tb), np_)
    if isinstance(op, ast.FloorDiv) and isint:
      self.safety(tb != 0, 'ZeroDivisionError', node, 'floor division')
      return VInt(ta / tb)   # z3 int division floors for positive divisors
    if isinstance(op, ast.Pow):
      if isinstance(b, VInt) and z3.is_int_value(tb):
        n = tb.as_long()
        if 0 <= n <= 4:
          r = z3.RealVal(1) if not isint else z3.IntVal(1)
          base = ta if isint else real(ta)
          for _ in range(n):
            r = r * base
          return VInt(r) if isint else VReal(r, np_)
      return VReal(z3.Function('pow', z3.RealSort(), z3.RealSort(),
                               z3.RealSort())(real(ta), real(tb)), np_)
    if isinstance(op, ast.Mod) and isint:
      self.safety(tb != 0, 'ZeroDivisionError', node, 'modulo')
      return VInt(ta % tb)
    self.unsupported(node, 'arithmetic %s' % type(op).__name__)

  def eval_Compare(self, node, env):
    left = self.eval(node.left, env)
    result = None
    for op, rn in zip(node.ops, node.comparators):
      right = self.eval(rn, env)
      r = self.compare(op, left, right, node)
      if result is None:
        result = r
      else:
        if isinstance(result, VBool) and isinstance(r, VBool):
          result = VBool(z3.And(result.t, r.t))
        else:
          self.unsupported(node, 'chained comparison of non-bools')
      left = right
    return result

  def compare(self, op, a, b, node):
    if hasattr(a, 'py_compare') and not isinstance(op, (ast.Is, ast.IsNot)):
      return a.py_compare(self, op, b, node)
    if a.kind in ('dyn', 'scalar', 'fp') or b.kind in ('dyn', 'scalar', 'fp'):
      from mmverif.engine import dyn
      return dyn.hook_compare(self, op, a, b, node)
    if isinstance(op, (ast.Is, ast.IsNot)):
      if isinstance(b, VNone):
        t = is_none_term(a)
      elif isinstance(a, VNone):
        t = is_none_term(b)
      elif isinstance(a, VObj) and isinstance(b, VObj):
        t = z3.BoolVal(a.oid == b.oid)
      elif isinstance(a, VReal) or isinstance(b, VReal):
        # identity of float objects: a freshly built float is a new object.
        t = z3.BoolVal(False)
      else:
        self.unsupported(node, 'is on %s/%s' % (a.kind, b.kind))
      return VBool(z3.Not(t) if isinstance(op, ast.IsNot) else t)
    if isinstance(op, (ast.Eq, ast.NotEq)):
      if isinstance(a, VOpaque) or isinstance(b, VOpaque):
        if not (isinstance(a, VOpaque) and isinstance(b, VOpaque) and
                a.okind == b.okind and a.okind in ('Geo',)):
          return self.lib_call('numpy.cmp.' + type(op).__name__, [a, b], {},
                               node)
      t = eq_term(a, b)
      return VBool(z3.Not(t) if isinstance(op, ast.NotEq) else t)
    if isinstance(op, (ast.In, ast.NotIn)):
      t = self.contains(b, a, node)
      return VBool(z3.Not(t) if isinstance(op, ast.NotIn) else t)
    # ordering
    if isinstance(a, (VOpt, VNone)):
      a = self.need_not_none(a, node, 'left operand of comparison')
    if isinstance(b, (VOpt, VNone)):
      b = self.need_not_none(b, node, 'right operand of comparison')
    if is_numeric(a) and is_numeric(b):
      ta, tb = num_term(a), num_term(b)
      f = {ast.Lt: lambda x, y: x < y, ast.LtE: lambda x, y: x <= y,
           ast.Gt: lambda x, y: x > y, ast.GtE: lambda x, y: x >= y}[type(op)]
      from mmverif.engine.values import _coerce
      return VBool(_coerce(ta, tb, f))
    if isinstance(a, VSet) and isinstance(b, VSet):
      if isinstance(op, ast.LtE):
        return VBool(z3.IsSubset(a.t, b.t))
      if isinstance(op, ast.GtE):
        return VBool(z3.IsSubset(b.t, a.t))
      if isinstance(op, ast.Lt):
        return VBool(z3.And(z3.IsSubset(a.t, b.t), a.t != b.t))
      if isinstance(op, ast.Gt):
        return VBool(z3.And(z3.IsSubset(b.t, a.t), a.t != b.t))
    if isinstance(a, VObj) and isinstance(b, VObj):
      # rich comparison through __lt__ (dataclasses without order=True)
      if isinstance(op, ast.Lt):
        return self.call_method(a, '__lt__', [b], node)
      if isinstance(op, ast.Gt):
        return self.call_method(b, '__lt__', [a], node)
    if isinstance(a, VTuple) and isinstance(b, VTuple):
      return VBool(tuple_order(op, a, b))
    if isinstance(a, VOpaque) and isinstance(b, VOpaque) and (
        a.okind == 'Ts' and b.okind == 'Ts'):
      gt = z3.Function('TS_GT', a.t.sort(), a.t.sort(), z3.BoolSort())
      if isinstance(op, ast.Gt):
        return VBool(gt(a.t, b.t))
      if isinstance(op, ast.Lt):
        return VBool(gt(b.t, a.t))
      self.unsupported(node, 'timestamp comparison')
    if isinstance(a, VOpaque) or isinstance(b, VOpaque):
      return self.lib_call('numpy.cmp.' + type(op).__name__, [a, b], {}, node)
    self.unsupported(node, 'compare %s %s %s' % (a.kind, type(op).__name__,
                                                 b.kind))

  def contains(self, container, item, node):
    if isinstance(container, VSet):
      it = elem_term(item, container.esort)
      return z3.IsMember(it, container.t)
    if isinstance(container, VTuple):
      return z3.Or([eq_term(item, x) for x in container.items] or
                   [z3.BoolVal(False)])
    if isinstance(container, VSeq):
      if container.elems is None:
        self.unsupported(node, 'membership in an untracked list')
      return z3.IsMember(elem_term(item, container.esort), container.elems)
    if isinstance(container, VDict):
      return z3.IsMember(elem_term(item, container.ksort), container.dom)
    if isinstance(container, VRange):
      t = num_term(item)
      return z3.And(t >= container.lo, t < container.hi)
    if isinstance(container, VOpaque):
      r = self.lib_call('opaque.contains', [container, item], {}, node)
      return as_bool_term(r)
    if hasattr(container, 'py_contains'):
      return container.py_contains(self, item, node)
    self.unsupported(node, 'in %s' % container.kind)

  def eval_IfExp(self, node, env):
    c = self.eval(node.test, env)
    if self.ctx.branch(as_bool_term(c)):
      return self.eval(node.body, env)
    return self.eval(node.orelse, env)

  def eval_Subscript(self, node, env):
    recv = self.eval(node.value, env)
    return self.subscript(recv, node.slice, env, node)

  def subscript(self, recv, sl, env, node):
    recv = self.need_not_none(recv, node, 'subscripted value') if isinstance(
        recv, (VOpt, VNone)) else recv
    if hasattr(recv, 'py_getitem_ast'):
      return recv.py_getitem_ast(self, sl, env, node)
    if isinstance(sl, ast.Slice):
      lo = self.eval(sl.lower, env) if sl.lower is not None else NONE
      hi = self.eval(sl.upper, env) if sl.upper is not None else NONE
      if sl.step is not None:
        self.unsupported(node, 'slice step')
      return self.slice_value(recv, lo, hi, node)
    idx = self.eval(sl, env)
    return self.index_value(recv, idx, node)

  def index_value(self, recv, idx, node):
    if hasattr(recv, 'py_getitem'):
      return recv.py_getitem(self, idx, node)
    if isinstance(recv, VTuple):
      if isinstance(idx, VInt) and z3.is_int_value(z3.simplify(idx.t)):
        i = z3.simplify(idx.t).as_long()
        n = len(recv.items)
        if -n <= i < n:
          return recv.items[i]
        self.safety(z3.BoolVal(False), 'IndexError', node, 'tuple index')
        raise PathEnd('index error')
      if isinstance(idx, VInt):
        n = len(recv.items)
        self.safety(z3.And(idx.t >= -n, idx.t < n), 'IndexError', node,
                    'tuple index')
        out = recv.items[n - 1]
        for i in range(n - 2, -1, -1):
          out = ite_value(z3.Or(idx.t == i, idx.t == i - n), recv.items[i],
                          out)
        return out
      self.unsupported(node, 'tuple index %s' % idx.kind)
    if isinstance(recv, VDict):
      k = elem_term(idx, recv.ksort)
      self.safety(z3.IsMember(k, recv.dom), 'KeyError', node, 'dict key')
      return decode(z3.Select(recv.val, k), recv.vshape)
    if recv.kind == 'ddl':
      from mmverif.engine import libcontracts
      return libcontracts.ddl_getitem(self, recv, idx, node)
    if isinstance(recv, VSeq):
      idx = self.need_not_none(idx, node, 'list index')
      if not isinstance(idx, (VInt, VBool)):
        self.safety(z3.BoolVal(False), 'TypeError', node,
                    'list indices must be integers')
        raise PathEnd('type error')
      i = num_term(idx)
      self.safety(z3.And(i >= -recv.length, i < recv.length), 'IndexError',
                  node, 'list index')
      j = z3.If(i < 0, i + recv.length, i)
      out = term_value(recv.at(j), recv.esort)
      if recv.sid is not None and z3.is_const(i):
        out.image_of = recv       # {seq[x] for x in S} is recognised
      return out
    if isinstance(recv, VRange):
      i = num_term(idx)
      n = z3.If(recv.hi > recv.lo, recv.hi - recv.lo, 0)
      self.safety(z3.And(i >= -n, i < n), 'IndexError', node, 'range index')
      return VInt(z3.If(i < 0, recv.hi + i, recv.lo + i))
    if isinstance(recv, VOpaque):
      return self.lib_call('opaque.getitem', [recv, idx], {}, node)
    self.unsupported(node, 'subscript of %s' % recv.kind)

  def slice_value(self, recv, lo, hi, node):
    if isinstance(recv, VOpaque):
      return self.lib_call('opaque.slice', [recv, lo, hi], {}, node)
    if isinstance(recv, VSeq):
      return self.lib_call('list.slice', [recv, lo, hi], {}, node)
    if isinstance(recv, VTuple):
      def c(v, d):
        if isinstance(v, VNone):
          return d
        t = z3.simplify(num_term(v))
        if not z3.is_int_value(t):
          self.unsupported(node, 'symbolic tuple slice')
        return t.as_long()
      return VTuple(recv.items[c(lo, None):c(hi, None)])
    self.unsupported(node, 'slice of %s' % recv.kind)

  def eval_Lambda(self, node, env):
    return VCallable('lambda', (node, env))

  def eval_Call(self, node, env):
    fn = self.eval(node.func, env)
    args = []
    for a in node.args:
      if isinstance(a, ast.Starred):
        v = self.eval(a.value, env)
        if isinstance(v, VTuple):
          args.extend(v.items)
        elif isinstance(v, VOpaque):
          kwargs_star = v            # f(*args): passed on as one opaque value
          args.append(v)
        else:
          self.unsupported(node, 'star-args of %s' % v.kind)
      else:
        args.append(self.eval_arg(a, env))
    kwargs = {}
    for k in node.keywords:
      if k.arg is None:
        # f(**d): the mapping is passed on as one opaque value
        kwargs['**'] = self.eval_arg(k.value, env)
        continue
      kwargs[k.arg] = self.eval_arg(k.value, env)
    for ev in getattr(self, 'iter_events', []):
      ev.add('call:' + ast.unparse(node.func))
    c = self.ctx.unit.contract
    if c is not None and c.at_calls and env.qualname == c.fn_qualname:
      key = ast.unparse(node.func)
      if key in c.at_calls:
        from mmverif.engine import loops as loopmod
        vals = dict(loopmod.visible_vars(env))
        ns = NS(self.ctx, vals, heap=None, old=self.ctx.entry_old_ns,
                extra={'args': args, 'kwargs': kwargs})
        self.ctx.cur_line = node.lineno
        for cl in c.at_calls[key]:
          g = cl.fn(ns)
          self.ctx.oblige(g, cl.label, 'callsite', cl.props)
          self.ctx.assume(g)
    return self.call(fn, args, kwargs, node, env)

  def eval_arg(self, a, env):
    if isinstance(a, ast.GeneratorExp):
      return VCallable('genexp', (a, env))
    return self.eval(a, env)

  def eval_ListComp(self, node, env):
    return self.world.lib['list.comprehension'](self, node, env)

  def eval_SetComp(self, node, env):
    return self.world.lib['set.comprehension'](self, node, env)

  def eval_GeneratorExp(self, node, env):
    return VCallable('genexp', (node, env))

  def eval_Starred(self, node, env):
    self.unsupported(node)

  # ------------------------------------------------------------ calls
  def call(self, fn, args, kwargs, node, env=None):
    if isinstance(fn, VOpt):
      fn = self.need_not_none(fn, node, 'called object')
    if hasattr(fn, 'py_call'):
      return fn.py_call(self, args, kwargs, node)
    if not isinstance(fn, VCallable):
      self.unsupported(node, 'call of %s' % fn.kind)
    w = fn.what
    if w == 'builtin':
      return self.world.builtins[fn.target](self, args, kwargs, node)
    if w == 'lib':
      return self.lib_call(fn.target, args, kwargs, node)
    if w == 'vmethod':
      return self.world.vmethods[fn.target](self, fn.bound, args, kwargs, node)
    if w == 'class':
      return self.instantiate(fn.target[0], fn.target[1], args, kwargs, node)
    if w == 'func':
      return self.call_repo(fn.target[0], fn.target[1], None, args, kwargs,
                            node)
    if w == 'method':
      return self.call_repo(fn.target[0], fn.target[1], fn.bound, args, kwargs,
                            node)
    if w == 'closure':
      fdef, cenv, qual = fn.target
      return self.call_closure(fdef, cenv, qual, args, kwargs, node)
    if w == 'lambda':
      lam, cenv = fn.target
      e2 = Env(cenv.module, cenv.cls, parent=cenv, qualname=cenv.qualname)
      for p, a in zip(lam.args.args, args):
        e2.assign(p.arg, a)
      return self.eval(lam.body, e2)
    if w == 'exc':
      return VCallable('excinst', fn.target)
    self.unsupported(node, 'call of %s' % w)

  def lib_call(self, name, args, kwargs, node):
    h = self.world.lib.get(name)
    if h is None:
      self.unsupported(node, 'library call %s has no contract' % name)
    return h(self, args, kwargs, node)

  def call_method(self, obj, name, args, node):
    cs = self.world.class_source(obj.cls)
    if cs is None or name not in cs.methods:
      self.unsupported(node, 'method %s.%s' % (obj.cls, name))
    return self.call_repo(cs.module.name, '%s.%s' % (cs.name, name), obj, args,
                          {}, node)

  def bind_params(self, fdef, self_obj, args, kwargs, env_for_defaults, node,
                  is_static=False):
    params = [a.arg for a in fdef.args.args]
    bound = {}
    if self_obj is not None and not is_static and params and params[0] in (
        'self', 'cls'):
      bound[params[0]] = self_obj
      params = params[1:]
    elif params and params[0] == 'self' and self_obj is None:
      params = params[1:]
    defaults = fdef.args.defaults
    ndef = len(defaults)
    allp = [a.arg for a in fdef.args.args]
    for i, a in enumerate(args):
      if i >= len(params):
        self.unsupported(node, 'too many arguments')
      bound[params[i]] = a
    for k, v in kwargs.items():
      if k not in params:
        self.unsupported(node, 'unexpected keyword %s' % k)
      bound[k] = v
    for p in params:
      if p not in bound:
        pos = allp.index(p) - (len(allp) - ndef)
        if pos < 0:
          self.unsupported(node, 'missing argument %s' % p)
        bound[p] = self.eval(defaults[pos], env_for_defaults)
    return bound

  def call_repo(self, modname, qualname, self_obj, args, kwargs, node):
    """Call of a repository function: by contract, or inlined if the sidecar
    says so."""
    src = self.world.source(modname)
    sp = self.world.spec(modname)
    fdef, cs = src.find(qualname)
    contract = sp.contracts.get(qualname) if sp else None
    is_static = cs is not None and qualname.split('.')[-1] in cs.static
    denv = Env(src, cs)
    bound = self.bind_params(fdef, self_obj, args, kwargs, denv, node,
                             is_static)
    if sp is not None and qualname in getattr(sp, 'variants', {}):
      contract = None
      for c in sp.variants[qualname]:
        if all(const_equal(bound.get(k), v) for k, v in c.const_args.items()):
          contract = c
          break
      if contract is None:
        self.unsupported(node, 'no contract variant of %s for these constant '
                         'arguments' % qualname)
    if contract is not None and getattr(contract, 'impl', None) is not None:
      return contract.impl(self, bound, node)
    if contract is not None and not (sp and qualname in sp.inline):
      return self.call_by_contract(contract, bound, node, modname,
                                   ghost=getattr(self, '_ghost', False))
    if sp is not None and qualname in sp.inline:
      return self.inline(fdef, src, cs, bound, qualname)
    self.unsupported(node, 'call of %s.%s which has no contract' %
                     (modname, qualname))

  def inline(self, fdef, src, cs, bound, qualname, parent=None):
    if self.ctx.depth > 12:
      raise EngineError('inlining too deep at %s' % qualname)
    env = Env(src, cs, parent=parent, qualname=qualname)
    env.vars.update(bound)
    saved = self.ctx.cur_func
    self.ctx.depth += 1
    # functools.lru_cache: the result is keyed by the ARGUMENTS only (self by
    # identity), so inlining the body is sound only if the body reads no
    # object state - every field / property read inside it is an obligation
    # that fails (obj_attr).
    saved_cached = getattr(self.ctx, 'cached_fn', None)
    if cs is not None and fdef.name in cs.cached and parent is None:
      self.ctx.cached_fn = qualname
    try:
      self.exec_block(frontend.strip_docstring(fdef.body), env)
      return NONE
    except ReturnSig as r:
      return r.value
    finally:
      self.ctx.depth -= 1
      self.ctx.cur_func = saved
      self.ctx.cached_fn = saved_cached

  def call_closure(self, fdef, cenv, qual, args, kwargs, node):
    modname = cenv.module.name
    sp = self.world.spec(modname)
    contract = sp.contracts.get(qual) if sp else None
    bound = self.bind_params(fdef, None, args, kwargs, cenv, node)
    if contract is not None:
      for name in contract.captured:
        bound[name] = cenv.lookup(name)
      return self.call_by_contract(contract, bound, node, modname)
    return self.inline(fdef, cenv.module, cenv.cls, bound, qual, parent=cenv)

  def instantiate(self, modname, cname, args, kwargs, node):
    src = self.world.source(modname)
    sp = self.world.spec(modname)
    cs = src.classes[cname]
    if any(b in ('enum.IntEnum', 'pd.DataFrame') for b in cs.bases):
      self.unsupported(node, 'instantiation of %s' % cname)
    qual = cname + '.__init__'
    obj = self.ctx.new_object(cname, cname.lower())
    if '__init__' in cs.methods:
      fdef = cs.methods['__init__']
      bound = self.bind_params(fdef, obj, args, kwargs, Env(src, cs), node)
      contract = sp.contracts.get(qual) if sp else None
      if contract is not None and qual not in sp.inline:
        self.call_by_contract(contract, bound, node, modname)
      elif sp is not None and qual in sp.inline:
        self.inline(fdef, src, cs, bound, qual)
      else:
        self.unsupported(node, 'constructor %s has no contract' % qual)
      return obj
    if cs.is_dataclass:
      # dataclass-generated __init__: assign fields in order, then
      # __post_init__ (trusted dataclasses contract).
      names = cs.field_order
      bound = {}
      for i, a in enumerate(args):
        bound[names[i]] = a
      bound.update(kwargs)
      for n in names:
        if n not in bound:
          if n in cs.defaults:
            bound[n] = self.eval(cs.defaults[n], Env(src, cs))
          else:
            self.safety(z3.BoolVal(False), 'TypeError', node,
                        'missing dataclass argument %s' % n)
            raise PathEnd('missing arg')
        self.ctx.set_field(obj, n, bound[n])
      if '__post_init__' in cs.methods:
        self.call_repo(modname, cname + '.__post_init__', obj, [], {}, node)
      return obj
    self.unsupported(node, 'class %s without __init__' % cname)

  # -- call by contract ---------------------------------------------------
  def call_by_contract(self, contract, bound, node, modname, ghost=False):
    ctx = self.ctx
    line = getattr(node, 'lineno', ctx.cur_line)
    ctx.cur_line = line
    # coerce arguments to the declared parameter shapes
    for p, shape in contract.params.items():
      if p in bound:
        bound[p] = conform(ctx, bound[p], shape)
    old_heap = ctx.snapshot_heap()
    lh_old = None
    if getattr(ctx, '_lheap', None) is not None or '@lheap' in contract.modifies:
      from mmverif.engine import libcontracts as _lc
      lh_old = dict(_lc.lheap(ctx))
    xtra = {'old_lheap': lh_old} if lh_old is not None else None
    old_ns = NS(ctx, dict(bound), heap=old_heap, extra=xtra)
    ns = NS(ctx, dict(bound), heap=None, old=old_ns, extra=xtra)
    callee = contract.qualname
    if ghost and contract.memo:
      mk = (callee,) + tuple(
          (k, v.oid if isinstance(v, VObj) else str(v.flatten()))
          for k, v in sorted(bound.items()))
      m = ctx.memo.get(mk)
      if m is not None and all(ctx.objects[oid].fields.get(f) is v
                               for (oid, f), v in m['reads'].items()):
        for (oid, f), v in m['writes'].items():
          ctx.objects[oid].fields[f] = v
        for f in m.get('facts', ()):
          ctx.assume(f)
        return m['result']
    for cl in contract.requires:
      g = cl.fn(ns)
      if not ghost:
        ctx.oblige(g, '%s<-%s' % (callee, cl.label), 'pre',
                   cl.props or contract.props)
      ctx.assume(g)
    # exceptional exits: "raises E exactly when cond"
    for exc, cl in contract.raises.items():
      cond = to_term(cl.fn(ns))
      if ctx.branch(cond):
        raise RaiseSig(exc, 'from %s' % callee)
    mkey = None
    if contract.memo:
      mkey = (callee,) + tuple(
          (k, v.oid if isinstance(v, VObj) else str(v.flatten()))
          for k, v in sorted(bound.items()))
      m = ctx.memo.get(mkey)
      if m is not None and all(
          ctx.objects[oid].fields.get(f) is v
          for (oid, f), v in m['reads'].items()):
        for (oid, f), v in m['writes'].items():
          ctx.objects[oid].fields[f] = v
        for f in m.get('facts', ()):
          ctx.assume(f)      # idempotent; needed after a merged branch
        return m['result']
    # frame
    before = {(oid, f): v for oid, rec in ctx.objects.items()
              for f, v in rec.fields.items()}
    if contract.returns is not None:
      contract._ret_pre = unwrap(contract.returns(ns))
    self.havoc_frame(contract, bound, ns)
    result = NONE
    if contract.returns is not None:
      # value = spec function of the PRE-state (evaluated before the frame)
      result = contract._ret_pre
    elif contract.result is not None:
      result = contract.result.fresh(ctx, 'r_' + callee.split('.')[-1])
    vals = dict(bound)
    vals['result'] = result
    for path, fn in contract.binds.items():
      parts = path.split('.')
      obj = bound[parts[0]]
      for f in parts[1:-1]:
        obj = self.deref(ctx.get_field(self.deref(obj, path), f), path)
      ctx.objects[self.deref(obj, path).oid].fields[parts[-1]] = unwrap(
          fn(NS(ctx, dict(bound), heap=None, old=old_ns)))
    post_ns = NS(ctx, vals, heap=None, old=old_ns, extra=xtra)
    npc0 = len(ctx.pc)
    for cl in contract.ensures:
      ctx.assume(cl.fn(post_ns))
    new_facts = list(ctx.pc[npc0:])
    if contract.kind == 'generator':
      from mmverif.engine import loops as loopmod
      eshape = contract.elem
      yields = contract.yields
      base_vals = dict(bound)
      n = z3.Int(ctx.sym('n_' + callee.split('.')[-1]))
      ctx.assume(n >= 0)
      es = None
      if isinstance(eshape, TSet):
        es = z3.SetSort(eshape.esort)
      elif isinstance(eshape, TInt):
        es = z3.IntSort()
      whole = None
      if es is not None:
        whole = z3.Const(ctx.sym('ys_' + callee.split('.')[-1]),
                         z3.SetSort(es))
        vals3 = dict(base_vals)
        vals3['yielded'] = VSet(whole, es)
        ns3 = NS(ctx, vals3, heap=None, old=old_ns)
        for cl in contract.gen_post:
          ctx.assume(cl.fn(ns3))

      def elem(c, k):
        e = eshape.fresh(c, 'y_' + callee.split('.')[-1])
        vals2 = dict(base_vals)
        vals2['elem'] = e
        ns2 = NS(c, vals2, heap=None, old=old_ns)
        for cl in yields:
          c.assume(cl.fn(ns2))
        if whole is not None:
          c.assume(z3.IsMember(elem_term(e, es), whole))
        return e

      it = loopmod.VIter(n, elem, visited_sort=es, distinct=False,
                         whole=whole,
                         to_term=(lambda v: elem_term(v, es)) if es is not None
                         else None)
      return it
    if mkey is not None:
      writes = {k: v for k, v in ((
          (oid, f), v) for oid, rec in ctx.objects.items()
                                  for f, v in rec.fields.items())
                if before.get(k) is not v}
      reads = {k: v for k, v in before.items() if k not in writes}
      if contract.reads is not None:
        reads = {k: v for k, v in reads.items()
                 if '%s.%s' % (ctx.objects[k[0]].cls, k[1]) in contract.reads}
      ctx.memo[mkey] = {'result': result, 'writes': writes, 'reads': reads,
                        'facts': new_facts}
    return result

  def ghost_call(self, modname, qualname, self_obj, restore=True):
    """Evaluate a memoised contract for specification purposes: the result
    is the value every real call will return; the heap is left untouched."""
    ctx = self.ctx
    before = {(oid, f): v for oid, rec in ctx.objects.items()
              for f, v in rec.fields.items()}
    node = ast.Pass(lineno=ctx.cur_line)
    n_ob = len(ctx.unit.obligations)
    self._ghost = True
    try:
      r = self.call_repo(modname, qualname, self_obj, [], {}, node)
    finally:
      self._ghost = False
    del ctx.unit.obligations[n_ob:]      # ghost: no obligations of its own
    if restore:
      for (oid, f), v in before.items():
        ctx.objects[oid].fields[f] = v
    return r

  def havoc_frame(self, contract, bound, ns):
    ctx = self.ctx
    for path in contract.modifies:
      if path == '@lheap':
        from mmverif.engine import libcontracts as _lc
        h = _lc.lheap(ctx)
        n = ctx.sym('lheap')
        for k_ in ('bag', 'len', 'desc', 'heap'):
          h[k_] = z3.Const('%s.%s' % (n, k_), h[k_].sort())
        h['alloc'] = z3.Int(n + '.alloc')
        continue
      parts = path.split('.')
      root = bound.get(parts[0])
      if root is None:
        raise EngineError('modifies clause %s: unknown root' % path)
      obj = root
      for f in parts[1:-1]:
        obj = ctx.get_field(self.deref(obj, path), f)
      obj = self.deref(obj, path)
      last = parts[-1]
      cs = self.world.class_spec(obj.cls)
      if last == '*':
        fields = list(cs.fields) if cs else []
      else:
        fields = [last]
      for f in fields:
        if cs is None or f not in cs.fields:
          raise EngineError('modifies %s: field %s.%s has no declared shape' %
                            (path, obj.cls, f))
        ctx.objects[obj.oid].fields[f] = cs.fields[f].fresh(
            ctx, '%s.%s' % (obj.cls, f))

  def deref(self, v, what):
    if isinstance(v, VOpt):
      return v.val
    if not isinstance(v, VObj):
      raise EngineError('%s does not denote an object' % what)
    return v

  # ------------------------------------------------------------ statements
  def exec_block(self, stmts, env):
    for s in stmts:
      self.exec_stmt(s, env)

  def exec_stmt(self, node, env):
    self.ctx.cur_line = getattr(node, 'lineno', self.ctx.cur_line)
    m = getattr(self, 'exec_' + type(node).__name__, None)
    if m is None:
      self.unsupported(node)
    m(node, env)

  def exec_Pass(self, node, env):
    pass

  def exec_Expr(self, node, env):
    if isinstance(node.value, ast.Constant):
      return
    if isinstance(node.value, (ast.Yield, ast.YieldFrom)):
      self.exec_yield(node.value, env)
      return
    self.eval(node.value, env)

  def exec_Assign(self, node, env):
    v = self.eval(node.value, env)
    for t in node.targets:
      self.assign_target(t, v, env, node)

  def exec_AnnAssign(self, node, env):
    if node.value is not None:
      self.assign_target(node.target, self.eval(node.value, env), env, node)

  def exec_AugAssign(self, node, env):
    cur = self.eval(node.target, env)
    val = self.eval(node.value, env)
    if isinstance(cur, VSeq) and isinstance(node.op, ast.Add):
      r = self.lib_call('list.concat', [cur, val], {}, node)
    else:
      r = self.binop(node.op, cur, val, node)
    if getattr(cur, 'kind', None) in INPLACE_KINDS and cur is not r:
      # pandas/NumPy objects are updated IN PLACE by augmented assignment:
      # every field and variable that refers to the same object sees the new
      # contents (a write to each such field, checked against the frame)
      for oid, rec in list(self.ctx.objects.items()):
        for f, v in list(rec.fields.items()):
          if v is cur or (isinstance(v, VOpt) and v.val is cur):
            nv = r if v is cur else VOpt(v.none, r)
            self.ctx.set_field(VObj(oid, rec.cls), f, nv)
      e = env
      while e is not None:
        for k, v in list(e.vars.items()):
          if v is cur:
            e.vars[k] = r
        e = e.parent
    self.assign_target(node.target, r, env, node)

  def assign_target(self, t, v, env, node):
    if isinstance(t, ast.Name):
      sh = self.local_shape(env, t.id)
      if sh is not None:
        v = conform(self.ctx, v, sh)
      env.assign(t.id, v)
    elif isinstance(t, ast.Attribute):
      recv = self.eval(t.value, env)
      if hasattr(recv, 'py_setattr'):
        # pandas object treated as a value: the store yields a new value
        self.assign_target(t.value, recv.py_setattr(self, t.attr, v, node),
                           env, node)
        return
      self.set_attr(recv, t.attr, v, node)
    elif isinstance(t, (ast.Tuple, ast.List)):
      self.unpack(t, v, env, node)
    elif isinstance(t, ast.Subscript):
      recv = self.eval(t.value, env)
      idx = self.eval(t.slice, env)
      new = self.world.lib['store.subscript'](self, [recv, idx, v], {}, node)
      if new is not None:
        self.assign_target(t.value, new, env, node)
    else:
      self.unsupported(node, 'assignment target')

  def local_shape(self, env, name):
    c = self.ctx.unit.contract
    if c is not None and env.qualname == c.fn_qualname:
      return c.locals_shapes.get(name)
    return None

  def unpack(self, t, v, env, node):
    v = self.need_not_none(v, node, 'unpacked value') if isinstance(
        v, (VOpt, VNone)) else v
    if v.kind == 'dyn':
      from mmverif.engine import dyn
      self.safety(dyn.Dyn.is_tup2(v.t) if len(t.elts) == 2 else
                  z3.BoolVal(False), 'TypeError', node, 'unpack of a non-pair')
      v = VTuple([dyn.VScalar(dyn.Dyn.fst(v.t)), dyn.VScalar(dyn.Dyn.snd(v.t))])
    if not isinstance(v, VTuple):
      if isinstance(v, VOpaque):
        v = self.lib_call('opaque.unpack', [v, VInt(len(t.elts))], {}, node)
      else:
        self.unsupported(node, 'unpack of %s' % v.kind)
    star = [i for i, e in enumerate(t.elts) if isinstance(e, ast.Starred)]
    if star:
      i = star[0]
      after = len(t.elts) - i - 1
      if len(v.items) < len(t.elts) - 1:
        self.safety(z3.BoolVal(False), 'ValueError', node, 'unpack arity')
        raise PathEnd('unpack')
      for e, x in zip(t.elts[:i], v.items[:i]):
        self.assign_target(e, x, env, node)
      mid = v.items[i:len(v.items) - after]
      self.assign_target(t.elts[i].value, VTuple(mid), env, node)
      for e, x in zip(t.elts[i + 1:], v.items[len(v.items) - after:]):
        self.assign_target(e, x, env, node)
      return
    if len(v.items) != len(t.elts):
      self.safety(z3.BoolVal(False), 'ValueError', node, 'unpack arity')
      raise PathEnd('unpack')
    for e, x in zip(t.elts, v.items):
      self.assign_target(e, x, env, node)

  def exec_Return(self, node, env):
    v = self.eval(node.value, env) if node.value is not None else NONE
    raise ReturnSig(v)

  def exec_Raise(self, node, env):
    if node.exc is None:
      raise RaiseSig('reraise')
    e = node.exc
    name = None
    if isinstance(e, ast.Call):
      f = e.func
      name = f.id if isinstance(f, ast.Name) else ast.unparse(f)
      # evaluate the message arguments: they may themselves fail
      for a in e.args:
        self.eval(a, env)
    elif isinstance(e, ast.Name):
      name = e.id
    if name is None:
      self.unsupported(node)
    raise RaiseSig(name, 'line %d' % node.lineno)

  def exec_If(self, node, env):
    c = self.eval(node.test, env)
    t = z3.simplify(as_bool_term(c))
    if not (z3.is_true(t) or z3.is_false(t)) and (
        self.ctx.lookup_known(t) is None) and _mergeable(node.body) and (
            _mergeable(node.orelse)) and self.ctx.depth <= 12:
      if self.try_merge_if(node, env, t):
        return
    if self.ctx.branch(t):
      self.exec_block(node.body, env)
    else:
      self.exec_block(node.orelse, env)

  def try_merge_if(self, node, env, t):
    """If-conversion: run both branches (assignments / calls only) and merge
    the resulting variable and field values with ite, instead of splitting
    the path.  Facts learned inside a branch are kept as implications."""
    ctx = self.ctx
    chain = []
    e = env
    while e is not None:
      chain.append(e)
      e = e.parent
    snap_vars = [dict(e.vars) for e in chain]
    snap_heap = {oid: dict(rec.fields) for oid, rec in ctx.objects.items()}
    snap_pc = len(ctx.pc)
    snap_ids = set(ctx.pc_ids)
    snap_known = dict(ctx.known)
    snap_obl = len(ctx.unit.obligations)
    snap_names = dict(ctx.unit.names)
    snap_dec = len(ctx.decisions)
    snap_lheap = dict(ctx._lheap) if getattr(ctx, '_lheap', None) else None
    results = []
    # mutable containers (dict / list values) are updated in place: remember
    # their contents; a branch that mutates one cannot be merged
    mutables = {}
    for sv in snap_vars:
      for v in sv.values():
        if hasattr(v, 'clone') and hasattr(v, 'same_as'):
          mutables[id(v)] = (v, v.clone())
    for fields in snap_heap.values():
      for v in fields.values():
        if hasattr(v, 'clone') and hasattr(v, 'same_as'):
          mutables[id(v)] = (v, v.clone())

    def mutated():
      bad = False
      for v, c in mutables.values():
        if not v.same_as(c):
          v.__dict__.update(c.__dict__)
          bad = True
      return bad

    def restore():
      for e, sv in zip(chain, snap_vars):
        e.vars.clear()
        e.vars.update(sv)
      for oid, fields in snap_heap.items():
        ctx.objects[oid].fields.clear()
        ctx.objects[oid].fields.update(fields)
      del ctx.pc[snap_pc:]
      ctx.pc_ids = set(snap_ids)
      ctx.known = dict(snap_known)
      if snap_lheap is not None:
        ctx._lheap.clear()
        ctx._lheap.update(snap_lheap)

    ctx.merging += 1
    try:
      for cond, body in ((t, node.body), (z3.Not(t), node.orelse)):
        ctx.solver.push()
        try:
          ctx.assume(cond)
          self.exec_block(body, env)
          if len(ctx.decisions) != snap_dec or mutated():
            raise MergeAbort()
          results.append((
              cond, [dict(e.vars) for e in chain],
              {oid: dict(rec.fields) for oid, rec in ctx.objects.items()
               if oid in snap_heap},
              list(ctx.pc[snap_pc + 1:]),
              dict(ctx._lheap) if snap_lheap is not None else None))
        finally:
          ctx.solver.pop()
        restore()
    except (Signal, EngineError):
      mutated()
      restore()
      del ctx.unit.obligations[snap_obl:]
      ctx.unit.names = snap_names
      del ctx.decisions[snap_dec:]
      return False
    finally:
      ctx.merging -= 1
    (c1, vars1, heap1, pc1, lh1), (c2, vars2, heap2, pc2, lh2) = results
    try:
      merged_vars = []
      for e, v1, v2, sv in zip(chain, vars1, vars2, snap_vars):
        out = dict(sv)
        for name in set(v1) | set(v2):
          a, b = v1.get(name), v2.get(name)
          if a is None or b is None:
            # a name bound on one side only cannot be merged: split instead
            raise EngineError('merge')
          out[name] = a if a is b else ite_value(t, a, b)
        merged_vars.append(out)
      merged_heap = {}
      for oid in snap_heap:
        f1, f2 = heap1[oid], heap2[oid]
        out = {}
        for f in set(f1) | set(f2):
          a, b = f1.get(f), f2.get(f)
          if a is None or b is None:
            raise EngineError('merge')
          out[f] = a if a is b else ite_value(t, a, b)
        merged_heap[oid] = out
      if lh1 is not None and any(not lh1[k].eq(lh2[k]) for k in lh1):
        raise EngineError('merge')
    except EngineError:
      del ctx.unit.obligations[snap_obl:]
      ctx.unit.names = snap_names
      return False
    for e, mv in zip(chain, merged_vars):
      e.vars.clear()
      e.vars.update(mv)
    for oid, fields in merged_heap.items():
      ctx.objects[oid].fields.clear()
      ctx.objects[oid].fields.update(fields)
    for cond, facts in ((c1, pc1), (c2, pc2)):
      for f in facts:
        ctx.assume(z3.Implies(cond, f))
    return True

  def exec_Continue(self, node, env):
    c = self.ctx.unit.contract
    stack = getattr(self, 'loop_stack', [])
    if c is not None and c.at_continue and stack and (
        env.qualname == c.fn_qualname) and stack[-1] in c.at_continue:
      from mmverif.engine import loops as loopmod
      ns = NS(self.ctx, dict(loopmod.visible_vars(env)), heap=None,
              old=self.ctx.entry_old_ns)
      self.ctx.cur_line = node.lineno
      for cl in c.at_continue[stack[-1]]:
        self.ctx.oblige(cl.fn(ns), cl.label, 'continue', cl.props)
    raise ContinueSig()

  def exec_Break(self, node, env):
    raise BreakSig()

  def exec_Try(self, node, env):
    if node.finalbody or node.orelse:
      self.unsupported(node, 'try/finally/else')
    try:
      self.exec_block(node.body, env)
    except RaiseSig as r:
      for h in node.handlers:
        names = []
        if h.type is None:
          names = None
        elif isinstance(h.type, ast.Name):
          names = [h.type.id]
        elif isinstance(h.type, ast.Tuple):
          names = [ast.unparse(x) for x in h.type.elts]
        if names is None or r.exc in names or 'Exception' in names:
          if h.name:
            env.assign(h.name, VCallable('excinst', r.exc))
          self.exec_block(h.body, env)
          return
      raise

  def exec_FunctionDef(self, node, env):
    qual = env.qualname + '.' + node.name if env.qualname else node.name
    env.assign(node.name, VCallable('closure', (node, env, qual)))

  def exec_Assert(self, node, env):
    c = self.eval(node.test, env)
    self.safety(as_bool_term(c), 'AssertionError', node, 'assert')

  def exec_Delete(self, node, env):
    self.unsupported(node)

  def exec_Import(self, node, env):
    for a in node.names:
      env.assign(a.asname or a.name.split('.')[0],
                 self.import_value(a.name if a.asname else a.name.split('.')[0]))

  # -- generators (callee side) -------------------------------------------
  def exec_yield(self, node, env):
    gen = env.gen
    e = env
    while gen is None and e is not None:
      gen = e.gen
      e = e.parent
    if gen is None:
      self.unsupported(node, 'yield outside a generator under contract')
    if isinstance(node, ast.YieldFrom):
      src = self.eval(node.value, env)
      if not isinstance(src, VRange):
        self.unsupported(node, 'yield from %s' % src.kind)
      k = z3.Int(self.ctx.sym('yf'))
      # one arbitrary element of the range; nothing follows on this path
      if self.ctx.choice(2) == 0:
        if not self.ctx.feasible(z3.And(k >= src.lo, k < src.hi)):
          raise PathEnd('empty range')
        self.ctx.assume(z3.And(k >= src.lo, k < src.hi))
        gen.on_yield(self, VInt(k), node)
        raise PathEnd('yield-from element')
      gen.add_range(src.lo, src.hi)     # the other path: all of them yielded
      return
    v = self.eval(node.value, env) if node.value is not None else NONE
    gen.on_yield(self, v, node)

  # -- loops ----------------------------------------------------------------
  def find_loop_spec(self, node, env):
    c = self.ctx.unit.contract
    specs_ = None
    if c is not None and env.qualname == c.fn_qualname:
      specs_ = c.loops
    else:
      sp = self.world.spec(env.module.name)
      cc = sp.contracts.get(env.qualname) if sp else None
      specs_ = cc.loops if cc else None
    if not specs_:
      return None
    if isinstance(node, ast.For):
      key = (ast.unparse(node.target), ast.unparse(node.iter))
    else:
      key = ('while', ast.unparse(node.test))
    def norm(k):
      out = []
      for part in k:
        try:
          out.append(ast.unparse(ast.parse(part, mode='eval').body))
        except SyntaxError:
          out.append(part)
      return tuple(out)
    cands = [l for l in specs_ if norm(l.key) == norm(key)]
    if not cands and isinstance(node, ast.For):
      # the iterated expression was edited: fall back to the loop variable,
      # so that the invariant is still checked against the changed loop
      cands = [l for l in specs_ if norm(l.key)[0] == norm(key)[0]]
    if not cands and isinstance(node, ast.While):
      cands = [l for l in specs_ if l.key[0] == 'while']
    if not cands:
      return None
    if len(cands) == 1:
      return cands[0]
    # tie-break by ordinal among loops with the same key in this function
    fdef = self.ctx.unit.fdef
    same = [n for n in ast.walk(fdef) if type(n) is type(node) and (
        (isinstance(n, ast.For) and (ast.unparse(n.target),
                                     ast.unparse(n.iter)) == key) or
        (isinstance(n, ast.While) and ('while', ast.unparse(n.test)) == key))]
    same.sort(key=lambda n: n.lineno)
    ordn = same.index(node)
    for l in cands:
      if l.ordinal == ordn:
        return l
    return cands[min(ordn, len(cands) - 1)]

  def exec_For(self, node, env):
    from mmverif.engine import loops
    if not hasattr(self, 'loop_stack'):
      self.loop_stack = []
    self.loop_stack.append(ast.unparse(node.target))
    try:
      loops.exec_for(self, node, env)
    finally:
      self.loop_stack.pop()

  def exec_While(self, node, env):
    from mmverif.engine import loops
    loops.exec_while(self, node, env)


# ----------------------------------------------------------------------------
# small helpers shared with lib.py


def const_equal(a, b):
  """Structural equality of constant argument values (contract variants)."""
  if a is None or b is None:
    return False
  if isinstance(a, VStr) and isinstance(b, VStr):
    return a.s == b.s
  if isinstance(a, VTuple) and isinstance(b, VTuple):
    return len(a.items) == len(b.items) and all(
        const_equal(x, y) for x, y in zip(a.items, b.items))
  if type(a) is type(b) and hasattr(a, 't') and hasattr(b, 't'):
    return z3.simplify(a.t).eq(z3.simplify(b.t))
  return False


def elem_term(v, esort):
  """z3 term of a value used as an element of a set/dict over esort."""
  if isinstance(v, VOpt):
    v = v.val
  if isinstance(v, (VInt, VBool)) and esort == z3.IntSort():
    return num_term(v)
  if isinstance(v, VStr) and esort == z3.IntSort():
    from mmverif.engine import frame_ledger
    return frame_ledger.colcode(v.s)     # constant names: injective codes
  if isinstance(v, (VInt, VBool)) and esort == KeySort:
    return z3.Function('key_int', z3.IntSort(), KeySort)(num_term(v))
  if isinstance(v, VOpaque) and v.t.sort() == esort:
    return v.t
  if isinstance(v, VSet) and v.t.sort() == esort:
    return v.t
  if isinstance(v, VReal) and esort == z3.RealSort():
    return v.t
  raise EngineError('value %r is not an element of sort %s' % (v, esort))


def term_value(t, esort):
  if esort == z3.IntSort():
    return VInt(t)
  if esort == z3.RealSort():
    return VReal(t)
  if esort == z3.BoolSort():
    return VBool(t)
  if esort.kind() == z3.Z3_ARRAY_SORT and esort.range() == z3.BoolSort():
    return VSet(t, esort.domain())
  return VOpaque(t, esort.name())


def set_from_items(items):
  first = items[0]
  if isinstance(first, (VInt, VBool, VStr)):
    es = z3.IntSort()
  elif isinstance(first, VOpaque):
    es = first.t.sort()
  elif isinstance(first, VSet):
    es = first.t.sort()
  else:
    raise EngineError('set of %s' % first.kind)
  t = z3.EmptySet(es)
  for it in items:
    t = z3.SetAdd(t, elem_term(it, es))
  return VSet(t, es)


def make_concrete_list(ctx, items):
  """A list literal: kept as a tuple-like value with known length."""
  return VTuple(items, tname='list')


def dict_from_items(ex, keys, vals, node):
  if not keys:
    raise EngineError('empty dict literal needs a declared local shape')
  k0, v0 = keys[0], vals[0]
  ks = z3.IntSort() if isinstance(k0, (VInt, VBool)) else k0.t.sort()
  vshape = shape_of(v0)
  vs = value_sort(vshape)
  dom = z3.EmptySet(ks)
  arr = z3.Const(ex.ctx.sym('dict0'), z3.ArraySort(ks, vs))
  for k, v in zip(keys, vals):
    kt = elem_term(k, ks)
    dom = z3.SetAdd(dom, kt)
    arr = z3.Store(arr, kt, encode(v))
  return VDict(dom, arr, ks, vshape)


def tuple_order(op, a, b):
  """Lexicographic comparison of equal-length numeric tuples."""
  from mmverif.engine.values import _coerce
  n = min(len(a.items), len(b.items))
  strict = isinstance(op, (ast.Lt, ast.Gt))
  less = isinstance(op, (ast.Lt, ast.LtE))
  if len(a.items) != len(b.items):
    raise EngineError('ordering of tuples of different arity')
  res = z3.BoolVal(not strict)
  for i in range(n - 1, -1, -1):
    x, y = num_term(a.items[i]), num_term(b.items[i])
    lt = _coerce(x, y, (lambda p, q: p < q) if less else (lambda p, q: p > q))
    eq = _coerce(x, y, lambda p, q: p == q)
    res = z3.Or(lt, z3.And(eq, res))
  return res
