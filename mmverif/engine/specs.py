"""Contract objects of the sidecar specifications.

A sidecar (mmverif/contracts/*.py) builds a ModuleSpec for one repository
module: shapes of class fields, contracts of functions (requires / ensures /
raises / modifies / loop invariants) and the few names that are inlined.
Clauses are Python callables over an environment namespace `s`; they are
evaluated on symbolic values to produce z3 terms (and can be evaluated on
concrete values by the run-time monitors, specops being polymorphic).
"""


class Clause:

  def __init__(self, label, fn, props=()):
    self.label = label
    self.fn = fn
    self.props = tuple(props)


def clauses(items, default_props=()):
  """[(label, fn)] or [(label, fn, props)] -> [Clause]."""
  out = []
  for it in items or []:
    if isinstance(it, Clause):
      out.append(it)
    elif len(it) == 2:
      out.append(Clause(it[0], it[1], default_props))
    else:
      out.append(Clause(it[0], it[1], it[2]))
  return out


class LoopSpec:
  """Invariant of one loop, addressed by (target text, iterable text) or
  ('while', test text); ordinal is the tie breaker."""

  def __init__(self, key, invariants, modifies=None, variant=None,
               props=(), ordinal=None, ghost=None, extra_modifies=None,
               variant_lemmas=None, export_visited=None, must_call=None,
               must_iterate=None, no_break=False, props_flow=('C03',)):
    self.key = key
    # completeness of an enumeration: on every path through the body that
    # does not `continue`, the named call is made / the named inner loop is
    # entered; and the loop is never left early
    self.must_call = must_call
    self.must_iterate = must_iterate
    self.no_break = no_break
    self.props_flow = tuple(props_flow)
    # name under which the ghost set of visited elements is visible to the
    # invariants of loops nested in this one
    self.export_visited = export_visited
    # variant: ns -> tuple of integer terms (most significant first), taken
    # at the loop head after the test and again at the back edge.
    # variant_lemmas: (ns at back edge, v0, v1) -> [(text, hypothesis)]:
    # instances of stated mathematical lemmas the decrease may use; they are
    # listed as assumptions in the evidence.
    self.variant_lemmas = variant_lemmas
    self.invariants = clauses(invariants, props)
    self.modifies = modifies
    self.variant = variant
    self.ordinal = ordinal
    self.ghost = ghost or {}
    self.extra_modifies = extra_modifies or []


class Contract:

  def __init__(self, qualname, params=None, result=None, requires=None,
               ensures=None, raises=None, raises_only=None, modifies=None,
               loops=None, yields=None, props=(), ghost_params=None,
               inline=False, captured=None, pure=False, kind='function',
               on_raise=None, gen_post=None, setup=None, hints=None,
               locals_shapes=None, memo=False, reads=None, at_calls=None,
               binds=None, fn_qualname=None, const_args=None, impl=None,
               returns=None, define_fresh=None, assumed=None,
               at_continue=None):
    self.qualname = qualname
    self.params = params or {}            # name -> Shape (self excluded)
    self.result = result                  # Shape of the result (call side)
    self.props = tuple(props)
    self.requires = clauses(requires, props)
    self.ensures = clauses(ensures, props)
    # raises: {ExcName: Clause-like (label, fn over pre-state)} = "may raise
    # ExcName only when fn holds"; an exception class that is not listed must
    # not escape at all.
    self.raises = {k: clauses([v], props)[0] for k, v in (raises or {}).items()}
    self.raises_only = raises_only
    self.modifies = modifies or []        # ['self._x', 'data.geo_index', ...]
    self.loops = loops or []
    self.yields = clauses(yields, props)  # per yielded element (generators)
    self.gen_post = clauses(gen_post, props)   # about the whole ghost sequence
    self.captured = captured or {}        # closures: captured name -> Shape
    self.pure = pure
    self.kind = kind
    self.on_raise = clauses(on_raise, props)   # state facts when raising
    self.setup = setup                    # fn(ctx, env) run before the body
    self.hints = hints or {}
    self.locals_shapes = locals_shapes or {}
    # memo: the function is a deterministic function of the state it reads
    # (no randomness, no dependence on unspecified iteration order); as long
    # as none of the fields in `reads` changed, a repeated call returns the
    # same value and re-installs the same post-state.
    self.memo = memo
    self.reads = reads
    # obligations attached to call sites inside this function:
    # {call text, e.g. 'results.push': [clauses over the locals + s.args]}
    self.at_calls = {k: clauses(v, props) for k, v in (at_calls or {}).items()}
    # binds: {'self.field': fn(s) -> value}: after the call the field holds
    # exactly that value (used for object references, which cannot be equated
    # by a formula); proved on the callee side like a postcondition.
    self.binds = binds or {}
    # variants: the same function verified under constant arguments
    self.fn_qualname = fn_qualname or qualname
    self.const_args = const_args or {}
    # impl: trusted direct implementation of a call (library-like helper)
    self.impl = impl
    # innermost loop target text -> clauses that must hold at every
    # `continue` of that loop ("every omission is a documented one")
    self.at_continue = {k: clauses(v, props) for k, v in (
        at_continue or {}).items()}
    # text: this contract is used at call sites but its body is NOT verified
    self.assumed = assumed
    # returns: fn(s) -> the value the call returns (a spec-function term);
    # on the callee side it is an obligation `result == returns`
    self.returns = returns
    # define_fresh: fn(ctx, values) that turns the symbolic entry state into
    # the FRESH state; the spec function `returns` is then *defined* as the
    # value the body computes from that state (definition by cases over the
    # paths of the fresh run), see driver.fresh_definition
    self.define_fresh = define_fresh


class ClassSpec:

  def __init__(self, name, fields=None, invariant=None, ghost=None,
               bases=None):
    self.name = name
    self.fields = fields or {}            # field -> Shape
    self.invariant = clauses(invariant)
    self.ghost = ghost or {}
    self.bases = bases or []


class ModuleSpec:

  def __init__(self, relpath, float_mode='R', safety_props=('C09',)):
    self.relpath = relpath
    self.float_mode = float_mode
    self.safety_props = tuple(safety_props)   # tags of crash-freedom obligations
    self.classes = {}
    self.contracts = {}
    self.inline = set()        # qualnames that are inlined at call sites
    self.axioms = []           # (label, fn(ctx) -> z3 Bool) trusted facts
    self.variants = {}         # fn qualname -> [Contract with const_args]

  def cls(self, name, **kw):
    c = ClassSpec(name, **kw)
    self.classes[name] = c
    return c

  def contract(self, qualname, **kw):
    c = Contract(qualname, **kw)
    self.contracts[qualname] = c
    if c.const_args:
      self.variants.setdefault(c.fn_qualname, []).append(c)
    return c


REGISTRY = {}     # module short name -> ModuleSpec


def register(spec):
  import os
  REGISTRY[os.path.splitext(os.path.basename(spec.relpath))[0]] = spec
  return spec
