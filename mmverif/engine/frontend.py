"""Locate and parse the real source under $MMVERIF_REPO on every run."""
import ast
import os

from mmverif import common


class ModuleSource:
  """AST of one repository module plus lookup tables."""

  def __init__(self, relpath):
    self.relpath = relpath
    self.path = common.repo_file(relpath)
    with open(self.path) as f:
      self.text = f.read()
    self.sha256 = common.sha256_file(self.path)
    self.tree = ast.parse(self.text, filename=self.path)
    self.name = os.path.splitext(os.path.basename(relpath))[0]
    self.classes = {}
    self.functions = {}
    self.assigns = {}      # module-level name -> value expr
    self.imports = {}      # local name -> dotted module / object path
    for node in self.tree.body:
      if isinstance(node, ast.ClassDef):
        self.classes[node.name] = ClassSource(self, node)
      elif isinstance(node, ast.FunctionDef):
        self.functions[node.name] = node
      elif isinstance(node, ast.Assign) and len(node.targets) == 1 and isinstance(
          node.targets[0], ast.Name):
        self.assigns[node.targets[0].id] = node.value
      elif isinstance(node, ast.Import):
        for a in node.names:
          self.imports[a.asname or a.name.split('.')[0]] = (
              a.name if a.asname else a.name.split('.')[0])
      elif isinstance(node, ast.ImportFrom):
        for a in node.names:
          self.imports[a.asname or a.name] = '%s.%s' % (node.module, a.name)

  def find(self, qualname):
    """Return (FunctionDef, ClassSource|None, kind) for 'f' or 'C.m' or
    'C.m.setter' / nested 'C.m.<inner>'."""
    parts = qualname.split('.')
    if parts[0] in self.classes:
      cls = self.classes[parts[0]]
      if len(parts) == 2:
        return cls.methods[parts[1]], cls
      if len(parts) == 3 and parts[2] == 'setter':
        return cls.setters[parts[1]], cls
      if len(parts) == 3:
        outer = cls.methods[parts[1]]
        for n in ast.walk(outer):
          if isinstance(n, ast.FunctionDef) and n.name == parts[2] and n is not outer:
            return n, cls
      raise KeyError(qualname)
    if len(parts) == 1:
      return self.functions[parts[0]], None
    raise KeyError(qualname)


class ClassSource:

  def __init__(self, module, node):
    self.module = module
    self.node = node
    self.name = node.name
    self.methods = {}        # plain methods and property getters
    self.setters = {}
    self.properties = set()
    self.static = set()
    self.cached = set()      # functools.lru_cache
    self.defaults = {}       # class-level assignments  name -> expr
    self.annotations = {}    # dataclass fields  name -> annotation expr
    self.field_order = []
    self.is_dataclass = any(
        'dataclass' in ast.dump(d) for d in node.decorator_list)
    self.bases = [ast.unparse(b) for b in node.bases]
    for item in node.body:
      if isinstance(item, ast.FunctionDef):
        decos = [ast.unparse(d) for d in item.decorator_list]
        if any(d.endswith('.setter') for d in decos):
          self.setters[item.name] = item
          continue
        self.methods[item.name] = item
        if 'property' in decos:
          self.properties.add(item.name)
        if 'staticmethod' in decos:
          self.static.add(item.name)
        if any('lru_cache' in d for d in decos):
          self.cached.add(item.name)
      elif isinstance(item, ast.Assign) and len(item.targets) == 1 and isinstance(
          item.targets[0], ast.Name):
        self.defaults[item.targets[0].id] = item.value
      elif isinstance(item, ast.AnnAssign) and isinstance(item.target, ast.Name):
        self.annotations[item.target.id] = item.annotation
        self.field_order.append(item.target.id)
        if item.value is not None:
          self.defaults[item.target.id] = item.value


_CACHE = {}


def load(relpath):
  key = (common.REPO, relpath)
  if key not in _CACHE:
    _CACHE[key] = ModuleSource(relpath)
  return _CACHE[key]


def strip_docstring(body):
  if body and isinstance(body[0], ast.Expr) and isinstance(
      getattr(body[0], 'value', None), ast.Constant) and isinstance(
          body[0].value.value, str):
    return body[1:]
  return body
