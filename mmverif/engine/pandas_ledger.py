"""TRUSTED table algebra for the few pandas / NumPy idioms used by the
contract-covered code (a table is a finite sequence of rows, a Series a finite
map).  Values defined here implement a small duck-typed protocol
(py_getattr / py_getitem / py_compare / py_toset / py_tolist / py_call).
"""
import z3

from mmverif.engine import cardlemmas
from mmverif.engine.lib import ASSUMPTIONS, uf
from mmverif.engine.symexec import PathEnd, elem_term
from mmverif.engine.values import *  # pylint: disable=wildcard-import

I = z3.IntSort()

ASSUMPTIONS.extend([
    'pandas: Series/DataFrame.loc[list] selects the rows in list order and '
    'raises KeyError for labels that are absent; the key must not be a set',
    'pandas: s.index[s > c] / df.index[df[col] == v] are the labels whose '
    'value satisfies the predicate; set() of it is that set of labels',
    'pandas: reset_index() replaces the labels by positions 0..n-1',
    'pandas: sort_values(ascending=False) is a permutation of the labels in '
    'non-increasing value order (tie order unspecified)',
    'numpy: arr[list(S)].sum(axis=0) is the sum of the rows with index in S; '
    'it is a function of the set S only (addition is commutative; rounding is '
    'ignored, floats are reals)',
])


def fresh_seq(ctx, name, dupfree=True):
  return TSeq(I, dupfree=dupfree).fresh(ctx, name)


# ---------------------------------------------------------------------------
# eligibility tables (GeoEligibility.data): labels + three 0/1 columns


class VEligTable(V):
  """Validated eligibility table: label sequence + per-column flag sets."""
  kind = 'eligtable'

  def __init__(self, rows, cols, labels=None, by_pos=False):
    self.rows = rows          # z3 set of geo IDs in the table
    self.cols = cols          # {'control': set, 'treatment': set, 'exclude': set}
    self.labels = labels      # VSeq of IDs when a .loc[list] selection
    self.by_pos = by_pos      # labels replaced by positions (reset_index)

  def flatten(self):
    return [self.rows] + [self.cols[k] for k in sorted(self.cols)]

  def py_getattr(self, ex, name, node):
    if name == 'loc':
      return VLoc(self)
    if name == 'reset_index':
      return VBound(lambda ex_, a, k, n: VEligTable(self.rows, self.cols,
                                                    self.labels, True))
    if name == 'index':
      return VIndexOf(self)
    ex.unsupported(node, 'eligibility table attribute %s' % name)

  def py_getitem(self, ex, idx, node):
    if isinstance(idx, VStr) and idx.s in self.cols:
      return VColumn(self, idx.s)
    ex.unsupported(node, 'eligibility table column')


class TEligTable(Shape):

  def fresh(self, ctx, name):
    rows = z3.Const(ctx.sym(name + '.rows'), z3.SetSort(I))
    cols = {c: z3.Const(ctx.sym('%s.%s' % (name, c)), z3.SetSort(I))
            for c in ('control', 'treatment', 'exclude')}
    # class invariant of a validated GeoEligibility: flags are 0/1, no zero
    # row, labels unique.
    u = z3.SetUnion(z3.SetUnion(cols['control'], cols['treatment']),
                    cols['exclude'])
    ctx.assume(u == rows)
    return VEligTable(rows, cols)


class VBound(V):
  kind = 'boundfn'

  def __init__(self, fn):
    self.fn = fn

  def py_call(self, ex, args, kwargs, node):
    return self.fn(ex, args, kwargs, node)


class VLoc(V):
  kind = 'loc'

  def __init__(self, table):
    self.table = table

  def py_getitem(self, ex, idx, node):
    t = self.table
    if isinstance(idx, VSet):
      ex.safety(z3.BoolVal(False), 'TypeError', node,
                '.loc with a set indexer')
      raise PathEnd('loc[set]')
    if isinstance(idx, VTuple) and idx.tname == 'list':
      if not idx.items:
        idx = VSeq(z3.IntVal(0), lambda i: z3.IntVal(0), I,
                   z3.EmptySet(I), True)
      else:
        ex.unsupported(node, '.loc with a literal list')
    if isinstance(idx, VOpt):
      idx = ex.need_not_none(idx, node, '.loc key')
    if not isinstance(idx, VSeq):
      ex.unsupported(node, '.loc[%s]' % idx.kind)
    if idx.elems is None:
      ex.unsupported(node, '.loc with an untracked list')
    ex.safety(z3.IsSubset(idx.elems, t.rows), 'KeyError', node,
              '.loc label not in the table')
    if isinstance(t, VEligTable):
      return VEligTable(t.rows, t.cols, idx, False)
    if isinstance(t, VSeries):
      return t.select(ex, idx)
    if isinstance(t, VPanel):
      return t.select(ex, idx)
    ex.unsupported(node, '.loc on %s' % t.kind)


class VColumn(V):
  kind = 'column'

  def __init__(self, table, col):
    self.table = table
    self.col = col

  def py_compare(self, ex, op, other, node):
    import ast
    if isinstance(op, ast.Eq) and isinstance(other, VInt) and z3.is_int_value(
        other.t) and other.t.as_long() == 1:
      return VMask(self.table, lambda g: z3.IsMember(g, self.table.cols[
          self.col]))
    ex.unsupported(node, 'comparison on an eligibility column')


class VMask(V):
  kind = 'mask'

  def __init__(self, table, pred):
    self.table = table
    self.pred = pred        # z3 term (label) -> Bool


class VIndexOf(V):
  kind = 'index'

  def __init__(self, table):
    self.table = table

  def py_getitem(self, ex, idx, node):
    if isinstance(idx, VMask) and idx.table is self.table:
      return VIndexSel(self.table, idx.pred)
    if isinstance(idx, (VInt, VBool)) and hasattr(self.table, 'labels') and (
        self.table.labels is not None):
      lab = self.table.labels
      i = num_term(idx)
      ex.safety(z3.And(i >= -lab.length, i < lab.length), 'IndexError', node,
                'index position')
      out = VInt(lab.at(z3.If(i < 0, i + lab.length, i)))
      if z3.is_const(i):
        out.image_of = lab
      return out
    ex.unsupported(node, 'index[...]')

  def py_tolist(self, ex, node):
    t = self.table
    if isinstance(t, VSeries):
      s = t.labels
      return VSeq(s.length, s.at, s.esort, s.elems, s.dupfree, sid=s.sid)
    if isinstance(t, VEligTable):
      # the row labels of a validated table in table order: no duplicates
      if t.labels is not None and not t.by_pos:
        s = t.labels
        return VSeq(s.length, s.at, s.esort, s.elems, s.dupfree, sid=s.sid)
      if t.labels is None:
        out = fresh_seq(ex.ctx, 'tbl.index')
        ex.ctx.assume(out.elems == t.rows)
        return out
    ex.unsupported(node, 'list(index) of %s' % t.kind)

  def py_toset(self, ex, node):
    t = self.table
    if isinstance(t, VSeries):
      return VSet(t.labels.elems, I)
    if isinstance(t, VEligTable) and t.labels is None:
      return VSet(t.rows, I)
    ex.unsupported(node, 'set(index) of %s' % t.kind)

  def py_iter(self, ex, node):
    return self.py_tolist(ex, node)


class VIndexSel(V):
  kind = 'indexsel'

  def __init__(self, table, pred):
    self.table = table
    self.pred = pred

  def py_toset(self, ex, node):
    t = self.table
    ctx = ex.ctx
    g = z3.Int(ctx.sym('g'))
    if isinstance(t, VEligTable):
      if t.labels is None:
        return VSet(z3.Lambda([g], z3.And(z3.IsMember(g, t.rows),
                                          self.pred(g))), I)
      if not t.by_pos:
        return VSet(z3.Lambda([g], z3.And(z3.IsMember(g, t.labels.elems),
                                          self.pred(g))), I)
      lab = t.labels
      return VSet(z3.Lambda([g], z3.And(g >= 0, g < lab.length,
                                        self.pred(lab.at(g)))), I)
    if isinstance(t, VSeries):
      return VSet(z3.Lambda([g], z3.And(z3.IsMember(g, t.labels.elems),
                                        self.pred(g))), I)
    ex.unsupported(node, 'set(index[mask]) of %s' % t.kind)


# ---------------------------------------------------------------------------
# Series indexed by geo ID with real values


class VSeries(V):
  kind = 'series'

  def __init__(self, labels, val):
    self.labels = labels      # VSeq of IDs, duplicate free
    self.val = val            # z3 function ID -> Real
    self.rows = labels.elems

  def flatten(self):
    return [self.labels.length, self.labels.elems]

  def py_getattr(self, ex, name, node):
    if name == 'index':
      return VIndexOf(self)
    if name == 'loc':
      return VLoc(self)
    if name == 'sort_values':
      return VBound(self._sort_values)
    ex.unsupported(node, 'Series attribute %s' % name)

  def _sort_values(self, ex, args, kwargs, node):
    ctx = ex.ctx
    asc = kwargs.get('ascending', VBool(True))
    if not (isinstance(asc, VBool) and z3.is_false(z3.simplify(asc.t))):
      ex.unsupported(node, 'sort_values(ascending=True)')
    out = fresh_seq(ctx, 'sorted')
    ctx.assume(out.elems == self.labels.elems)
    ctx.assume(out.length == self.labels.length)
    i, j = z3.Int(ctx.sym('i')), z3.Int(ctx.sym('j'))
    ctx.assume(z3.ForAll([i, j], z3.Implies(
        z3.And(i >= 0, i < j, j < out.length),
        self.val(out.at(i)) >= self.val(out.at(j)))))
    return VSeries(out, self.val)

  def py_compare(self, ex, op, other, node):
    import ast
    c = num_term(ex.need_not_none(other, node, 'compared value'))
    if c.sort() == I:
      c = z3.ToReal(c)
    f = {ast.Gt: lambda v: v > c, ast.GtE: lambda v: v >= c,
         ast.Lt: lambda v: v < c, ast.LtE: lambda v: v <= c}.get(type(op))
    if f is None:
      ex.unsupported(node, 'Series comparison')
    return VMask(self, lambda g: f(self.val(g)))

  def select(self, ex, idx):
    return VSeries(idx, self.val)

  def py_getitem(self, ex, idx, node):
    if isinstance(idx, VSeq):
      ex.safety(z3.IsSubset(idx.elems, self.labels.elems), 'KeyError', node,
                'Series label')
      return VSeries(idx, self.val)
    ex.unsupported(node, 'Series[%s]' % idx.kind)


class TSeries(Shape):

  def __init__(self, valname=None):
    self.valname = valname

  def fresh(self, ctx, name):
    labels = fresh_seq(ctx, name + '.labels')
    val = z3.Function(self.valname or ctx.sym(name + '.val'), I,
                      z3.RealSort())
    return VSeries(labels, val)


# ---------------------------------------------------------------------------
# geo x date panel (TBRMMData.df): only row selection by label is interpreted


class VPanel(V):
  kind = 'panel'

  def __init__(self, labels, tag):
    self.labels = labels
    self.rows = labels.elems
    self.tag = tag            # z3 term identifying the underlying data

  def flatten(self):
    return [self.tag, self.labels.length, self.labels.elems]

  def py_getattr(self, ex, name, node):
    if name == 'loc':
      return VLoc(self)
    if name == 'index':
      return VIndexOf(self)
    if name == 'to_numpy':
      return VBound(lambda ex_, a, k, n: VRowArray(self.labels, self.tag))
    if name == 'iloc':
      return VPanelILoc(self)
    if name == 'apply':
      return VBound(self._apply)
    ex.unsupported(node, 'panel attribute %s' % name)

  def _apply(self, ex, args, kwargs, node):
    """df.apply(f, axis=1): a Series over the same row labels whose values
    are a function of the panel data and the label (f is not interpreted)."""
    ax = kwargs.get('axis')
    if not (isinstance(ax, VInt) and z3.is_int_value(ax.t) and
            ax.t.as_long() == 1 and len(args) == 1):
      ex.unsupported(node, 'apply arguments')
    tag = self.tag
    f = z3.Function('ROWAPPLY', tag.sort(), I, z3.RealSort())
    return VSeries(self.labels, lambda g: f(tag, g))

  def select(self, ex, idx):
    return VPanel(idx, self.tag)


class VPanelILoc(V):
  """df.iloc[:, -n:]: the same rows, the last n columns."""
  kind = 'paneliloc'

  def __init__(self, panel):
    self.panel = panel

  def py_getitem_ast(self, ex, sl, env, node):
    import ast
    ok = (isinstance(sl, ast.Tuple) and len(sl.elts) == 2 and
          all(isinstance(e, ast.Slice) for e in sl.elts) and
          sl.elts[0].lower is None and sl.elts[0].upper is None and
          sl.elts[0].step is None and sl.elts[1].upper is None and
          sl.elts[1].step is None and sl.elts[1].lower is not None)
    if not ok:
      ex.unsupported(node, 'iloc pattern')
    lo = ex.eval(sl.elts[1].lower, env)
    lo = num_term(ex.need_not_none(lo, node, 'slice bound'))
    p = self.panel
    trunc = z3.Function('LASTCOLS', p.tag.sort(), I, p.tag.sort())
    return VPanel(p.labels, trunc(p.tag, lo))


class TPanel(Shape):

  def fresh(self, ctx, name):
    labels = fresh_seq(ctx, name + '.labels')
    return VPanel(labels, z3.Const(ctx.sym(name + '.data'), sort_named('PanelData')))


def _fancy(ex, arr, idx, node):
  """arr[list_of_positions]: positions must be valid (IndexError)."""
  if isinstance(idx, VSeq) and idx.elems is not None:
    sset = idx.elems
  elif isinstance(idx, VSet):
    sset = idx.t
  else:
    ex.unsupported(node, 'fancy index %s' % idx.kind)
  n = arr.labels.length
  q = z3.Int(ex.ctx.sym('q'))
  ex.safety(z3.ForAll([q], z3.Implies(z3.IsMember(q, sset),
                                      z3.And(q >= -n, q < n))),
            'IndexError', node, 'array row index out of range')
  return sset


class VRowArray(V):
  """2-d array whose i-th row is the series of geo labels[i]."""
  kind = 'rowarray'

  def __init__(self, labels, tag):
    self.labels = labels
    self.tag = tag

  def flatten(self):
    return [self.tag, self.labels.length]

  def py_getitem(self, ex, idx, node):
    sset = _fancy(ex, self, idx, node)
    arr = self

    def _sum(ex_, a, k, n):
      return VOpaque(uf('AGG', [arr.tag, arr.labels.sid, sset],
                        sort_named('Arr')), 'Arr')

    return VAttrs({'sum': VBound(_sum)})


class VAttrs(V):
  kind = 'attrs'

  def __init__(self, attrs):
    self.attrs = attrs

  def py_getattr(self, ex, name, node):
    if name in self.attrs:
      return self.attrs[name]
    ex.unsupported(node, 'attribute %s' % name)


class VShareArray(V):
  """1-d array whose i-th entry is the share of geo labels[i]."""
  kind = 'sharearray'

  def __init__(self, labels):
    self.labels = labels

  def flatten(self):
    return [self.labels.length]

  def py_getitem(self, ex, idx, node):
    sset = _fancy(ex, self, idx, node)
    arr = self

    def _sum(ex_, a, k, n):
      return VReal(uf('SH', [arr.labels.sid, sset], z3.RealSort()), np=True)

    return VAttrs({'sum': VBound(_sum)})


def _np_array(ex, args, kwargs, node):
  v = args[0]
  if isinstance(v, VSeries):
    return VShareArray(v.labels)
  if isinstance(v, VOpaque):
    return VOpaque(uf('np_array_' + v.okind, [v], sort_named('Arr')), 'Arr')
  ex.unsupported(node, 'numpy.array of %s' % v.kind)


# numpy.array is registered by numeric_ledger (handles Series and arrays)
ASSUMPTIONS.append('numpy.array(series[labels]) keeps the values in label '
                   'order')
