"""python -m mmverif.replay <replay file>: replays one reported violation
against the CURRENT tree ($MMVERIF_REPO, default /repo).

  * run-time contract with a search-case spec (C01-C04, C09-C11, C13): the
    failing input is evaluated again by the same contract on the real code;
  * failed obligation: the function is re-verified and the obligation's
    verdict on this tree is printed (with the failing input the bounded
    contract supplied, if any, replayed as above);
  * anything else: the file is shown (input, traceback, solver output).

Exit 1 if the violation reproduces, 0 if it does not, 2 if it cannot be
replayed mechanically."""
import importlib
import json
import sys

from mmverif import common


def replay_search_case(pid, inp):
  if not (isinstance(inp, dict) and isinstance(inp.get('spec'), dict) and
          'panel' in inp['spec']):
    return None
  try:
    m = importlib.import_module('mmverif.monitors.' + pid.lower())
  except ImportError:
    return None
  if not hasattr(m, '_worker'):
    return None
  from mmverif.monitors import searchlib
  searchlib.setup_path()
  out = m._worker(inp['spec'])
  viol = [(w, r) for w, _, r in out.get('viol', ())]
  return viol


def main(argv):
  path = argv[0]
  with open(path) as f:
    d = json.load(f)
  pid = d.get('property', '?')
  print('replay of %s on %s' % (path, common.REPO))
  status = 2
  inp = d.get('failing_input')
  if isinstance(inp, dict) and 'input' in inp and 'what' in inp:
    inp = inp['input']           # obligation file carrying a monitor input
  if d.get('failed_obligation'):
    from mmverif import prove
    func = d['function']
    label = d['label']
    mod = None
    for short in prove.SIDECARS:
      side = prove.load_sidecar(short)
      quals = []
      for attr in ('FUNCTIONS', 'SCORE_FUNCTIONS', 'DESIGN_FUNCTIONS',
                   'CC_FUNCTIONS', 'IROAS_FUNCTIONS'):
        quals += list(getattr(side, attr, []) or [])
      from mmverif.engine.symexec import WORLD
      try:
        src = WORLD.source(short)
      except Exception:  # pylint: disable=broad-except
        continue
      if func in quals and (func.split('.')[0] in src.classes or
                            func in src.functions):
        mod = short
        break
    if mod is not None:
      res = prove.prove([(mod, [func], False)], timeout_ms=40000)
      hits = [(o, r) for o, r in res.obligations if o.label == label]
      bad = [(o, r) for o, r in hits if r['verdict'] != 'discharged']
      print('obligation "%s" of %s.%s: %d instance(s), %d not discharged' %
            (label, mod, func, len(hits), len(bad)))
      for o, r in bad[:5]:
        print('  %s  %s' % (r['verdict'], o.name))
      status = 1 if bad else 0
  viol = replay_search_case(pid, inp) if inp is not None else None
  if viol is not None:
    print('run-time contract on the recorded input: %d violation(s)' %
          len(viol))
    for w, r in viol[:8]:
      print('  %s%s' % (w, ' (known region %s)' % r if r else ''))
    if any(r is None for _, r in viol):
      status = 1
    elif status == 2:
      status = 0
  if status == 2:
    print(json.dumps(d, indent=1)[:6000])
    print('(no mechanical replay for this record: the input / traceback / '
          'solver output above is what the check saw)')
  return status


if __name__ == '__main__':
  sys.path.insert(0, common.REPO)
  sys.exit(main(sys.argv[1:]))
