"""C02 run-time contract: returned designs satisfy all numeric constraints."""
from mmverif.monitors import searchlib as sl
from mmverif.props import base

CONSTRAINTS = ('treatment_geos_range', 'control_geos_range',
               'geo_ratio_tolerance', 'volume_ratio_tolerance',
               'treatment_share_range', 'budget_range')


def _worker(spec):
  case = sl.Case(spec)
  orc = case.oracle()
  out = {'cases': [], 'viol': [], 'notes': [], 'stats': {}}
  n_constraints = sum(case.kwargs.get(c) is not None for c in CONSTRAINTS)
  for which in ('exhaustive', 'greedy'):
    designs, err, stage = sl.run_search(case, which)
    if err is not None:
      out['notes'].append('%s %s raised %s (case counted as trivial)' % (
          which, stage, type(err).__name__))
      designs = []
    out['cases'].append((
        sl.key_of(spec, which), bool(designs) and n_constraints > 0,
        {'search': which, 'n_designs_returned': len(designs),
         'constraints': n_constraints, 'spec': spec}))
    seen = set()
    for pos, d in enumerate(designs):
      t_set, c_set = sl.design_sets(d)
      if (not t_set or not c_set or t_set & c_set or
          (t_set | c_set) - set(orc.geos)):
        out['notes'].append('illegal design skipped (C01 domain)')
        continue
      rec = orc.evaluate(t_set, c_set)
      for b in orc.on_bound(rec):
        k = 'designs-exactly-on-%s-bound' % b
        out['stats'][k] = out['stats'].get(k, 0) + 1
      for clause in orc.failed_constraints(rec, 'either', slack=1):
        if clause in seen:
          continue
        seen.add(clause)
        out['viol'].append((
            'C02/%s/%s' % (which, clause),
            case.describe(
                search=which, position=pos, treatment=sorted(t_set),
                control=sorted(c_set), n_treatment=rec.n_t,
                n_control=rec.n_c, volume_ratio=rec.volume_ratio,
                share_vs_all=rec.share_all,
                share_vs_admitted=rec.share_admitted, budget=rec.budget),
            None))
  return out


def run(tier, seed):
  import numpy as np
  quick = tier == 'quick'
  rng = np.random.default_rng([int(seed), 2])
  pars = sl.par_specs(rng, 200 if quick else 600, p_present=0.5)
  specs = sl.case_specs(seed, enum_geos=(2, 3, 4) if quick else (1, 2, 3, 4),
                        sample_geos=(5,) if quick else (5, 6),
                        n_sample=100 if quick else 300, pars=pars,
                        reps=1 if quick else 4, n_default=12, salt=2)
  # reuse family: the data object already served an unconstrained search
  # object; this one admits fewer geos (share range / n_geos_max / budget)
  # and constrains share and volume ratio, so stale per-index caches in the
  # data object show up as constraint violations of the returned designs
  rrng = np.random.default_rng([int(seed), 22])
  for n in ((4, 5) if quick else (4, 5, 6)):
    for panel in sl.panel_specs(n, rrng, 6 if quick else 12):
      for par in ({'treatment_share_range': [0.05, 0.3],
                   'volume_ratio_tolerance': 0.25},
                  {'n_geos_max': n - 1, 'volume_ratio_tolerance': 0.25,
                   'treatment_share_range': [0.1, 0.6]},
                  {'budget_mult': [0.0, 1.2], 'volume_ratio_tolerance': 0.5,
                   'treatment_share_range': [0.05, 0.5]}):
        specs.append({'panel': panel, 'elig': None, 'reuse': True,
                      'par': dict(par, n_test=7, iroas=1.0, n_designs=50)})
  res = base.MonitorResult(
      'C02: eligibility multisets over <=4 geos, seeded tables for 5%s geos '
      'and no-eligibility cases x seeded panels x parameter objects (every '
      'single setting of each of the six constraints alone, settings exactly '
      'on a size / geo-ratio bound, mutually unsatisfiable ones, then random '
      'subsets of the six constraints; budget ranges are multiples of the '
      'median per-geo required impact); both searches; each returned design '
      're-evaluated from the raw frame (share reading: all geos or admitted '
      'geos, either accepted). non-trivial = at least one constraint given '
      'and at least one design returned; one case in three (and a dedicated '
      'family admitting fewer geos under share / volume constraints) reuses a '
      'data object that already served an unconstrained search object; '
      'distinct = (case spec, search)' %
      ('' if quick else '-6'))
  res.bound = 'n_geos <= %d, %d cases x 2 searches' % (5 if quick else 6,
                                                       len(specs))
  return sl.sweep(res, _worker, specs)


if __name__ == '__main__':
  sl.main(run, 'c02')
