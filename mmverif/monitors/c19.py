"""C19 run-time contract monitor: TBRDiagnostics removes exactly what it reports.

Seeded experiment frames (planted noisy geos / outlier dates or none, default
or custom column names and group / period labels).  After fit():
  * get_data()          == input rows minus the rows of the reported noisy geos
                           and of the reported outlier dates (plain-Python
                           filter of a deep copy of the input records),
  * get_analysis_data() == per-date control / treatment totals of those rows
                           (dict accumulation), with the period column,
  * the caller's frame is unchanged,
  * a row-shuffled copy gives the same report and the same analysis data.
"""
import multiprocessing
import sys
import warnings

from mmverif import common
from mmverif.props import base

ID = 'C19'
MAX_VIOLATIONS = 5

NAMINGS = {
    # label -> (column names, kwargs, group labels, period labels)
    'default': dict(date='date', geo='geo', group='group', period='period',
                    response='response', control=1, treatment=2, unassigned=-1,
                    pre=0, test=1, cooldown=2),
    'custom-int': dict(date='dt', geo='market', group='grp', period='phase',
                       response='revenue', control=100, treatment=200,
                       unassigned=-7, pre=10, test=11, cooldown=12),
    'custom-str': dict(date='day', geo='region', group='arm', period='stage',
                       response='sales', control='ctl', treatment='trt',
                       unassigned='none', pre=0, test=1, cooldown=2),
}


def _init(repo):
  warnings.simplefilter('ignore')
  if repo in sys.path:
    sys.path.remove(repo)
  sys.path.insert(0, repo)


def _close(a, b):
  a, b = float(a), float(b)
  return a == b or abs(a - b) <= 1e-8 * max(abs(a), abs(b)) + 1e-9


def _make_frame(spec, seed):
  """Returns (DataFrame, naming dict, fit kwargs, description)."""
  import numpy as np
  import pandas as pd
  (n_geos, n_dates, noisy, outlier, naming, rep) = spec
  nm = NAMINGS[naming]
  rng = np.random.default_rng([seed, 19, n_geos, n_dates, noisy, outlier,
                               sorted(NAMINGS).index(naming), rep])
  id_kind = 'int' if (rep + n_geos) % 2 == 0 else 'str'
  date_kind = 'ts' if (rep + n_dates // 5) % 2 == 0 else 'iso'
  layout = ('date-major', 'geo-major', 'shuffled')[(rep + noisy) % 3]
  with_unassigned = n_geos >= 7 and rep % 2 == 1
  drop_rows = int(rng.integers(1, 4)) if rep % 3 == 2 else 0

  t = np.arange(n_dates)
  signal = (100.0 + 20.0 * np.sin(2 * np.pi * t / 7.0 + rng.uniform(0, 6)) +
            np.cumsum(rng.normal(0, 3.0, size=n_dates)))
  scale = rng.uniform(0.5, 3.0, size=n_geos)
  val = np.outer(scale, signal) * (1.0 + rng.normal(0, 0.02, size=(
      n_geos, n_dates)))
  # Groups: alternate control / treatment, optionally one unassigned geo.
  group = [nm['control'] if g % 2 == 0 else nm['treatment']
           for g in range(n_geos)]
  if with_unassigned:
    group[n_geos - 1] = nm['unassigned']
  # Planted noisy geos: keep >= 2 clean geos in each group.
  planted = []
  kinds = {0: [], 1: ['noise'], 2: ['constant'], 3: ['noise', 'constant']}[
      noisy]
  cand = [g for g in range(4, n_geos) if group[g] != nm['unassigned']]
  for kind in kinds:
    if not cand:
      break
    g = cand.pop(int(rng.integers(len(cand))))
    planted.append((g, kind))
    if kind == 'noise':
      val[g] = rng.normal(60.0, 8.0, size=n_dates)
    else:
      val[g] = 42.0
  # Twin geos: two clean geos of one group report identical values on every
  # date (tied cells: rows that differ in the geo column only).
  twins = None
  if rep % 3 == 1 and n_geos >= 6:
    free = [g for g in range(n_geos) if group[g] == nm['control'] and
            g not in {p for p, _ in planted}]
    if len(free) >= 2:
      twins = (free[0], free[1])
      val[free[1]] = val[free[0]]
  n_pre = int(round(n_dates * 0.65))
  n_cool = 2 if n_dates >= 30 else 0
  period = [nm['pre']] * n_pre + [nm['test']] * (n_dates - n_pre - n_cool) + [
      nm['cooldown']] * n_cool
  # Planted outlier dates: a spike on one date in one group.
  spikes = []
  plan = {0: [], 1: [('pre', 'treatment')], 2: [('test', 'control')],
          3: [('pre', 'control'), ('test', 'treatment')]}[outlier]
  planted_geos = {g for g, _ in planted}
  for where, grp in plan:
    lo, hi = (2, n_pre - 2) if where == 'pre' else (n_pre, n_dates - n_cool)
    d = int(rng.integers(lo, hi))
    factor = float(rng.uniform(1.3, 1.8))
    for g in range(n_geos):
      if group[g] == nm[grp] and g not in planted_geos:
        val[g, d] *= factor
    spikes.append((d, grp))
  ids = [(g + 1) * 3 for g in range(n_geos)] if id_kind == 'int' else [
      'geo_%02d' % ((g * 7) % 23) for g in range(n_geos)]
  day0 = pd.Timestamp('2019-12-%02d' % (10 + rep % 15))
  days = [day0 + pd.Timedelta(days=int(i)) for i in t]
  if date_kind == 'iso':
    days = [d.strftime('%Y-%m-%d') for d in days]
  recs = []
  for d in range(n_dates):
    for g in range(n_geos):
      recs.append((days[d], ids[g], period[d], group[g], float(val[g, d])))
  if layout == 'geo-major':
    recs.sort(key=lambda r: (str(r[1]), str(r[0])))
  elif layout == 'shuffled':
    recs = [recs[int(i)] for i in rng.permutation(len(recs))]
  for _ in range(drop_rows):
    # Remove single rows of clean geos (never a whole geo or date).
    i = int(rng.integers(len(recs)))
    if recs[i][1] not in [ids[g] for g in planted_geos]:
      recs.pop(i)
  cols = [nm['date'], nm['geo'], nm['period'], nm['group'], nm['response']]
  df = pd.DataFrame(recs, columns=cols)
  df['rowid'] = np.arange(len(df)) + 1000        # row identity, extra column
  if rep % 2 == 1:
    df = df[[nm['geo'], 'rowid', nm['response'], nm['date'], nm['group'],
             nm['period']]]
    if (rep // 2 + n_geos + noisy) % 2 == 0:
      df.index = pd.Index(np.arange(len(df))[::-1] * 2)   # non-default labels
    else:
      # row labels that repeat, as after pd.concat of per-group frames
      df.index = pd.Index(np.arange(len(df)) % max(2, n_dates))
  kwargs = {}
  if naming != 'default':
    kwargs = dict(key_date=nm['date'], key_geo=nm['geo'],
                  key_group=nm['group'], key_period=nm['period'],
                  key_response=nm['response'], group_control=nm['control'],
                  group_treatment=nm['treatment'],
                  group_unassigned=nm['unassigned'], period_pre=nm['pre'],
                  period_test=nm['test'], period_cooldown=nm['cooldown'])
  # target: None (falls back to key_response) or given explicitly.
  target = None if rep % 2 == 0 else nm['response']
  desc = {'generator': 'mmverif.monitors.c19._make_frame', 'spec': list(spec),
          'seed': seed, 'n_geos': n_geos, 'n_dates': n_dates,
          'geo_ids': id_kind, 'dates': date_kind, 'layout': layout,
          'naming': naming, 'target': target,
          'planted_noisy': [[ids[g], k] for g, k in planted],
          'planted_spikes': [[str(days[d]), grp] for d, grp in spikes],
          'unassigned_geo': with_unassigned, 'dropped_rows': drop_rows,
          'twin_geos': None if twins is None else [ids[twins[0]],
                                                   ids[twins[1]]],
          'row_labels': ('default' if rep % 2 == 0 else 'reversed-even'
                         if (rep // 2 + n_geos + noisy) % 2 == 0
                         else 'repeating'),
          'fit_kwargs': {k: v for k, v in kwargs.items()}}
  return df, nm, kwargs, target, desc


def _fit(tbrdiagnostics, df, target, kwargs):
  d = tbrdiagnostics.TBRDiagnostics()
  d.fit(df, target=target, **kwargs)
  return d


def _analysis_records(adata, nm):
  """(index name, columns, [(date, period, x, y)]) of an analysis frame."""
  cols = list(adata.columns)
  recs = []
  for date, row in zip(adata.index, adata.to_dict('records')):
    recs.append((date, row.get(nm['period']), row.get('x'), row.get('y')))
  return adata.index.name, cols, recs


def _case_task(task):
  import numpy as np
  from matched_markets.methodology import tbrdiagnostics
  spec, seed = task
  res = base.MonitorResult('')
  df, nm, kwargs, target, desc = _make_frame(spec, seed)
  backup = df.copy(deep=True)
  records = [tuple(r) for r in backup.itertuples(index=False, name=None)]
  columns = list(backup.columns)
  ci = {c: columns.index(c) for c in columns}

  def done(nontrivial, extra=None):
    d = dict(desc)
    d.update(extra or {})
    res.case(spec, nontrivial=nontrivial,
             sample=d if nontrivial and spec[0] == 5 else None)
    return res

  def viol(what, extra):
    d = dict(desc)
    d.update(extra)
    res.violation(what, d)

  try:
    diag = _fit(tbrdiagnostics, df, target, kwargs)
  except Exception as e:  # pylint: disable=broad-except
    viol('C19/fit-raises-on-valid-frame', {'exception': repr(e)[:300]})
    return done(False)
  results = diag.get_test_results()
  noisy = results.get('noisy_geos')
  noisy = [] if noisy is None else list(noisy)
  outl = results.get('outlier_dates')
  outl = [] if outl is None else list(outl)
  report = {'reported_noisy_geos': [str(g) for g in noisy],
            'reported_outlier_dates': [str(d) for d in outl]}
  nontrivial = bool(noisy) or bool(outl)
  res.notes.append((bool(noisy), bool(outl)))

  # (3) the caller's frame is unchanged.
  if not (df.equals(backup) and list(df.columns) == columns and
          list(df.index) == list(backup.index) and
          list(df.dtypes) == list(backup.dtypes)):
    viol('C19/caller-frame-unmodified', report)
    return done(nontrivial, report)

  # (1) screened data == input rows minus reported geos / dates.
  noisy_set, outl_set = set(noisy), set(outl)
  kept = [r for r in records
          if r[ci[nm['geo']]] not in noisy_set and
          r[ci[nm['date']]] not in outl_set]
  got = diag.get_data()
  got_recs = [tuple(r) for r in got.itertuples(index=False, name=None)]
  if list(got.columns) != columns:
    viol('C19/get_data/same-columns', dict(report, got_columns=[
        str(c) for c in got.columns]))
    return done(nontrivial, report)
  if got_recs != kept:
    got_ids = [r[ci['rowid']] for r in got_recs]
    kept_ids = [r[ci['rowid']] for r in kept]
    viol('C19/get_data=input-minus-reported-geos-and-dates', dict(
        report, n_got=len(got_recs), n_expected=len(kept),
        unexpected_rowids=sorted(set(got_ids) - set(kept_ids))[:10],
        missing_rowids=sorted(set(kept_ids) - set(got_ids))[:10],
        same_set_wrong_order=sorted(got_ids) == sorted(kept_ids)))
    return done(nontrivial, report)

  # (2) analysis data == per-date control / treatment totals of `kept`.
  tot = {}
  for r in kept:
    key = (r[ci[nm['date']]], r[ci[nm['period']]])
    e = tot.setdefault(key, {'x': None, 'y': None})
    grp = r[ci[nm['group']]]
    which = 'x' if grp == nm['control'] else (
        'y' if grp == nm['treatment'] else None)
    if which is not None:
      e[which] = (e[which] or 0.0) + r[ci[nm['response']]]
  want = sorted(((k[0], k[1], v['x'], v['y']) for k, v in tot.items()
                 if v['x'] is not None or v['y'] is not None),
                key=lambda z: (z[0], z[1]))
  adata = diag.get_analysis_data()
  name, acols, arecs = _analysis_records(adata, nm)

  def same_analysis(r1, r2):
    if len(r1) != len(r2):
      return False
    for p, q in zip(r1, r2):
      if p[0] != q[0] or p[1] != q[1]:
        return False
      for u, w in ((p[2], q[2]), (p[3], q[3])):
        u_nan = u is None or u != u
        w_nan = w is None or w != w
        if u_nan != w_nan or (not u_nan and not _close(u, w)):
          return False
    return True

  if name != nm['date'] or acols != [nm['period'], 'x', 'y']:
    viol('C19/analysis-data/layout', dict(report, index_name=str(name),
                                          columns=[str(c) for c in acols]))
    return done(nontrivial, report)
  if not same_analysis(arecs, want):
    bad = [str(p[0]) for p in arecs if p[0] in outl_set]
    viol('C19/analysis-data=totals-of-screened-data', dict(
        report, n_got=len(arecs), n_expected=len(want),
        reported_outlier_dates_still_present=bad[:10]))
    return done(nontrivial, report)

  # (4) row order independence.
  perm = np.random.default_rng([seed, 1919, spec[5], spec[0]]).permutation(
      len(df))
  shuffled = backup.iloc[perm].copy(deep=True)
  try:
    diag2 = _fit(tbrdiagnostics, shuffled, target, kwargs)
  except Exception as e:  # pylint: disable=broad-except
    viol('C19/row-order/fit-raises-on-shuffled-copy',
         dict(report, exception=repr(e)[:300]))
    return done(nontrivial, report)
  r2 = diag2.get_test_results()
  noisy2 = set(r2.get('noisy_geos') or [])
  outl2 = set(r2.get('outlier_dates') or [])
  if noisy2 != noisy_set or outl2 != outl_set:
    viol('C19/row-order/same-report', dict(
        report, shuffled_noisy=[str(g) for g in sorted(noisy2, key=str)],
        shuffled_outliers=[str(d) for d in sorted(outl2, key=str)]))
    return done(nontrivial, report)
  name2, acols2, arecs2 = _analysis_records(diag2.get_analysis_data(), nm)
  if name2 != name or acols2 != acols or not same_analysis(arecs2, arecs):
    viol('C19/row-order/same-analysis-data', report)
  return done(nontrivial, report)


def _specs(tier):
  if tier == 'quick':
    geos, dates, reps = (4, 5, 6, 8, 10), (20, 30, 40), (0, 1)
  else:
    geos, dates, reps = (4, 5, 6, 7, 8, 9, 10), (20, 25, 30, 35, 40), tuple(
        range(6))
  specs = []
  for n_geos in geos:
    for n_dates in dates:
      for noisy in (0, 1, 2, 3):
        for outlier in (0, 1, 2, 3):
          for ni, naming in enumerate(sorted(NAMINGS)):
            for rep in reps:
              if tier == 'quick' and (n_geos + n_dates // 10 + noisy +
                                      outlier + ni + rep) % 2:
                continue
              specs.append((n_geos, n_dates, noisy, outlier, naming, rep))
  return specs


def run(tier, seed):
  warnings.simplefilter('ignore')
  specs = _specs(tier)
  res = base.MonitorResult(
      'seeded balanced panels: %s geos x %s daily dates (Timestamp or ISO '
      'string; pre / test / cooldown periods), geo = scale * common signal * '
      '(1 + 2%% noise), alternating control / treatment (optionally one '
      'unassigned geo, 1-3 single rows removed, three row layouts, extra '
      'rowid column, non-default index); planted noisy geos {none, pure '
      'noise, constant, both} (>= 2 clean geos stay in each group); planted '
      'outlier dates {none, spike x1.3-1.8 on one pre date in treatment, one '
      'test date in control, both}; naming {default, custom names + int '
      'labels, custom names + string group labels} passed via key_* / group_* '
      '/ period_* kwargs, target None or explicit. Checks: get_data == '
      'plain-Python filter of the input records by the REPORTED noisy geos / '
      'outlier dates (same columns, same order); get_analysis_data == dict '
      'totals per (date, period) of control (x) / treatment (y); caller frame '
      'equal to its deep copy; a row-permuted copy gives the same report '
      '(as sets) and analysis data. Non-trivial = at least one noisy geo or '
      'outlier date was reported (something was removed); distinct = the '
      'generator spec' % (
          '{4,5,6,8,10}' if tier == 'quick' else '4..10',
          '{20,30,40}' if tier == 'quick' else '{20,25,30,35,40}'),
      exhaustive=False)
  res.bound = '%d generator specs, <= 10 geos, <= 40 dates' % len(specs)
  nproc = min(14, multiprocessing.cpu_count())
  ctx = multiprocessing.get_context('fork')
  with ctx.Pool(nproc, initializer=_init, initargs=(common.REPO,)) as pool:
    parts = pool.map(_case_task, [(s, seed) for s in specs], chunksize=4)
  n_noisy = n_outl = n_both = 0
  for part in parts:
    for has_noisy, has_outl in part.notes:
      n_noisy += has_noisy
      n_outl += has_outl
      n_both += has_noisy and has_outl
    res.evaluations += part.evaluations
    res.nontrivial |= part.nontrivial
    for smp in part.samples:
      if len(res.samples) < 5:
        res.samples.append(smp)
    res.violations.extend(part.violations)
  res.violations.sort(key=lambda v: (v['input']['n_geos'],
                                     v['input']['n_dates'],
                                     repr(v['input']['spec'])))
  res.violations = res.violations[:MAX_VIOLATIONS]
  res.notes.append('fits reporting noisy geos: %d, outlier dates: %d, both: %d '
                   'of %d' % (n_noisy, n_outl, n_both, len(specs)))
  return res


if __name__ == '__main__':
  import argparse
  import time
  ap = argparse.ArgumentParser()
  ap.add_argument('--tier', default='quick')
  ap.add_argument('--seed', type=int, default=0)
  a_ = ap.parse_args()
  _init(common.REPO)
  t0 = time.time()
  r = run(a_.tier, a_.seed)
  print('C19 tier=%s evaluations=%d distinct_nontrivial=%d violations=%d '
        'wall=%.1fs' % (a_.tier, r.evaluations, len(r.nontrivial),
                        len(r.violations), time.time() - t0))
  for n_ in r.notes:
    print('NOTE', n_)
  for v_ in r.violations[:5]:
    print('VIOLATION', v_['what'], v_['region'],
          str(common.jsonable(v_['input']))[:1200])
