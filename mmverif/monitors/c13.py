"""C13 run-time contract: greedy designs are feasible and never beat the
exhaustive optimum."""
import numpy as np

from mmverif.monitors import searchlib as sl
from mmverif.props import base

CONSTRAINTS = ('treatment_geos_range', 'control_geos_range',
               'geo_ratio_tolerance', 'volume_ratio_tolerance')


def _worker(spec):
  out = {'cases': [], 'viol': [], 'notes': [], 'stats': {}}
  case = sl.Case(spec)
  orc = case.oracle()
  ex, err_e, stage_e = sl.run_search(case, 'exhaustive')
  gr, err_g, stage_g = sl.run_search(case, 'greedy')
  if err_e is not None or err_g is not None:
    out['notes'].append('search raised %s / %s (trivial; C09 domain)' % (
        type(err_e).__name__, type(err_g).__name__))
    out['cases'].append((sl.key_of(spec), False, None))
    return out
  feasible = {(r.T, r.C) for r in orc.feasible('either', slack=1)}
  bad = []
  if not ex and gr:
    bad.append('greedy-returns-designs-but-exhaustive-returns-none')
  for d in gr:
    if sl.design_sets(d) not in feasible:
      bad.append('greedy-design-not-in-feasible-set')
      break
  scores = [sl.score_tuple(d) for d in gr + ex]
  if any(sl.has_nan(s) for s in scores):
    out['stats']['cases-with-nan-score-skipped'] = 1
  elif ex and any(sl.score_gt(sl.score_tuple(d), sl.score_tuple(ex[0]))
                  for d in gr):
    bad.append('greedy-design-scores-higher-than-exhaustive-best')
  if ex and gr:
    out['stats']['greedy-reaches-the-optimum'] = int(sl.score_close(
        sl.score_tuple(gr[0]), sl.score_tuple(ex[0])))
  out['stats']['cases-infeasible-for-both'] = int(not ex and not gr)
  out['cases'].append((sl.key_of(spec), bool(gr), {
      'greedy': len(gr), 'exhaustive': len(ex), 'feasible': len(feasible),
      'spec': spec}))
  for what in bad:
    out['viol'].append((
        'C13/' + what,
        case.describe(
            greedy=[{'treatment': sorted(t), 'control': sorted(c),
                     'score': list(sl.score_tuple(d))}
                    for d, (t, c) in zip(gr, map(sl.design_sets, gr))],
            exhaustive_best=(list(sl.score_tuple(ex[0])) if ex else None),
            feasible=len(feasible)), None))
  return out


def run(tier, seed):
  quick = tier == 'quick'
  rng = np.random.default_rng([int(seed), 13])
  pars = sl.par_specs(rng, 200 if quick else 600, constraints=CONSTRAINTS,
                      p_present=0.4)
  specs = sl.case_specs(seed, enum_geos=(1, 2, 3) if quick else (1, 2, 3, 4),
                        sample_geos=(4, 5) if quick else (5, 6),
                        n_sample=150 if quick else 260, pars=pars,
                        reps=1 if quick else 2, n_default=12, salt=13)
  res = base.MonitorResult(
      'C13: eligibility multisets / seeded tables / no-eligibility cases up '
      'to %d geos x seeded panels x parameter objects WITHOUT budget and '
      'treatment-share ranges (size ranges, geo-ratio and volume-ratio '
      'tolerances absent/present incl. on-bound and unsatisfiable settings, '
      'n_geos_max, n_designs, n_pretest_max, n_test); greedy and exhaustive '
      'search on identical inputs: every greedy design lies in the '
      'brute-force feasible set (legal + constraints, from the raw frame), '
      'none scores strictly higher than the best exhaustive design, and '
      'greedy returns [] when exhaustive does. non-trivial = greedy returned '
      'at least one design; distinct = case spec' % (5 if quick else 6))
  res.bound = 'n_geos <= %d, %d cases' % (5 if quick else 6, len(specs))
  return sl.sweep(res, _worker, specs)


if __name__ == '__main__':
  sl.main(run, 'c13')
