"""C03 run-time contract: exhaustive search = brute-force top-k, best first."""
from mmverif.monitors import searchlib as sl
from mmverif.props import base


def _check(orc, designs, k, reading):
  """Clauses of C03 violated under one reading of the treatment share."""
  loose = {(r.T, r.C): r for r in orc.feasible(reading, slack=1)}
  strict = {(r.T, r.C): r for r in orc.feasible(reading, slack=-1)}
  keys = [sl.design_sets(d) for d in designs]
  reported = [sl.score_tuple(d) for d in designs]
  bad, info = [], {}
  if len(set(keys)) != len(keys):
    bad.append('distinct')
  if any(key not in loose for key in keys):
    bad.append('returned-design-not-feasible')
  expected = {key: orc.score(r, True) for key, r in loose.items()}
  if any(sl.has_nan(s) for s in list(expected.values()) + reported):
    info['nan-score'] = 1
    return bad, info
  for key, s in zip(keys, reported):
    if key in expected and not sl.score_close(s, expected[key]):
      bad.append('score-differs-from-recomputation')
      break
  if any(sl.score_gt(reported[i + 1], reported[i])
         for i in range(len(reported) - 1)):
    bad.append('best-first')
  nonexempt = {key: r for key, r in strict.items() if not orc.exempt(r.T)}
  info['feasible'] = len(loose)
  info['exempt'] = len(loose) - len(nonexempt)
  if len(designs) > min(k, len(loose)):
    bad.append('more-designs-than-min(k,feasible)')
  if len(designs) < min(k, len(nonexempt)):
    bad.append('fewer-designs-than-min(k,feasible-not-exempt)')
  elif designs:
    worst = reported[-1]
    if any(sl.score_gt(expected[key], worst)
           for key in nonexempt if key not in set(keys)):
      bad.append('omitted-design-scores-higher-than-worst-returned')
  if not bad and len(nonexempt) == len(loose):
    top = sorted(expected.values(), reverse=True)[:k]
    if len(top) != len(reported) or not all(
        sl.score_close(a, b) for a, b in zip(top, sorted(reported,
                                                         reverse=True))):
      bad.append('score-multiset-differs-from-brute-force-top-k')
    info['ties-at-cut'] = int(len(loose) > k and len(top) == k and
                              sum(sl.score_close(top[-1], s)
                                  for s in expected.values()) > 1)
  return bad, info


def _worker(spec):
  case = sl.Case(spec)
  orc = case.oracle()
  k = case.kwargs.get('n_designs', 1)
  out = {'cases': [], 'viol': [], 'notes': [], 'stats': {}}
  designs, err, stage = sl.run_search(case, 'exhaustive')
  if err is not None:
    out['notes'].append('exhaustive %s raised %s (case counted as trivial)' %
                        (stage, type(err).__name__))
    out['cases'].append((sl.key_of(spec), False, None))
    return out
  bad, info = _check(orc, designs, k, 'all')
  if bad:   # the other documented reading of the treatment share
    bad2, info2 = _check(orc, designs, k, 'admitted')
    if not bad2:
      bad, info = bad2, info2
  out['cases'].append((sl.key_of(spec), bool(designs), {
      'k': k, 'returned': len(designs), 'feasible': info.get('feasible'),
      'exempt': info.get('exempt'), 'spec': spec}))
  st = out['stats']
  st['cases-with-exempt-designs'] = int(bool(info.get('exempt')))
  st['cases-truncated-by-k'] = int((info.get('feasible') or 0) > k)
  st['cases-with-tie-at-cut'] = info.get('ties-at-cut', 0)
  st['cases-with-nan-score-skipped'] = info.get('nan-score', 0)
  for clause in bad:
    out['viol'].append((
        'C03/' + clause,
        case.describe(k=k, returned=[
            {'treatment': sorted(t), 'control': sorted(c),
             'score': list(sl.score_tuple(d))}
            for d, (t, c) in zip(designs, map(sl.design_sets, designs))][:10],
                      feasible=info.get('feasible'),
                      exempt=info.get('exempt'),
                      admitted=sorted(orc.admitted)), None))
  return out


def run(tier, seed):
  import numpy as np
  quick = tier == 'quick'
  rng = np.random.default_rng([int(seed), 3])
  pars = sl.par_specs(rng, 200 if quick else 600, p_present=0.35)
  specs = sl.case_specs(
      seed, enum_geos=(1, 2, 3) if quick else (1, 2, 3, 4),
      sample_geos=(4, 5) if quick else (5, 6),
      n_sample=200 if quick else 400, pars=pars, reps=1 if quick else 3,
      n_default=10, salt=3)
  # pruning family: all geos free, every single geo affordable, some pairs
  # over the maximum budget, so the superset pruning of over-budget treatment
  # groups decides which designs are ever evaluated
  prng = np.random.default_rng([int(seed), 33])
  for n in ((4, 5) if quick else (4, 5, 6)):
    for panel in sl.panel_specs(n, prng, 6 if quick else 12):
      for mult in ([0.0, 1.2], [0.0, 1.6], [0.0, 2.2]):
        specs.append({'panel': panel, 'elig': None,
                      'par': {'budget_mult': mult, 'n_test': 7, 'iroas': 1.0,
                              'n_designs': 50}})
  # truncation family: panels twice as long as n_pretest_max in which one
  # geo was volatile only in the discarded early half; with a budget maximum
  # the screening of single geos must use the truncated window
  trng = np.random.default_rng([int(seed), 44])
  for n in ((4, 5) if quick else (4, 5, 6)):
    for panel in sl.panel_specs(n, trng, 4 if quick else 8, n_days=(40,)):
      for g in (0, 1, n - 1):
        for mult in ([0.0, 1.5], [0.0, 3.0]):
          specs.append({'panel': dict(panel, early_bump=g, missing=0),
                        'elig': None,
                        'par': {'budget_mult': mult, 'n_test': 7,
                                'iroas': 1.0, 'n_designs': 50,
                                'n_pretest_max': 20}})
  res = base.MonitorResult(
      'C03: eligibility multisets over <=%d geos, seeded tables up to %d geos '
      'and no-eligibility cases x seeded panels x parameter objects (k = '
      'n_designs in {1,3,50}); exhaustive search compared with a brute force '
      'over all 3^n assignments evaluated from the raw frame: distinct, all '
      'feasible, best first, count = min(k, feasible) up to the designs the '
      'optimistic budget screen may drop, nothing omitted scores strictly '
      'higher than the worst returned, and (no exemptions) equal score '
      'multisets; plus a pruning family (4-%d free geos, budget maximum '
      '1.2/1.6/2.2 x the median single-geo budget, k = 50) and a truncation '
      'family (40-day panels with n_pretest_max = 20, one geo volatile only '
      'in the discarded half, budget maximum 1.5/3 x median). non-trivial = at '
      'least one design returned; distinct = case spec' % (
          ((3, 5) if quick else (4, 6)) + ((5 if quick else 6),)))
  res.bound = 'n_geos <= %d, %d cases' % (5 if quick else 6, len(specs))
  return sl.sweep(res, _worker, specs)


if __name__ == '__main__':
  sl.main(run, 'c03')
