"""Shared deterministic generators and brute-force oracles for the search
monitors (C01-C04, C09-C11, C13).

Everything here is driven by small JSON-able *specs* so that a failing input
can be rebuilt from the violation record:

  panel spec  {'n_geos', 'n_days', 'noise', 'seed', 'missing', 'shuffle', 'ids'}
  elig spec   None (no eligibility object) or a list with one code per geo in
              size order (geo 0 = largest): index into ROW_TYPES, or -1 = the
              geo is absent from the eligibility table
  par spec    keyword arguments of TBRMMDesignParameters; 'budget_mult': [a, b]
              stands for budget_range = (a, b) * median per-geo optimistic
              required impact / iroas (resolved from the raw data in build()).

The oracle (class Oracle) recomputes everything from the RAW long-format frame
with plain Python / NumPy; only the statistical quantities (required impact,
correlation tests, score tuple) come from fresh TBRMMDiagnostics / TBRMMScore
objects fed with the oracle's own series.
"""
import itertools
import json
import multiprocessing
import os
import sys
import types
import warnings
from fractions import Fraction

import numpy as np
import pandas as pd

from mmverif import common

RTOL = 1e-8
# (control, treatment, exclude)
ROW_TYPES = ((1, 0, 0), (0, 1, 0), (0, 0, 1), (1, 1, 0), (1, 0, 1), (0, 1, 1),
             (1, 1, 1))
ROW_NAMES = ('c', 't', 'x', 'ct', 'cx', 'tx', 'ctx')
NOISE_LEVELS = (0.6, 3.0)
REGION_C01 = 'C01:n_geos_max-drops-must-include'


# ----------------------------------------------------------------- plumbing
def setup_path():
  """Make `matched_markets` resolve to the repository under test."""
  if not sys.path or sys.path[0] != common.REPO:
    sys.path.insert(0, common.REPO)
  warnings.simplefilter('ignore')
  np.seterr(all='ignore')


def mods():
  """The modules under test (imported lazily, after the path is set)."""
  setup_path()
  from matched_markets.methodology import geoeligibility
  from matched_markets.methodology import tbrmatchedmarkets
  from matched_markets.methodology import tbrmmdata
  from matched_markets.methodology import tbrmmdesignparameters
  from matched_markets.methodology import tbrmmdiagnostics
  from matched_markets.methodology import tbrmmscore
  return types.SimpleNamespace(
      GeoEligibility=geoeligibility.GeoEligibility,
      MM=tbrmatchedmarkets.TBRMatchedMarkets,
      Data=tbrmmdata.TBRMMData,
      Par=tbrmmdesignparameters.TBRMMDesignParameters,
      Diag=tbrmmdiagnostics.TBRMMDiagnostics,
      Score=tbrmmscore.TBRMMScore)


def n_procs():
  return max(1, min(14, (os.cpu_count() or 2) - 1))


def pmap(func, items, chunksize=None):
  """Ordered parallel map (fork pool, path set up in every worker)."""
  items = list(items)
  procs = min(n_procs(), max(1, len(items)))
  if procs <= 1:
    setup_path()
    for it in items:
      yield func(it)
    return
  if chunksize is None:
    chunksize = max(1, min(8, len(items) // (procs * 6)))
  ctx = multiprocessing.get_context('fork')
  pool = ctx.Pool(procs, initializer=setup_path)
  try:
    for out in pool.imap(func, items, chunksize):
      yield out
  finally:
    pool.terminate()
    pool.join()


def sweep(res, worker, specs, max_viol=5):
  """Run worker(spec) -> {'cases': [(key, nontrivial, sample)], 'viol':
  [(what, input, region)], 'notes': [...]} over specs and fill `res`."""
  stats = {}
  # most expensive (largest) cases first: better load balance, same set
  specs = sorted(specs, key=lambda s: -s['panel']['n_geos'])
  for out in pmap(worker, specs):
    for key, nontrivial, sample in out.get('cases', ()):
      res.case(key, nontrivial=nontrivial, sample=sample)
    for what, inp, region in out.get('viol', ()):
      if region is not None:   # keep a few witnesses per known region
        stats['in-region:' + region] = stats.get('in-region:' + region, 0) + 1
        if stats['in-region:' + region] > 5:
          continue
      res.violation(what, common.jsonable(inp), region)
    for n in out.get('notes', ()):
      if n not in res.notes and len(res.notes) < 30:
        res.notes.append(n)
    for k, v in out.get('stats', {}).items():
      stats[k] = stats.get(k, 0) + v
    if len([v for v in res.violations if v['region'] is None]) >= max_viol:
      break
  if stats:
    res.notes.append('counters: ' + json.dumps(stats, sort_keys=True))
  return res


def key_of(spec, extra=''):
  return json.dumps(common.jsonable(spec), sort_keys=True) + extra


def main(run, name):
  """Shared __main__ of the monitors."""
  import argparse
  import time
  ap = argparse.ArgumentParser(prog='mmverif.monitors.' + name)
  ap.add_argument('--tier', default='quick', choices=['quick', 'thorough'])
  ap.add_argument('--seed', type=int, default=0)
  args = ap.parse_args()
  setup_path()
  t0 = time.time()
  res = run(args.tier, args.seed)
  print('%s tier=%s seed=%d repo=%s' % (name, args.tier, args.seed,
                                        common.REPO))
  print('evaluations=%d distinct_nontrivial=%d violations=%d wall=%.1fs' % (
      res.evaluations, len(res.nontrivial), len(res.violations),
      time.time() - t0))
  for n in res.notes[:12]:
    print('note:', n)
  for v in res.violations[:8]:
    print('VIOLATION', v['what'], 'region=%s' % v['region'],
          json.dumps(common.jsonable(v['input']))[:700])
  new = [v for v in res.violations if v['region'] is None]
  sys.exit(1 if new else 0)


# ------------------------------------------------------------------- panels
def geo_ids(pspec):
  """Geo IDs in size order (geo 0 has the largest scale).  Integer IDs are
  chosen so that their string order differs from their numeric order."""
  if pspec.get('ids', 'str') == 'int':
    return [3 * g + 1 for g in range(pspec['n_geos'])]
  return ['G%d' % g for g in range(pspec['n_geos'])]


def make_panel(pspec):
  """Long-format frame: response = geo scale x common random walk + noise."""
  rng = np.random.default_rng([int(pspec['seed']), pspec['n_geos'],
                               pspec['n_days']])
  n_geos, n_days = pspec['n_geos'], pspec['n_days']
  walk = 60.0 + np.cumsum(rng.normal(0.0, 2.0, n_days))
  ids = geo_ids(pspec)
  dates = pd.date_range('2020-01-01', periods=n_days)
  rows = []
  for g in range(n_geos):
    scale = (n_geos - g) + 0.3 * rng.random()
    sd = pspec['noise'] * (0.4 + 0.4 * g)
    y = scale * walk + rng.normal(0.0, sd, n_days)
    if pspec.get('early_bump') is not None and g == pspec['early_bump']:
      # a volatile episode in the first half of the history only (the part an
      # n_pretest_max shorter than the panel discards)
      half = n_days // 2
      y[:half] = y[:half] + scale * 8.0 * np.sin(np.arange(half) * 1.3)
    rows.extend((dates[d], ids[g], float(y[d])) for d in range(n_days))
  n_missing = pspec.get('missing', 0) if n_geos >= 2 else 0
  if n_missing:
    days = rng.choice(n_days, size=n_missing, replace=False)
    drop = {(dates[int(d)], ids[int(rng.integers(n_geos))]) for d in days}
    rows = [r for r in rows if (r[0], r[1]) not in drop]
  if pspec.get('shuffle'):
    rows = [rows[i] for i in rng.permutation(len(rows))]
  return pd.DataFrame(rows, columns=['date', 'geo', 'response'])


def panel_specs(n_geos, rng, count, n_days=(24, 40)):
  """`count` seeded panel specs for a geo count, cycling through the options
  (noise level, window length, missing cells, shuffling, ID type)."""
  out = []
  for i in range(count):
    out.append({
        'n_geos': n_geos, 'n_days': n_days[i % len(n_days)],
        'noise': NOISE_LEVELS[(i // 2) % 2], 'seed': int(rng.integers(10**6)),
        'missing': (0, 0, 2, 0)[i % 4], 'shuffle': bool((i // 2) % 2),
        'ids': ('str', 'int')[(i // 3) % 2]})
  return out


# -------------------------------------------------------------- eligibility
def elig_multisets(n):
  """Every multiset of the seven row types over n geos, assigned to the geos
  in size order and in reversed order."""
  out = []
  for ms in itertools.combinations_with_replacement(range(7), n):
    out.append(list(ms))
    if tuple(reversed(ms)) != ms:
      out.append(list(reversed(ms)))
  return out


def elig_samples(n, rng, count, absent=True):
  """Seeded eligibility tables for n geos (some with a geo absent)."""
  out = []
  for i in range(count):
    codes = [int(c) for c in rng.integers(0, 7, size=n)]
    if i % 3 == 0:     # bias towards free geos so that designs exist
      codes = [c if rng.random() < 0.5 else 6 for c in codes]
    if absent and n >= 3 and i % 7 == 6:
      codes[int(rng.integers(n))] = -1
    out.append(codes)
  return out


def elig_frame(pspec, espec):
  if espec is None:
    return None
  ids = geo_ids(pspec)
  rows = [(ids[i],) + ROW_TYPES[c] for i, c in enumerate(espec) if c >= 0]
  return pd.DataFrame(rows, columns=['geo', 'control', 'treatment', 'exclude'])


def elig_rows(pspec, espec):
  """{geo ID as str: (c, t, x)} or None."""
  if espec is None:
    return None
  ids = geo_ids(pspec)
  return {str(ids[i]): ROW_TYPES[c] for i, c in enumerate(espec) if c >= 0}


# --------------------------------------------------------------- parameters
CONSTRAINT_SETTINGS = {
    'treatment_geos_range': [[1, 1], [2, 3], [1, 2], [5, 6]],
    'control_geos_range': [[1, 2], [2, 2], [3, 6]],
    'geo_ratio_tolerance': [0.5, 1.0, 0.01],
    'volume_ratio_tolerance': [0.5, 3.0],
    'treatment_share_range': [[0.1, 0.5], [0.3, 0.9], [0.02, 0.2]],
    'budget_mult': [[0.0, 1.2], [0.0, 3.0], [1.5, 8.0], [5.0, 60.0]],
}
UNSATISFIABLE = [
    {'treatment_geos_range': [1, 1], 'control_geos_range': [3, 6],
     'geo_ratio_tolerance': 0.5},
    {'treatment_geos_range': [5, 6], 'control_geos_range': [5, 6]},
    {'treatment_share_range': [0.02, 0.03], 'volume_ratio_tolerance': 0.5},
    {'budget_mult': [0.0, 0.01]},
    {'budget_mult': [500.0, 600.0]},
]
# exactly on a size bound / on a geo-ratio bound (2:1, 1:2, 3:2, 2:3)
ON_BOUND = [
    {'treatment_geos_range': [2, 2], 'control_geos_range': [1, 1],
     'geo_ratio_tolerance': 1.0},
    {'treatment_geos_range': [1, 1], 'control_geos_range': [2, 2],
     'geo_ratio_tolerance': 1.0},
    {'treatment_geos_range': [2, 3], 'control_geos_range': [2, 3],
     'geo_ratio_tolerance': 0.5},
    {'geo_ratio_tolerance': 1.0},
    {'geo_ratio_tolerance': 0.5},
]


def par_specs(rng, count, constraints=tuple(CONSTRAINT_SETTINGS),
              n_designs=(1, 3, 50), extras=True, p_present=0.4):
  """`count` parameter specs: first every single setting of every allowed
  constraint alone, the on-bound and the unsatisfiable combinations, then
  seeded random combinations (each constraint present with p_present)."""
  allowed = set(constraints)
  base = [{}]
  for name in constraints:
    base.extend({name: v} for v in CONSTRAINT_SETTINGS[name])
  for combo in ON_BOUND + UNSATISFIABLE:
    if set(combo) <= allowed:
      base.append(dict(combo))
  out = []
  i = 0
  while len(out) < count:
    if i < len(base):
      spec = dict(base[i])
    else:
      spec = {}
      for name in constraints:
        if rng.random() < p_present:
          opts = CONSTRAINT_SETTINGS[name]
          spec[name] = opts[int(rng.integers(len(opts)))]
    spec['n_test'] = (7, 7, 14)[int(rng.integers(3))] if extras else 7
    spec['iroas'] = (1.0, 2.5)[int(rng.integers(2))]
    spec['n_designs'] = int(n_designs[int(rng.integers(len(n_designs)))])
    if extras:
      ngm = (None, None, None, 2, 3)[int(rng.integers(5))]
      if ngm is not None:
        spec['n_geos_max'] = ngm
      if rng.random() < 0.3:
        spec['n_pretest_max'] = 20
    out.append(spec)
    i += 1
  return out


# --------------------------------------------------------------------- case
class Case:
  """A fully built input: raw frame, eligibility, resolved parameters."""

  def __init__(self, spec):
    self.spec = spec
    self.M = mods()
    self.pspec, self.espec = spec['panel'], spec.get('elig')
    self.frame = make_panel(self.pspec)
    self.elig_df = elig_frame(self.pspec, self.espec)
    self.rows = elig_rows(self.pspec, self.espec)
    kw = {k: (tuple(v) if isinstance(v, list) else v)
          for k, v in spec['par'].items()}
    mult = kw.pop('budget_mult', None)
    kw.setdefault('n_test', 7)
    kw.setdefault('iroas', 1.0)
    if mult is not None:
      ref_oracle = Oracle(self.frame, self.rows, self.M.Par(**kw), self.M)
      ref = float(np.median(list(ref_oracle.req.values()))) / kw['iroas']
      kw['budget_range'] = (mult[0] * ref, mult[1] * ref)
    self.kwargs = kw

  def par(self):
    return self.M.Par(**self.kwargs)

  def new_mm(self, par=None, frame=None):
    """A fresh TBRMatchedMarkets on a fresh TBRMMData (the constructor of
    TBRMatchedMarkets truncates data.df in place)."""
    M = self.M
    elig = None if self.elig_df is None else M.GeoEligibility(self.elig_df)
    data = M.Data(self.frame if frame is None else frame, 'response', elig)
    if self.spec.get('reuse'):
      # the same data object served an earlier, unconstrained search object
      # (default pretest window, no constraints): whatever that left behind
      # in the data object must not leak into this one
      try:
        primer = M.MM(data, M.Par(n_test=self.kwargs.get('n_test', 7),
                                  iroas=self.kwargs.get('iroas', 1.0)))
        primer.geo_assignments      # installs its geo index in `data`
      except Exception:  # pylint: disable=broad-except
        pass
    return M.MM(data, self.par() if par is None else par)

  def oracle(self):
    # the oracle works from a parameter object whose integer-valued floats
    # are plain ints (what the documented domain means), independently of
    # what the object under test stores
    def norm(v):
      if isinstance(v, float) and v == v and abs(v) != float('inf') and (
          v == int(v)):
        return int(v)
      if isinstance(v, tuple):
        return tuple(norm(x) for x in v)
      return v
    ints = ('n_test', 'n_geos_max', 'n_pretest_max', 'n_designs',
            'treatment_geos_range', 'control_geos_range')
    kw = {k: (norm(v) if k in ints else v) for k, v in self.kwargs.items()}
    return Oracle(self.frame, self.rows, self.M.Par(**kw), self.M)

  def describe(self, **extra):
    d = {'spec': self.spec, 'resolved_parameters': self.kwargs,
         'eligibility': None if self.rows is None else {
             g: ROW_NAMES[ROW_TYPES.index(r)] for g, r in self.rows.items()}}
    d.update(extra)
    return common.jsonable(d)


def try_call(fn):
  """(value, None) or (None, exception) for a call into the code under
  test."""
  try:
    return fn(), None
  except Exception as e:  # pylint: disable=broad-except
    return None, e


class SearchTimeout(Exception):
  """The search did not return within SEARCH_TIME_LIMIT_S (typical searches
  of the enumerated sizes take milliseconds to a few seconds)."""


_TIMED_OUT = []
SEARCH_TIME_LIMIT_S = int(os.environ.get('MMVERIF_SEARCH_LIMIT_S', '60'))


def run_search(case, which, mm=None):
  """Returns (designs or None, exception or None, stage).  A search that
  does not return within the time limit is interrupted and reported as
  SearchTimeout, so that a non-terminating search cannot hang a check."""
  import signal
  if mm is None:
    mm, err = try_call(case.new_mm)
    if err is not None:
      return None, err, 'construct'
  fired = []
  # once one search of this worker process has been interrupted, further
  # witnesses are collected with a shorter limit
  limit = SEARCH_TIME_LIMIT_S if not _TIMED_OUT else max(
      5, SEARCH_TIME_LIMIT_S // 6)

  def on_alarm(signum, frame):
    fired.append(1)
    _TIMED_OUT.append(1)
    raise SearchTimeout('no result after %d s' % limit)
  try:
    old = signal.signal(signal.SIGALRM, on_alarm)
  except ValueError:          # not the main thread: no limit available
    old = None
  if old is not None:
    signal.alarm(limit)
  try:
    designs, err = try_call(getattr(mm, which + '_search'))
  finally:
    if old is not None:
      signal.alarm(0)
      signal.signal(signal.SIGALRM, old)
  if fired and not isinstance(err, SearchTimeout):
    designs, err = None, SearchTimeout('interrupted after %d s' % limit)
  return designs, err, 'search'


def design_sets(d):
  return (frozenset(str(g) for g in d.treatment_geos),
          frozenset(str(g) for g in d.control_geos))


def score_tuple(d):
  return tuple(d.score.score)


# ------------------------------------------------------------ float helpers
def close(a, b, rtol=RTOL):
  if a is None or b is None:
    return a is b
  a, b = float(a), float(b)
  if a != a or b != b:
    return a != a and b != b
  return abs(a - b) <= rtol * max(abs(a), abs(b), 1e-300)


def within(v, lo, hi, slack=1):
  """lo <= v <= hi; slack=+1 widens the interval by RTOL (accept borderline
  values), slack=-1 narrows it (surely inside)."""
  return (v >= lo - slack * RTOL * abs(lo)) and (v <= hi +
                                                 slack * RTOL * abs(hi))


def score_close(a, b):
  return (len(a) == len(b) and tuple(a[:5]) == tuple(b[:5]) and
          close(a[5], b[5]))


def score_gt(a, b):
  """a strictly higher than b (lexicographic, last entry with tolerance)."""
  if tuple(a[:5]) != tuple(b[:5]):
    return tuple(a[:5]) > tuple(b[:5])
  return a[5] > b[5] and not close(a[5], b[5])


def has_nan(score):
  return any(isinstance(v, float) and v != v for v in score)


# ------------------------------------------------------------------- oracle
class Oracle:
  """Brute-force recomputation from the raw long-format frame."""

  def __init__(self, frame, rows, par, M=None):
    self.M = M or mods()
    self.par = par
    cells = {}
    for date, geo, val in zip(frame['date'].tolist(), frame['geo'].tolist(),
                              frame['response'].tolist()):
      cells[(str(geo), date)] = float(val)
    self.geos = sorted({g for g, _ in cells})
    self.dates = sorted({d for _, d in cells})
    full = {g: [cells.get((g, d), 0.0) for d in self.dates]
            for g in self.geos}
    means = {g: sum(v) / len(v) for g, v in full.items()}
    total = sum(means.values())
    self.share = {g: means[g] / total for g in self.geos}
    n = par.n_pretest_max
    self.window = self.dates[-n:]
    self.series = {g: np.array(full[g][-n:], dtype=float) for g in self.geos}
    self.req = {g: self.opt_impact_series(self.series[g]) for g in self.geos}
    if rows is None:
      rows = {g: (1, 1, 1) for g in self.geos}
    self.rows = {g: tuple(r) for g, r in rows.items() if g in self.geos}
    assignable = {g for g, r in self.rows.items() if r != (0, 0, 1)}
    self.must_include = {g for g, r in self.rows.items() if r[2] == 0}
    self.must_exclude = {g for g, r in self.rows.items() if r == (0, 0, 1)}
    too_large, over_budget = set(), set()
    if par.treatment_share_range is not None:
      too_large = {g for g in self.geos
                   if self.share[g] > par.treatment_share_range[1]}
    if par.budget_range is not None:
      over_budget = {g for g in self.geos
                     if self.req[g] > par.budget_range[1] * par.iroas}
    adm = (assignable - too_large - over_budget) | self.must_include
    self.admitted_untruncated = set(adm)
    if par.n_geos_max is not None and len(adm) > par.n_geos_max:
      order = sorted(adm, key=lambda g: -self.req[g])
      adm = set(order[:par.n_geos_max])
    self.admitted = adm
    # known-finding region C01: truncation dropped a must-include geo
    self.dropped_must_include = self.must_include - adm
    self._rec = {}
    self._opt = {}

  # --- statistics (fresh diagnostics objects on the oracle's own series)
  def opt_impact_series(self, y):
    return float(self.M.Diag(y, self.par).estimate_required_impact(
        self.par.rho_max))

  def group_series(self, geos):
    total = np.zeros(len(self.window))
    for g in sorted(geos):
      total = total + self.series[g]
    return total

  def opt_budget(self, group):
    group = frozenset(group)
    if group not in self._opt:
      self._opt[group] = self.opt_impact_series(
          self.group_series(group)) / self.par.iroas
    return self._opt[group]

  def precondition_c09(self):
    return (len(self.window) >= self.par.n_test + 3 and
            all(np.std(s) > 0 for s in self.series.values()))

  # --- legality
  def legal_pairs(self):
    """All (T, C): every admitted geo goes to control, treatment or neither
    as its row allows; both groups non-empty."""
    geos = sorted(self.admitted)
    opts = []
    for g in geos:
      c, t, x = self.rows[g]
      opts.append(('C',) * c + ('T',) * t + ('N',) * x)
    out = []
    for combo in itertools.product(*opts):
      t_set = frozenset(g for g, o in zip(geos, combo) if o == 'T')
      c_set = frozenset(g for g, o in zip(geos, combo) if o == 'C')
      if t_set and c_set:
        out.append((t_set, c_set))
    return out

  def legality_failures(self, t_set, c_set):
    """Clauses of C01 violated by a returned design (IDs as str)."""
    bad = []
    if not t_set or not c_set:
      bad.append('non-empty')
    if t_set & c_set:
      bad.append('disjoint')
    if (t_set | c_set) - set(self.geos):
      bad.append('geos-in-data')
    for g in t_set:
      if self.rows.get(g, (0, 0, 0))[1] != 1:
        bad.append('treatment-eligible')
        break
    for g in c_set:
      if self.rows.get(g, (0, 0, 0))[0] != 1:
        bad.append('control-eligible')
        break
    if (t_set | c_set) & self.must_exclude:
      bad.append('must-exclude-absent')
    if self.must_include - (t_set | c_set):
      bad.append('must-include-placed')
    return bad

  # --- numbers of one design
  def evaluate(self, t_set, c_set):
    key = (frozenset(t_set), frozenset(c_set))
    if key in self._rec:
      return self._rec[key]
    par = self.par
    y, x = self.group_series(key[0]), self.group_series(key[1])
    diag = self.M.Diag(y, par)
    diag.x = x
    share_t = sum(self.share[g] for g in sorted(key[0]))
    share_c = sum(self.share[g] for g in sorted(key[1]))
    share_adm = sum(self.share[g] for g in sorted(self.admitted))
    impact = float(diag.required_impact)
    rec = types.SimpleNamespace(
        T=key[0], C=key[1], n_t=len(key[0]), n_c=len(key[1]), y=y, x=x,
        diag=diag, corr=float(diag.corr), impact=impact,
        budget=impact / par.iroas, volume_ratio=share_c / share_t,
        share_all=share_t, share_admitted=share_t / share_adm, _score=None)
    self._rec[key] = rec
    return rec

  def score(self, rec, budget_scaled):
    """Score tuple from a fresh TBRMMScore; last entry = max budget /
    required impact when budget_scaled and a budget range is given."""
    if rec._score is None:
      rec._score = tuple(self.M.Score(rec.diag).score)
    s = rec._score
    if budget_scaled and self.par.budget_range is not None:
      s = s[:5] + (self.par.budget_range[1] / rec.impact,)
    return s

  def failed_constraints(self, rec, reading='either', slack=1):
    """Names of the constraint families of C02 the design violates.
    reading: 'all' (share against all geos in the data), 'admitted' (against
    the admitted geos) or 'either'."""
    par, bad = self.par, []
    r = par.treatment_geos_range
    if r is not None and not r[0] <= rec.n_t <= r[1]:
      bad.append('treatment-size')
    r = par.control_geos_range
    if r is not None and not r[0] <= rec.n_c <= r[1]:
      bad.append('control-size')
    if par.geo_ratio_tolerance is not None:
      hi = 1 + Fraction(par.geo_ratio_tolerance)
      if not 1 / hi <= Fraction(rec.n_c, rec.n_t) <= hi:
        bad.append('geo-ratio')
    if par.volume_ratio_tolerance is not None:
      hi = 1.0 + par.volume_ratio_tolerance
      if not within(rec.volume_ratio, 1.0 / hi, hi, slack):
        bad.append('volume-ratio')
    r = par.treatment_share_range
    if r is not None:
      ok_all = within(rec.share_all, r[0], r[1], slack)
      ok_adm = within(rec.share_admitted, r[0], r[1], slack)
      ok = {'all': ok_all, 'admitted': ok_adm,
            'either': ok_all or ok_adm}[reading]
      if not ok:
        bad.append('treatment-share')
    r = par.budget_range
    if r is not None and not within(rec.budget, r[0], r[1], slack):
      bad.append('budget')
    return bad

  def on_bound(self, rec):
    """Which integer-valued bounds the design sits exactly on."""
    par, out = self.par, []
    for name, n, r in (('treatment-size', rec.n_t, par.treatment_geos_range),
                       ('control-size', rec.n_c, par.control_geos_range)):
      if r is not None and n in (r[0], r[1]):
        out.append(name)
    if par.geo_ratio_tolerance is not None:
      hi = 1 + Fraction(par.geo_ratio_tolerance)
      if Fraction(rec.n_c, rec.n_t) in (hi, 1 / hi):
        out.append('geo-ratio')
    return out

  def feasible(self, reading='either', slack=1):
    """Legal pairs within all constraints -> list of records."""
    out = []
    for t_set, c_set in self.legal_pairs():
      rec = self.evaluate(t_set, c_set)
      if not self.failed_constraints(rec, reading, slack):
        out.append(rec)
    return out

  def size_ratio_count(self):
    """Number of legal pairs respecting only the size ranges and the geo
    ratio tolerance (no statistics needed)."""
    par, n = self.par, 0
    for t_set, c_set in self.legal_pairs():
      rec = types.SimpleNamespace(n_t=len(t_set), n_c=len(c_set))
      r = par.treatment_geos_range
      if r is not None and not r[0] <= rec.n_t <= r[1]:
        continue
      r = par.control_geos_range
      if r is not None and not r[0] <= rec.n_c <= r[1]:
        continue
      if par.geo_ratio_tolerance is not None:
        hi = 1 + Fraction(par.geo_ratio_tolerance)
        if not 1 / hi <= Fraction(rec.n_c, rec.n_t) <= hi:
          continue
      n += 1
    return n

  def exempt(self, t_set):
    """C03: the search may omit designs whose treatment group, or a legal
    smaller treatment group contained in it, has an optimistic required
    budget outside the budget range (borderline counts as outside)."""
    r = self.par.budget_range
    if r is None:
      return False
    def outside(b):
      return not within(b, r[0], r[1], slack=-1)
    if outside(self.opt_budget(t_set)):
      return True
    fixed = {g for g in self.admitted if self.rows[g] == (0, 1, 0)}
    tr = self.par.treatment_geos_range
    n_min = max(1, len(fixed), tr[0] if tr is not None else 1)
    free = sorted(set(t_set) - fixed)
    for n in range(max(0, n_min - len(fixed)), len(free)):
      for sub in itertools.combinations(free, n):
        group = frozenset(fixed | set(sub))
        if group and len(group) < len(t_set) and outside(
            self.opt_budget(group)):
          return True
    return False


# -------------------------------------------------------------- case stream
def case_specs(seed, enum_geos, sample_geos, n_sample, pars, reps=1,
               panels_per_n=8, n_default=4, salt=0):
  """Seeded list of case specs {'panel', 'elig', 'par'}.

  For n in enum_geos every eligibility multiset (both orders) is used `reps`
  times, for n in sample_geos `n_sample` seeded tables; each table is paired
  round-robin with the seeded panels of that geo count and with the parameter
  specs `pars`; `n_default` extra cases per geo count have no eligibility
  object."""
  rng = np.random.default_rng([int(seed), 7919, salt])
  out, k = [], 0
  for n in sorted(set(enum_geos) | set(sample_geos)):
    panels = panel_specs(n, rng, panels_per_n)
    if n in enum_geos:
      tables = [t for t in elig_multisets(n) for _ in range(reps)]
    else:
      tables = elig_samples(n, rng, n_sample)
    tables = [None] * n_default + tables
    for j, table in enumerate(tables):
      spec = {'panel': panels[j % len(panels)], 'elig': table,
              'par': pars[k % len(pars)]}
      if k % 3 == 2:
        spec['reuse'] = True      # data object reused after another search
      out.append(spec)
      k += 1
  return out
