"""C07 run-time monitor: coherence of TBRiROAS.summary with its incremental
response and cost.

    cd /verif && .venv/bin/python -m mmverif.monitors.c07 --tier quick
"""
import numpy as np

from mmverif.monitors import tbrlib as L
from mmverif.props import base

# ---- known-finding regions -------------------------------------------------
# n_pre == 3: posterior with 1 d.f.; TBR.summary reports estimate = t.mean() =
# inf (see c06), so the fixed-cost iROAS estimate is inf as well.
REGION_NPRE3 = 'C06:n_pre=3-estimate-inf'
# Variable-cost scenario, the estimate is the MEAN of the simulated ratios
# while the bounds are percentiles of the same draws:
#  * n_pre <= 4: the posteriors have <= 2 d.f. (no variance, for 1 d.f. no
#    mean), the sample mean is dominated by extreme draws and falls outside
#    the percentile interval;
#  * tails == 1 and level == 0.5: the lower bound is the sample median, and
#    the sample mean is below it whenever the draws are left-skewed.
REGION_HEAVY = 'C07:variable-cost-df<=2-mean-outside-interval'
REGION_MEDIAN = 'C07:variable-cost-level-0.5-one-tailed'
# The fixed/variable switch is an ABSOLUTE threshold (1e-10) on the
# non-incremental cost total S: re-expressing cost in another unit (x a) moves
# S across the threshold (S < 1e-10 <= a S or a S < 1e-10 <= S), the scenario
# label changes and the report switches between the closed form and the
# simulation, so the iROAS figures are not multiplied by b/a.
REGION_FLIP = 'C07:scenario-flips-under-cost-rescaling'

LEVELS = (0.5, 0.8, 0.9)
TAILS = (1, 2)
NSIMS = 2000
MULTS = ((4.0, 1.0), (1.0, 8.0), (0.25, 1024.0), (4096.0, 0.5))
FIG = ('estimate', 'lower', 'upper', 'precision')
INV = ('probability', 'relative_lift', 'relative_lift_lower',
       'relative_lift_upper')


def _tasks(tier, seed):
  rng = np.random.default_rng(seed)
  n_seeds = 1 if tier == 'quick' else 3
  seeds = [int(s) for s in rng.integers(0, 2 ** 31 - 1, n_seeds)]
  pres = L.presentations(tier)
  tasks = []
  i = 0
  for s in seeds:
    for n_pre in L.N_PRE:
      for n_test in L.N_TEST:
        for n_cool in L.N_COOL:
          for cost in L.COSTS:
            # presentations cycle through the grid (all 6 in thorough)
            which = ([pres[i % len(pres)]] if tier == 'quick'
                     else [pres[i % len(pres)], pres[(i + 3) % len(pres)]])
            i += 1
            for p in which:
              tasks.append(dict(seed=s, n_pre=n_pre, n_test=n_test,
                                n_cool=n_cool, cost=cost, pres=p, tier=tier,
                                index=len(tasks)))
  return tasks


def non_incremental_cost(frame):
  """Sum of all pre-period costs (every labelled group) plus the control
  group's test-period costs, from the raw frame."""
  group = frame['group'].to_numpy(float)
  period = frame['period'].to_numpy(float)
  cost = frame['cost'].to_numpy(float)
  labelled = group == group          # rows of NaN groups are dropped by groupby
  pre = float(np.sum(cost[labelled & (period == L.PRE)]))
  ctl = float(np.sum(cost[(group == L.CONTROL) & (period == L.TEST)]))
  return pre + ctl


def _row(rep, name):
  return float(rep[name].iloc[0])


def _work(task):
  from scipy import stats
  from matched_markets.methodology import tbr as tbr_mod
  from matched_markets.methodology import tbr_iroas
  col = L.Collector()
  spec = L.default_spec(seed=task['seed'], n_pre=task['n_pre'],
                        n_test=task['n_test'], n_cool=task['n_cool'],
                        cost=task['cost'], **task['pres'])
  sj = L.spec_json(spec)
  frame = L.build(spec)
  _, per, xr, yr = L.aggregate(frame, 'response')
  _, _, xc, yc = L.aggregate(frame, 'cost')
  s_non_incr = non_incremental_cost(frame)
  want_fixed = abs(s_non_incr) < 1e-10
  n_pre = task['n_pre']
  for uc in (False, True):
    o_resp = L.tbr_oracle(per, xr, yr, uc)
    o_cost_all = L.tbr_oracle(per, xc, yc, uc)            # test (+ cooldown)
    o_cost_test = L.tbr_oracle(per, xc, yc, False)        # test period only
    model = tbr_iroas.TBRiROAS(use_cooldown=uc)
    model.fit(frame)
    resp = tbr_mod.TBR(use_cooldown=uc)
    resp.fit(frame, 'response')
    atol_r = 1e-10 * float(np.sum(np.abs(yr)))
    atol_c = 1e-10 * float(np.sum(np.abs(yc)))
    quick = task['tier'] == 'quick'
    mults = MULTS
    if quick:       # two of the four multiplier pairs, always the largest a
      mults = (MULTS[task['index'] % 3], MULTS[3])
    rescaled = []
    for a, b in mults:
      m2 = tbr_iroas.TBRiROAS(use_cooldown=uc)
      m2.fit(L.build(spec, resp_mult=b, cost_mult=a))
      rescaled.append((a, b, m2))
    fresh_model = tbr_iroas.TBRiROAS(use_cooldown=uc)
    fresh_model.fit(frame)
    for level in LEVELS:
      for tails in TAILS:
        rep0 = None
        well_conditioned = True
        mean_rtol = 1e-8
        in_domain = True
        for thr in (0.0, 0.5):
          if quick and thr != 0.0 and tails == 1:
            continue
          rs = 1 + int(level * 10) + tails
          inp = dict(spec=sj, use_cooldown=uc, level=level, tails=tails,
                     posterior_threshold=thr, nsims=NSIMS, random_state=rs)
          rep = model.summary(level=level, posterior_threshold=thr,
                              tails=tails, nsims=NSIMS, random_state=rs)
          if thr == 0.0:
            rep0 = rep
          scen = rep['scenario'].iloc[0]
          key = L.short_key(L.spec_key(spec), uc, level, tails, thr)
          est, low, upp = _row(rep, 'estimate'), _row(rep, 'lower'), _row(
              rep, 'upper')
          if scen != ('fixed' if want_fixed else 'variable'):
            col.violation('C07/scenario-label', dict(
                inp, non_incremental_cost=s_non_incr))
          tail_p = (1.0 - level) / tails
          dof = o_resp['df']
          # relative lift: replay of the simulation (both scenarios)
          z = stats.t(dof).rvs(NSIMS, random_state=rs)
          sims_r = float(o_resp['loc'][-1]) + float(o_resp['scale'][-1]) * z
          observed = float(np.sum(yr[o_resp['idx']]))
          lift = sims_r / (observed - sims_r)
          exp_lift = (float(np.median(lift)),
                      float(np.percentile(lift, 100 * tail_p)),
                      np.inf if tails == 1 else float(
                          np.percentile(lift, 100 * (1 - tail_p))))
          got_lift = tuple(_row(rep, c) for c in INV[1:])
          if not L.close(got_lift, exp_lift, rtol=1e-7):
            col.violation('C07/relative-lift=function-of-data-and-'
                          'random_state', inp)
          if scen == 'fixed':
            cost = float(np.sum(o_cost_all['effect']))
            nondegenerate = abs(cost) > 1e-6 * float(np.sum(np.abs(yc)))
            inf_est = n_pre == 3 and not np.isfinite(est)
            col.case(key, nontrivial=nondegenerate and not inf_est,
                     sample=dict(inp, scenario=scen))
            if not nondegenerate:
              in_domain = False
              continue
            ereg = REGION_NPRE3 if inf_est else None
            r1 = resp.summary(level=level, threshold=thr * cost, tails=tails,
                              rescale=1.0, report='last')
            if not L.close(_row(rep, 'incremental_cost'), cost, atol=atol_c):
              col.violation('C07/fixed/incremental_cost', inp)
            if not L.close(_row(rep, 'incremental_response'),
                           float(o_resp['loc'][-1]), atol=atol_r):
              col.violation('C07/fixed/incremental_response', inp)
            btol = (atol_r + 1e-9 * (abs(o_resp['loc'][-1]) +
                                     o_resp['scale'][-1] *
                                     abs(stats.t.ppf(tail_p, dof)))) / abs(cost)
            for name in ('estimate', 'lower', 'upper'):
              if not L.close(_row(rep, name), _row(r1, name) / cost,
                             atol=btol):
                col.violation('C07/fixed/%s=response-%s/cost' % (name, name),
                              inp, ereg if name == 'estimate' else None)
            if not L.close(est, float(o_resp['loc'][-1]) / cost, atol=btol):
              col.violation('C07/fixed/estimate=closed-form', inp, ereg)
            for side in ('lower', 'upper'):
              got = _row(rep, 'incremental_response_' + side)
              if not (L.close(got, _row(rep, side) * cost,
                              atol=btol * abs(cost)) and
                      L.close(got, _row(r1, side), atol=btol * abs(cost))):
                col.violation('C07/fixed/incremental_response_%s' % side, inp)
            if not L.close(_row(rep, 'probability'), _row(r1, 'probability'),
                           atol=1e-12):
              col.violation('C07/fixed/probability', inp)
            if not low <= est <= upp:
              col.violation('C07/fixed/lower<=estimate<=upper', inp, ereg)
          else:
            c_loc = float(o_cost_test['loc'][-1])
            c_scale = float(o_cost_test['scale'][-1])
            nondegenerate = abs(c_loc) > 5.0 * c_scale
            heavy = n_pre <= 4
            median = tails == 1 and level == 0.5
            col.case(key, nontrivial=nondegenerate and not heavy and
                     not median, sample=dict(inp, scenario=scen))
            if not nondegenerate:
              in_domain = False
              continue
            oreg = (REGION_HEAVY if heavy else
                    REGION_MEDIAN if median else None)
            if thr == 0.0:
              again = model.summary(level=level, posterior_threshold=thr,
                                    tails=tails, nsims=NSIMS, random_state=rs)
              fresh = fresh_model.summary(level=level, posterior_threshold=thr,
                                          tails=tails, nsims=NSIMS,
                                          random_state=rs)
              if not (rep.equals(again) and rep.equals(fresh)):
                col.violation('C07/variable/deterministic-given-random_state',
                              inp)
            if not low <= est <= upp:
              col.violation('C07/variable/lower<=estimate<=upper', inp, oreg)
            if not L.close(_row(rep, 'precision'), est - low,
                           atol=1e-9 * (abs(est) + abs(low))):
              col.violation('C07/variable/precision=estimate-lower', inp)
            if not L.close(_row(rep, 'incremental_cost'), c_loc, atol=atol_c):
              col.violation('C07/variable/incremental_cost', inp)
            r_loc = float(o_resp['loc'][-1])
            r_scale = float(o_resp['scale'][-1])
            if not L.close(_row(rep, 'incremental_response'), r_loc,
                           atol=atol_r):
              col.violation('C07/variable/incremental_response', inp)
            qtol = atol_r + 1e-9 * (abs(r_loc) + r_scale * abs(
                stats.t.ppf(tail_p, dof)))
            if not L.close(_row(rep, 'incremental_response_lower'),
                           r_loc + r_scale * stats.t.ppf(tail_p, dof),
                           atol=qtol):
              col.violation('C07/variable/incremental_response_lower', inp)
            exp_up = (np.inf if tails == 1 else
                      r_loc + r_scale * stats.t.ppf(1 - tail_p, dof))
            if not L.close(_row(rep, 'incremental_response_upper'), exp_up,
                           atol=qtol):
              col.violation('C07/variable/incremental_response_upper', inp)
            # independent replay of the paired simulation
            z = stats.t(dof).rvs(NSIMS, random_state=rs)
            den = c_loc + c_scale * z
            sims = (r_loc + r_scale * z) / den
            # a simulated cost within 1e-3 |loc| of zero makes the MEAN of the
            # ratios ill-conditioned (rounding of loc/scale is amplified by
            # |loc|/|den|): outside the non-degenerate-cost domain for the
            # float comparisons of the mean
            well_conditioned = bool(np.min(np.abs(den)) > 1e-3 * abs(c_loc))
            # condition number of the MEAN of the ratios with respect to
            # relative perturbations of the posterior location / scale (the
            # TBR fit is equivariant only up to rounding, ~1e-13): heavy
            # tailed draws (1-2 d.f.) put simulated costs near zero, whose
            # ratios dominate the mean and amplify that rounding
            amp = (abs(c_loc) + np.abs(c_scale * z)) / np.abs(den)
            cond = float(np.sum(np.abs(sims) * amp) / max(
                abs(float(np.sum(sims))), 1e-300))
            well_conditioned = well_conditioned and cond < 1e6
            mean_rtol = max(1e-8, 1e-10 * cond)
            exp = dict(estimate=float(np.mean(sims)),
                       lower=float(np.percentile(sims, 100 * tail_p)),
                       upper=(np.inf if tails == 1 else float(
                           np.percentile(sims, 100 * (1 - tail_p)))),
                       probability=float(np.mean(sims > thr)))
            for name, val in exp.items():
              if name == 'estimate' and not well_conditioned:
                continue
              if not L.close(_row(rep, name), val,
                             rtol=max(1e-7, mean_rtol) if name == 'estimate'
                             else 1e-7,
                             atol=1e-12 if name == 'probability' else 0.0):
                col.violation('C07/variable/%s=function-of-data-and-'
                              'random_state' % name, inp)
        # ---- equivariance (threshold 0), once per (level, tails)
        rs = 1 + int(level * 10) + tails
        scen0 = rep0['scenario'].iloc[0]
        for a, b, m2 in rescaled if in_domain else ():
          inp = dict(spec=sj, use_cooldown=uc, level=level, tails=tails,
                     cost_mult=a, resp_mult=b, nsims=NSIMS, random_state=rs)
          rep2 = m2.summary(level=level, posterior_threshold=0.0, tails=tails,
                            nsims=NSIMS, random_state=rs)
          flips = ((abs(s_non_incr) < 1e-10) != (abs(a * s_non_incr) < 1e-10))
          key = L.short_key('equiv', L.spec_key(spec), uc, level, tails, a, b)
          col.case(key, nontrivial=not flips and well_conditioned,
                   sample=None)
          reg = REGION_FLIP if flips else None
          figs = FIG if well_conditioned else ('lower', 'upper')
          if rep2['scenario'].iloc[0] != scen0:
            col.violation('C07/equivariance/scenario-unchanged', dict(
                inp, non_incremental_cost=s_non_incr), reg)
          # the mean-based figures carry the rounding of the (only
          # approximately equivariant) TBR fit amplified by the conditioning
          # of the mean of heavy-tailed ratios
          est_tol = mean_rtol * abs(_row(rep0, 'estimate') * b / a)
          ok = all(L.close(_row(rep2, c), _row(rep0, c) * b / a,
                           atol=est_tol if c in ('estimate', 'precision')
                           else 0.0)
                   for c in figs)
          ok = ok and all(L.close(_row(rep2, c), _row(rep0, c), atol=1e-12)
                          for c in INV)
          if not ok:
            col.violation('C07/equivariance/figures-scale-by-b/a', dict(
                inp, non_incremental_cost=s_non_incr), reg)
    if col.untagged() > 5:
      return col
  return col


CELLS = ('control-pre', 'treatment-pre', 'control-test')


def _label_tasks(tier, seed):
  rng = np.random.default_rng(seed + 17)
  n_seeds = 2 if tier == 'quick' else 6
  seeds = [int(s) for s in rng.integers(0, 2 ** 31 - 1, n_seeds)]
  tasks = []
  for s in seeds:
    for n_pre in (4, 10, 40):
      for n_cool in L.N_COOL:
        for mask in range(8):
          for amount in (2.0, 1e-6):
            if mask == 0 and amount != 2.0:
              continue
            tasks.append(dict(seed=s, n_pre=n_pre, n_cool=n_cool, mask=mask,
                              amount=amount))
  return tasks


def _label_work(task):
  """Scenario label against the raw cost cells: non-incremental spend is
  placed in any subset of (control pre-period, treatment pre-period, control
  test period); the label must be 'fixed' exactly for the empty subset."""
  from matched_markets.methodology import tbr_iroas
  col = L.Collector()
  spec = L.default_spec(seed=task['seed'], n_pre=task['n_pre'], n_test=3,
                        n_cool=task['n_cool'], cost='zero')
  tot = L.group_totals(spec)
  per = tot['period']
  rng = np.random.default_rng([task['seed'], task['mask']])
  jit = rng.uniform(0.5, 1.5, len(per))
  on = [bool(task['mask'] >> i & 1) for i in range(3)]
  amt = task['amount']
  xc = (np.where(per == L.PRE, amt * jit, 0.0) * on[0] +
        np.where(per == L.TEST, amt * jit, 0.0) * on[2])
  yc = tot['yc'] + np.where(per == L.PRE, amt * jit, 0.0) * on[1]
  frame = L.frame_from_totals(per, tot['xr'], tot['yr'], xc, yc)
  want = 'fixed' if abs(non_incremental_cost(frame)) < 1e-10 else 'variable'
  cells = [c for c, o in zip(CELLS, on) if o]
  for uc in (False, True):
    inp = dict(spec=L.spec_json(spec), cells_with_spend=cells, amount=amt,
               use_cooldown=uc)
    key = L.short_key('label', L.spec_key(spec), task['mask'], amt, uc)
    model = tbr_iroas.TBRiROAS(use_cooldown=uc)
    try:
      model.fit(frame)
      rep = model.summary(level=0.9, tails=1, nsims=200, random_state=1)
    except Exception as e:  # pylint: disable=broad-except
      col.case(key, nontrivial=False,
               sample=dict(inp, raised=type(e).__name__))
      continue
    col.case(key, nontrivial=True,
             sample=dict(inp, scenario=rep['scenario'].iloc[0]))
    if rep['scenario'].iloc[0] != want:
      col.violation('C07/scenario-label', dict(
          inp, non_incremental_cost=non_incremental_cost(frame),
          got=rep['scenario'].iloc[0], want=want))
  return col


def run(tier, seed):
  tasks = _tasks(tier, seed)
  res = base.MonitorResult(
      'experiment frames from mmverif.monitors.tbrlib: n_pre in {3,4,10,40} x '
      'n_test in {1,3,9} x cooldown {0,3} days x cost scenario {zero, '
      'tiny(1e-13), variable} x seeds, presentations (1-4 geos per group, '
      'unassigned geos, extra days, shuffles) cycling; per frame and '
      'use_cooldown in {F,T}: summary(level in {0.5,0.8,0.9}, tails in {1,2}, '
      'posterior_threshold in {0,0.5} (0.5 only with tails=2 in quick), '
      'nsims=2000, random_state) checked '
      'against the TBR response summary / NumPy closed form (fixed) or an '
      'independent replay of the paired simulation (variable), scenario '
      'label against the raw cost totals, and equivariance under (cost x a, '
      'response x b) for 4 power-of-two pairs (2 per frame in quick). non-trivial = non-degenerate '
      'incremental cost (fixed: |cost| > 1e-6 sum|treatment cost|; variable: '
      '|loc| > 5 scale of the cost posterior) outside known-finding regions; '
      'distinct = (spec, use_cooldown, level, tails, threshold | multipliers)',
      exhaustive=False)
  res.bound = ('n_pre <= 40, n_test <= 9, cooldown <= 3, nsims = 2000, %d '
               'frames' % len(tasks))
  L.absorb(res, L.pool_map(_work, tasks))
  ltasks = _label_tasks(tier, seed)
  L.absorb(res, L.pool_map(_label_work, ltasks))
  res.notes.append(
      'scenario-label sweep: %d frames with non-incremental spend (2.0 or '
      '1e-6 per day) in each subset of {control pre-period, treatment '
      'pre-period, control test period}; label must be fixed iff the subset '
      'is empty' % len(ltasks))
  res.notes.append(
      'the non-incremental cost total that decides the scenario label sums '
      'the pre-period costs of EVERY labelled group, unassigned geos '
      'included (NaN-labelled rows are dropped): an unassigned geo with '
      'pre-period spend turns a fixed-cost experiment into the variable-cost '
      'scenario; the generated frames give unassigned geos zero cost in the '
      'zero/tiny scenarios')
  res.notes.append(
      'variable-cost scenario: comparisons of the simulated MEAN (estimate, '
      'precision) to 1e-8 are made only when no simulated cost lies within '
      '1e-3 |loc| of zero and the condition number of the mean of the ratios '
      'w.r.t. the posterior parameters is below 1e4 (heavy-tailed draws '
      'amplify the ~1e-13 rounding of the TBR fit)')
  return res


if __name__ == '__main__':
  import sys
  sys.exit(L.main(run, 'c07'))
