"""C16 run-time contract monitor: GeoEligibility validation and partition.

Exhaustive within the bound: every table with <= N rows over the eight
possible (control, treatment, exclude) rows, two geo-ID schemes (str / int),
'geo' as a column or as the index, every ordered subset of the geos; plus
malformed variants of the accepted tables with <= 2 rows.  The oracle is the
row code table CLASS below (plain Python), independent of the set algebra of
the repository.
"""
import itertools
import multiprocessing
import sys
import warnings

from mmverif import common
from mmverif.props import base

ID = 'C16'

ROWS = [(c, t, x) for c in (0, 1) for t in (0, 1) for x in (0, 1)]
# The class each legal row encodes (property statement / class docstring).
CLASS = {
    (1, 0, 0): 'c_fixed',
    (0, 1, 0): 't_fixed',
    (0, 0, 1): 'x_fixed',
    (1, 1, 0): 'ct',
    (1, 0, 1): 'cx',
    (0, 1, 1): 'tx',
    (1, 1, 1): 'ctx',
}
SEVEN = ['c_fixed', 't_fixed', 'x_fixed', 'ct', 'cx', 'tx', 'ctx']
FIELDS = ['all', 'c', 't', 'x'] + SEVEN
VALUE_COLS = ['control', 'treatment', 'exclude']
# Geo IDs deliberately not in sorted order.
STR_IDS = ['gb', 'ga', 'gd', 'gc', 'ge']
INT_IDS = [10, 2, 33, 4, 15]
MAX_VIOLATIONS = 5


def _init(repo):
  warnings.simplefilter('ignore')
  if repo in sys.path:
    sys.path.remove(repo)
  sys.path.insert(0, repo)


def _absorb(res, part):
  res.evaluations += part.evaluations
  res.nontrivial |= part.nontrivial
  for s in part.samples:
    if len(res.samples) < 5:
      res.samples.append(s)
  res.violations.extend(part.violations)
  res.notes.extend(part.notes)


def _expected(rows_by_ref):
  """Oracle: dict ref -> (c, t, x) row  =>  dict field -> set of refs."""
  exp = {f: set() for f in FIELDS}
  for ref, row in rows_by_ref.items():
    exp['all'].add(ref)
    if row[0] == 1:
      exp['c'].add(ref)
    if row[1] == 1:
      exp['t'].add(ref)
    if row[2] == 1:
      exp['x'].add(ref)
    exp[CLASS[row]].add(ref)
  return exp


def _frame(pd, ids, rows, form):
  df = pd.DataFrame({
      'geo': list(ids),
      'control': [r[0] for r in rows],
      'treatment': [r[1] for r in rows],
      'exclude': [r[2] for r in rows]})
  if form == 'index':
    df = df.set_index('geo')
  return df


def _construct(geoeligibility, df):
  """Returns ('ok', obj) | ('ValueError', msg) | ('other', repr)."""
  try:
    return 'ok', geoeligibility.GeoEligibility(df)
  except ValueError as e:
    return 'ValueError', str(e)[:200]
  except Exception as e:  # pylint: disable=broad-except
    return 'other', repr(e)[:300]


def _check_assignments(res, ge, sids, rows, inp):
  """All ordered subsets of the geos, IDs and positions."""
  row_of = dict(zip(sids, rows))
  n = len(sids)

  def compare(got, exp, what, extra):
    bad = None
    for f in FIELDS:
      val = getattr(got, f, None)
      if not isinstance(val, (set, frozenset)) or set(val) != exp[f]:
        bad = 'class %s: got %r, expected %r' % (f, val, sorted(
            exp[f], key=str))
        break
    if bad is None:
      # Explicit partition check (implied by the above, kept independent).
      union = set()
      total = 0
      for f in SEVEN:
        union |= set(getattr(got, f))
        total += len(getattr(got, f))
      if union != exp['all'] or total != len(exp['all']):
        bad = 'seven classes do not partition the geos'
    if bad is not None and len(res.violations) < MAX_VIOLATIONS:
      d = dict(inp)
      d.update(extra)
      d['detail'] = bad
      res.violation(what, d)

  # geos=None.
  key = (inp['ids'], inp['form'], rows, None, False)
  res.case(key, nontrivial=n > 0)
  try:
    got = ge.get_eligible_assignments()
  except Exception as e:  # pylint: disable=broad-except
    res.violation('C16/assignments/none:exception',
                  dict(inp, exception=repr(e)[:300]))
  else:
    compare(got, _expected(row_of), 'C16/assignments/none=all-geos',
            {'geos': None, 'indices': False})
  # geos=None, indices=True must raise ValueError.
  res.case((inp['ids'], inp['form'], rows, None, True), nontrivial=True)
  try:
    ge.get_eligible_assignments(indices=True)
  except ValueError:
    pass
  except Exception as e:  # pylint: disable=broad-except
    res.violation('C16/assignments/indices-without-geos:wrong-exception',
                  dict(inp, exception=repr(e)[:300]))
  else:
    res.violation('C16/assignments/indices-without-geos:no-ValueError', inp)

  for k in range(0, n + 1):
    for order in itertools.permutations(range(n), k):
      geos = [sids[i] for i in order]
      for indices in (False, True):
        key = (inp['ids'], inp['form'], rows, order, indices)
        sample = None
        if k == n and n >= 2 and indices:
          sample = dict(inp, geos=geos, indices=indices)
        res.case(key, nontrivial=k > 0, sample=sample)
        if indices:
          exp = _expected({pos: row_of[g] for pos, g in enumerate(geos)})
        else:
          exp = _expected({g: row_of[g] for g in geos})
        try:
          got = ge.get_eligible_assignments(list(geos), indices=indices)
        except Exception as e:  # pylint: disable=broad-except
          if len(res.violations) < MAX_VIOLATIONS:
            res.violation('C16/assignments/exception',
                          dict(inp, geos=geos, indices=indices,
                               exception=repr(e)[:300]))
          continue
        compare(got, exp,
                'C16/assignments/positions-in-given-order' if indices
                else 'C16/assignments/classes-partition-by-row-code',
                {'geos': geos, 'indices': indices})
      if len(res.violations) >= MAX_VIOLATIONS:
        return


def _table_task(rows):
  """One table: 2 ID schemes x 2 forms, validation + all ordered subsets."""
  import pandas as pd
  from matched_markets.methodology import geoeligibility
  res = base.MonitorResult('')
  n = len(rows)
  legal = all(r != (0, 0, 0) for r in rows)
  for scheme, ids in (('str', STR_IDS[:n]), ('int', INT_IDS[:n])):
    sids = [str(i) for i in ids]
    for form in ('column', 'index'):
      inp = {'ids': scheme, 'form': form, 'geo': list(ids),
             'rows': [list(r) for r in rows]}
      df = _frame(pd, ids, rows, form)
      before = df.copy(deep=True)
      status, obj = _construct(geoeligibility, df)
      res.case(('validate', scheme, form, rows), nontrivial=True,
               sample=inp if (n == 3 and scheme == 'int') else None)
      if status == 'other':
        res.violation('C16/validate/wrong-exception-type',
                      dict(inp, exception=obj))
        continue
      if legal and status != 'ok':
        res.violation('C16/validate/legal-table-rejected',
                      dict(inp, exception=obj))
        continue
      if not legal and status == 'ok':
        res.violation('C16/validate/zero-row-accepted', inp)
        continue
      if not before.equals(df):
        res.violation('C16/validate/caller-frame-modified', inp)
      if status != 'ok':
        continue
      data = obj.data
      if (list(data.index) != sids or
          list(data.columns) != VALUE_COLS or
          [tuple(int(v) for v in r) for r in data.to_numpy()] != list(rows)):
        res.violation('C16/validate/data-indexed-by-str-geo', inp)
        continue
      _check_assignments(res, obj, sids, rows, inp)
      if len(res.violations) >= MAX_VIOLATIONS:
        return res
  return res


def _malformed_task(rows):
  """Malformed variants of one accepted table (1 or 2 rows)."""
  import numpy as np
  import pandas as pd
  from matched_markets.methodology import geoeligibility
  res = base.MonitorResult('')
  n = len(rows)
  ids = STR_IDS[:n]
  good = _frame(pd, ids, rows, 'column')
  cols = ['geo'] + VALUE_COLS

  def expect(kind, df, must_accept, inp):
    status, obj = _construct(geoeligibility, df)
    res.case(('malformed', kind, rows), nontrivial=True,
             sample=dict(inp, variant=kind) if n == 2 and len(
                 res.samples) < 2 else None)
    d = dict(inp, variant=kind, rows=[list(r) for r in rows])
    if status == 'other':
      res.violation('C16/validate/wrong-exception-type',
                    dict(d, exception=obj))
    elif must_accept and status != 'ok':
      res.violation('C16/validate/legal-table-rejected',
                    dict(d, exception=obj))
    elif not must_accept and status == 'ok':
      res.violation('C16/validate/malformed-accepted', d)

  # Missing column(s): every non-empty subset of the four columns.
  for k in range(1, 5):
    for drop in itertools.combinations(cols, k):
      expect('missing:' + '+'.join(drop), good.drop(columns=list(drop)),
             False, {'dropped': list(drop)})
      # Same with 'geo' as index (then only value columns can be missing).
      if 'geo' not in drop:
        expect('missing-geo-index:' + '+'.join(drop),
               good.set_index('geo').drop(columns=list(drop)), False,
               {'dropped': list(drop), 'form': 'index'})
  # Duplicated column (each of the four).
  for dup in cols:
    names = cols + [dup]
    vals = [[good[c][i] for c in names] for i in range(n)]
    expect('dup-column:' + dup, pd.DataFrame(vals, columns=names), False,
           {'columns': names})
  # 'geo' both index and column.
  both = good.copy()
  both.index = pd.Index(ids, name='geo')
  expect('geo-index-and-column', both, False, {})
  # Extra unrelated column / unnamed non-default index: still accepted.
  extra = good.copy()
  extra['note'] = 'n'
  expect('extra-column', extra, True, {})
  expect('column-order', good[['exclude', 'geo', 'treatment', 'control']],
         True, {})
  # Float-typed 0.0 / 1.0 entries are entries in {0, 1}.
  expect('float-entries', good.astype({c: float for c in VALUE_COLS}), True,
         {})
  # Bad entries at each (row, column).
  bads = [('2', 2), ('-1', -1), ('0.5', 0.5), ('nan', np.nan),
          ('3.0', 3.0), ('-inf', -np.inf)]
  for i in range(n):
    for c in VALUE_COLS:
      for name, bad in bads:
        df = good.copy()
        vals = [int(v) for v in good[c]]
        vals[i] = bad
        df[c] = vals
        expect('entry:%s@%d.%s' % (name, i, c), df, False,
               {'row': i, 'column': c, 'entry': name})
  # Duplicate geo IDs (also after conversion to str).
  if n >= 2:
    for name, dup_ids in (('a,a', ['a', 'a']), ('1,"1"', [1, '1']),
                          ('1,1', [1, 1]), ('"1","1"', ['1', '1']),
                          ('1.0,"1.0"', [1.0, '1.0'])):
      df = good.copy()
      df['geo'] = pd.Series(dup_ids, dtype=object)
      expect('dup-geo:' + name, df, False, {'geo': [repr(g) for g in dup_ids]})
      expect('dup-geo-index:' + name, df.set_index('geo'), False,
             {'geo': [repr(g) for g in dup_ids], 'form': 'index'})
    # 1 and '01' are different IDs: accepted.
    df = good.copy()
    df['geo'] = pd.Series([1, '01'], dtype=object)
    expect('distinct-geo:1,"01"', df, True, {})
  return res


def _triple_dup_task(_):
  """Three-row tables with a non-adjacent duplicate geo ID."""
  import pandas as pd
  from matched_markets.methodology import geoeligibility
  res = base.MonitorResult('')
  for ids in (['a', 'b', 'a'], [1, 2, '1'], ['2', 7, 2]):
    for rows in itertools.product([(1, 1, 1), (1, 0, 0), (0, 0, 1)], repeat=3):
      df = pd.DataFrame({'geo': pd.Series(ids, dtype=object),
                         'control': [r[0] for r in rows],
                         'treatment': [r[1] for r in rows],
                         'exclude': [r[2] for r in rows]})
      status, obj = _construct(geoeligibility, df)
      res.case(('dup3', tuple(repr(i) for i in ids), rows), nontrivial=True)
      inp = {'geo': [repr(i) for i in ids], 'rows': [list(r) for r in rows]}
      if status == 'other':
        res.violation('C16/validate/wrong-exception-type',
                      dict(inp, exception=obj))
      elif status == 'ok':
        res.violation('C16/validate/malformed-accepted',
                      dict(inp, variant='dup-geo'))
  return res


def run(tier, seed):
  del seed  # The enumeration is exhaustive; nothing is random.
  warnings.simplefilter('ignore')
  max_rows = 3 if tier == 'quick' else 4
  res = base.MonitorResult(
      'EXHAUSTIVE: every table with <= %d rows over the 8 (control, treatment, '
      'exclude) rows incl. the illegal (0,0,0), geo IDs given as str or as int '
      '(queried as str), geo as column or as index: accepted iff no zero row; '
      'for every accepted table every permutation of every subset of its geos '
      '(incl. the empty list and geos=None) with indices False/True against '
      'the row-code oracle; malformed variants (missing column subsets, '
      'duplicated column, geo both index and column, duplicate geo IDs incl. '
      '1 vs \'1\', entries 2/-1/0.5/NaN/3.0/-inf) of every accepted table '
      'with <= 2 rows must raise ValueError, benign variants (extra column, '
      'column order, float 0.0/1.0) must be accepted. Non-trivial = every '
      'validation decision, and every assignment query with a non-empty geo '
      'list; distinct = (ID scheme, form, rows, order, indices) resp. '
      '(variant, rows)' % max_rows, exhaustive=True)
  res.bound = ('tables with <= %d rows; malformed variants of accepted tables '
               'with <= 2 rows' % max_rows)
  tables = []
  for n in range(0, max_rows + 1):
    tables.extend(itertools.product(ROWS, repeat=n))
  legal_small = [t for t in tables
                 if 1 <= len(t) <= 2 and all(r != (0, 0, 0) for r in t)]
  nproc = min(14, multiprocessing.cpu_count())
  ctx = multiprocessing.get_context('fork')
  with ctx.Pool(nproc, initializer=_init, initargs=(common.REPO,)) as pool:
    j1 = pool.map_async(_table_task, tables[::-1], chunksize=8)
    j2 = pool.map_async(_malformed_task, legal_small, chunksize=2)
    j3 = pool.map_async(_triple_dup_task, [0])
    parts = j1.get()[::-1] + j2.get() + j3.get()
  for p in parts:
    _absorb(res, p)
  # Smallest witnesses first.
  res.violations.sort(key=lambda v: len(repr(v['input'])))
  res.violations = res.violations[:MAX_VIOLATIONS]
  return res


if __name__ == '__main__':
  import argparse
  import time
  ap = argparse.ArgumentParser()
  ap.add_argument('--tier', default='quick')
  ap.add_argument('--seed', type=int, default=0)
  a = ap.parse_args()
  _init(common.REPO)
  t0 = time.time()
  r = run(a.tier, a.seed)
  print('C16 tier=%s evaluations=%d distinct_nontrivial=%d violations=%d '
        'exhaustive=%s wall=%.1fs' % (a.tier, r.evaluations, len(r.nontrivial),
                                      len(r.violations), r.exhaustive,
                                      time.time() - t0))
  for v in r.violations[:5]:
    print('VIOLATION', v['what'], v['region'], common.jsonable(v['input']))
