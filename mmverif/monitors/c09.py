"""C09 run-time contract: the searches are total (list or ValueError)."""
import itertools

import numpy as np

from mmverif.monitors import searchlib as sl
from mmverif.props import base

# degenerate parameter settings (on top of n_test / iroas defaults)
PARS = [
    {},
    {'treatment_geos_range': [5, 6]},                 # above the geo count
    {'control_geos_range': [5, 6]},
    {'treatment_geos_range': [4, 6], 'control_geos_range': [4, 6]},
    {'treatment_geos_range': [1, 3], 'geo_ratio_tolerance': 0.5},
    {'geo_ratio_tolerance': 0.01},
    {'geo_ratio_tolerance': 1.0, 'volume_ratio_tolerance': 0.5},
    {'treatment_geos_range': [1, 1], 'control_geos_range': [3, 6],
     'geo_ratio_tolerance': 0.5},                     # unsatisfiable
    {'treatment_geos_range': [2, 3], 'control_geos_range': [1, 1],
     'geo_ratio_tolerance': 0.01},                    # unsatisfiable
    {'volume_ratio_tolerance': 0.001},
    {'treatment_share_range': [0.01, 0.02]},
    {'treatment_share_range': [0.9, 0.95], 'volume_ratio_tolerance': 0.5},
    {'budget_mult': [0.0, 0.01]},
    {'budget_mult': [500.0, 600.0]},
    {'budget_mult': [0.0, 3.0], 'treatment_share_range': [0.1, 0.5],
     'geo_ratio_tolerance': 0.5},
    {'n_geos_max': 2},
    {'n_geos_max': 2, 'treatment_geos_range': [2, 3]},
    {'n_test': 14, 'n_pretest_max': 20},
    # analysis window exactly n_test + 3 dates (the smallest the property
    # admits): 3 pre-test points remain for the A/A test
    {'n_test': 14, 'n_pretest_max': 17},
    {'n_test': 7, 'n_pretest_max': 10},
    {'n_test': 7, 'n_pretest_max': 10, 'n_designs': 3,
     'geo_ratio_tolerance': 1.0},
    {'n_test': 14, 'n_pretest_max': 20, 'treatment_geos_range': [1, 3],
     'geo_ratio_tolerance': 1.0},
    {'n_test': 30},                                   # precondition fails
    # accepted parameter objects holding integer-valued floats
    {'n_test': 7.0}, {'n_geos_max': 3.0}, {'n_pretest_max': 20.0},
    {'treatment_geos_range': [1.0, 2.0]}, {'control_geos_range': [1.0, 3.0]},
    {'n_designs': 2.0},
]
# eligibility shapes per geo count (codes: 0 c, 1 t, 2 x, 3 ct, 4 cx, 5 tx,
# 6 ctx, -1 absent)
def _tables(n):
  tabs = [None]
  for code in range(7):
    tabs.append([code] * n)                  # no control- / treatment-eligible
  if n >= 2:
    tabs += [[0] * (n - 1) + [1], [1] * (n - 1) + [0],   # all geos fixed
             [2] * (n - 1) + [6], [2] * (n - 1) + [1],   # all but one excluded
             [4] * (n - 1) + [5], [3] * (n - 1) + [2],
             [-1] * (n - 1) + [6], [6] * (n - 1) + [-1]]
  if n >= 3:
    tabs += [[0, 1] + [2] * (n - 2), [1, 1] + [0] * (n - 2),
             [3, 3] + [1] * (n - 2), [5] * (n - 1) + [0]]
  return tabs


def _specs(tier, seed):
  rng = np.random.default_rng([int(seed), 9])
  quick = tier == 'quick'
  specs = []
  for n in (1, 2, 3) if quick else (1, 2, 3, 4):
    panels = sl.panel_specs(n, rng, 4 if quick else 8)
    for i, (table, par) in enumerate(itertools.product(_tables(n), PARS)):
      for rep in range(1 if quick else 2):
        specs.append({'panel': panels[(i + i // len(PARS) + rep) % len(panels)],
                      'elig': table, 'par': par})
  # long test period: dummy 100-point seed series of the greedy search
  for n in (2, 3):
    for noise in sl.NOISE_LEVELS:
      panel = {'n_geos': n, 'n_days': 130, 'noise': noise,
               'seed': int(rng.integers(10**6)), 'missing': 0,
               'shuffle': False, 'ids': 'str'}
      for table in (None, [6] * (n - 1) + [1], [0] * n):
        for n_test in (98, 110):
          specs.append({'panel': panel, 'elig': table, 'par': {
              'n_test': n_test, 'n_pretest_max': 130}})
          specs.append({'panel': panel, 'elig': table, 'par': {
              'n_test': n_test, 'n_pretest_max': 130,
              'treatment_geos_range': [1, 3], 'geo_ratio_tolerance': 1.0}})
  return specs


def _worker(spec):
  out = {'cases': [], 'viol': [], 'notes': [], 'stats': {}}
  case = sl.Case(spec)
  orc = case.oracle()
  pre = orc.precondition_c09()
  mm0, err = sl.try_call(case.new_mm)
  if err is not None or not pre:
    out['stats']['not-accepted-or-precondition-false'] = 1
    if err is not None and not isinstance(err, ValueError):
      out['notes'].append('constructor raised %s (outside C09: input not '
                          'accepted)' % type(err).__name__)
    out['cases'].append((sl.key_of(spec), False, None))
    return out
  for which in ('exhaustive', 'greedy'):
    designs, err, _ = sl.run_search(case, which)
    outcome = ('ValueError' if isinstance(err, ValueError) else
               type(err).__name__ if err is not None else
               'list[%d]' % len(designs) if isinstance(designs, list) else
               'non-list:' + type(designs).__name__)
    degenerate = isinstance(err, ValueError) or designs == []
    out['cases'].append((sl.key_of(spec, which), degenerate,
                         {'search': which, 'outcome': outcome, 'spec': spec}))
    k = 'outcome-' + ('empty-list' if designs == [] else
                      'designs' if err is None else outcome)
    out['stats'][k] = out['stats'].get(k, 0) + 1
    if isinstance(err, sl.SearchTimeout):
      out['viol'].append((
          'C09/%s/does-not-terminate' % which,
          case.describe(search=which, message=str(err)), None))
    elif err is not None and not isinstance(err, ValueError):
      out['viol'].append((
          'C09/%s/raises-%s' % (which, type(err).__name__),
          case.describe(search=which, exception=type(err).__name__,
                        message=str(err)[:300]), None))
    elif err is None and not isinstance(designs, list):
      out['viol'].append(('C09/%s/returns-non-list' % which,
                          case.describe(search=which, outcome=outcome), None))
  return out


def run(tier, seed):
  specs = _specs(tier, seed)
  res = base.MonitorResult(
      'C09: enumerated degenerate inputs: 1-%d geos x eligibility shapes (no '
      'object; all rows of one type, i.e. no control-eligible / no '
      'treatment-eligible / all excluded; all geos fixed; all but one '
      'excluded; geos absent from the table) x %d parameter settings (size '
      'ranges above the geo count, geo-ratio tolerance with empty groups, '
      'mutually unsatisfiable combinations, tiny/huge share and budget '
      'ranges, n_geos_max=2, n_test=14 with a 20-day window) plus 130-day '
      'panels with n_test in {98,110}, n_pretest_max=130; both searches must '
      'return a list or raise ValueError. Precondition (window >= n_test+3 '
      'points, non-constant series) is recomputed from the raw frame. '
      'non-trivial = precondition held, input accepted and the search '
      'answered with [] or ValueError (the degenerate branch); distinct = '
      '(case spec, search)' % (3 if tier == 'quick' else 4, len(PARS)))
  res.bound = 'n_geos <= %d, %d cases x 2 searches' % (
      3 if tier == 'quick' else 4, len(specs))
  return sl.sweep(res, _worker, specs)


if __name__ == '__main__':
  sl.main(run, 'c09')
