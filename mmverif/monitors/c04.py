"""C04 run-time contract: diagnostics and score belong to the reported geos."""
import numpy as np

from mmverif.monitors import searchlib as sl
from mmverif.props import base


def _series_equal(a, b):
  a, b = np.asarray(a, dtype=float), np.asarray(b, dtype=float)
  return a.shape == b.shape and bool(
      np.allclose(a, b, rtol=sl.RTOL, atol=1e-9))


def _design_failures(orc, d, exhaustive):
  t_set, c_set = sl.design_sets(d)
  rec = orc.evaluate(t_set, c_set)
  fresh = orc.M.Diag(rec.y, orc.par)      # fresh objects from the two series
  fresh.x = rec.x
  want = tuple(orc.M.Score(fresh).score)
  if exhaustive and orc.par.budget_range is not None:
    want = want[:5] + (orc.par.budget_range[1] / float(
        fresh.required_impact),)
  bad = []
  if d.diag is None or d.diag.x is None:
    return ['diagnostics-missing']
  if not _series_equal(d.diag.y, rec.y):
    bad.append('treatment-series')
  if not _series_equal(d.diag.x, rec.x):
    bad.append('control-series')
  if not sl.close(d.diag.corr, fresh.corr):
    bad.append('corr')
  if not sl.close(d.diag.required_impact, fresh.required_impact):
    bad.append('required-impact')
  got_tests = (bool(d.diag.corr_test), bool(d.diag.aatest.test_ok),
               bool(d.diag.bbtest.test_ok), bool(d.diag.dwtest.test_ok))
  want_tests = (bool(fresh.corr_test), bool(fresh.aatest.test_ok),
                bool(fresh.bbtest.test_ok), bool(fresh.dwtest.test_ok))
  if got_tests != want_tests:
    bad.append('test-outcomes')
  got = sl.score_tuple(d)
  if sl.has_nan(got) or sl.has_nan(want):
    if not all(sl.close(a, b) for a, b in zip(got, want)):
      bad.append('score')
  elif not sl.score_close(got, want):
    bad.append('score')
  return bad


def _worker(spec):
  case = sl.Case(spec)
  orc = case.oracle()
  out = {'cases': [], 'viol': [], 'notes': [], 'stats': {}}
  for which in ('exhaustive', 'greedy'):
    designs, err, stage = sl.run_search(case, which)
    if err is not None:
      out['notes'].append('%s %s raised %s (case counted as trivial)' % (
          which, stage, type(err).__name__))
      designs = []
    out['cases'].append((sl.key_of(spec, which), bool(designs),
                         {'search': which, 'n_designs_returned': len(designs),
                          'spec': spec}))
    out['stats']['designs-checked'] = out['stats'].get(
        'designs-checked', 0) + len(designs)
    if len(designs) > 1:
      out['stats']['cases-with-2+-positions'] = out['stats'].get(
          'cases-with-2+-positions', 0) + 1
    seen = set()
    for pos, d in enumerate(designs):
      t_set, c_set = sl.design_sets(d)
      if (not t_set or not c_set or (t_set | c_set) - set(orc.geos)):
        out['notes'].append('illegal design skipped (C01 domain)')
        continue
      for clause in _design_failures(orc, d, which == 'exhaustive'):
        if clause in seen:
          continue
        seen.add(clause)
        out['viol'].append((
            'C04/%s/%s' % (which, clause),
            case.describe(search=which, position=pos,
                          treatment=sorted(t_set), control=sorted(c_set),
                          reported_score=list(sl.score_tuple(d))), None))
  return out


def run(tier, seed):
  quick = tier == 'quick'
  rng = np.random.default_rng([int(seed), 4])
  pars = sl.par_specs(rng, 200 if quick else 600, n_designs=(1, 3, 8),
                      p_present=0.3)
  specs = sl.case_specs(seed, enum_geos=(2, 3) if quick else (1, 2, 3, 4),
                        sample_geos=(4, 5) if quick else (5, 6),
                        n_sample=220 if quick else 400, pars=pars,
                        reps=1 if quick else 2, n_default=16, salt=4)
  res = base.MonitorResult(
      'C04: eligibility multisets / seeded tables / no-eligibility cases up '
      'to %d geos x seeded panels (missing cells, shuffled rows, int IDs, '
      'n_pretest_max 90/20) x parameter objects with n_designs in {1,3,8}; '
      'both searches; for every position of the result list the series of '
      'design.diag are compared with sums over the reported IDs recomputed '
      'from the raw long frame (last n_pretest_max dates), and corr, required '
      'impact, four test outcomes and score tuple with fresh TBRMMDiagnostics '
      '/ TBRMMScore objects built from those series. non-trivial = at least '
      'one design returned; distinct = (case spec, search)' %
      (5 if quick else 6))
  res.bound = 'n_geos <= %d, n_designs <= 8, %d cases x 2 searches' % (
      5 if quick else 6, len(specs))
  return sl.sweep(res, _worker, specs)


if __name__ == '__main__':
  sl.main(run, 'c04')
