"""C15 run-time contract monitor: TBRMMData is a faithful canonical object.

Enumerated small long-format frames and eligibility tables; every attribute of
the object is compared with a plain-Python recomputation from the raw rows
(dict (geo, date) -> value); no pandas operation of the repository is reused
by the oracle.
"""
import itertools
import multiprocessing
import sys
import warnings

from mmverif import common
from mmverif.props import base

ID = 'C15'
MAX_VIOLATIONS = 5
# OrderedGeos = Union[List, Tuple] in tbrmmdata.py: a tuple is a documented
# way to give the geo index.  Probed once per object; failures are tagged.
PROBE_TUPLE_GEO_INDEX = False
REGION_TUPLE = 'C15:geo_index-tuple'

CLASS = {
    (1, 0, 0): 'c_fixed', (0, 1, 0): 't_fixed', (0, 0, 1): 'x_fixed',
    (1, 1, 0): 'ct', (1, 0, 1): 'cx', (0, 1, 1): 'tx', (1, 1, 1): 'ctx',
}
LEGAL_ROWS = list(CLASS)
EXCLUDABLE_ROWS = [r for r in LEGAL_ROWS if r[2] == 1]
REQUIRED_ROWS = [r for r in LEGAL_ROWS if r[2] == 0]
SEVEN = ['c_fixed', 't_fixed', 'x_fixed', 'ct', 'cx', 'tx', 'ctx']
FIELDS = ['all', 'c', 't', 'x'] + SEVEN

INT_IDS = [7, 12, 3, 105, 41]
STR_IDS = ['nyc', 'la', 'sf', 'bos', 'aus']
EXTRA_INT_IDS = [900, 901]
EXTRA_STR_IDS = ['zz1', 'zz2']
# Non-contiguous days across a month and a year boundary (chronological).
DAYS = ['2019-12-29', '2019-12-31', '2020-01-01', '2020-01-15', '2020-02-28',
        '2020-02-29', '2020-03-01', '2020-10-05']


def _init(repo):
  warnings.simplefilter('ignore')
  if repo in sys.path:
    sys.path.remove(repo)
  sys.path.insert(0, repo)


def _close(a, b):
  a, b = float(a), float(b)
  return a == b or abs(a - b) <= 1e-8 * max(abs(a), abs(b)) + 1e-12


# ----------------------------------------------------------------- generators
def _frame_spec_rows(spec, seed):
  """Raw long-format rows [(geo_raw, day_index, value)] of a frame spec.

  Values are positive multiples of 0.25 (sums are exact in floating point).
  """
  import numpy as np
  n_geos, n_dates, id_kind, _, missing, tie, shuffle, _ = spec
  rng = np.random.default_rng([seed, 151, n_geos, n_dates,
                               int(id_kind == 'int'),
                               {'none': 0, 'cells': 1, 'sparse': 2}[missing],
                               int(tie), shuffle, spec[7]])
  ids = (INT_IDS if id_kind == 'int' else STR_IDS)[:n_geos]
  level = rng.permutation(n_geos) + 1          # sizes not in ID order
  val = np.zeros((n_geos, n_dates))
  for g in range(n_geos):
    val[g] = 10.0 * level[g] + rng.integers(1, 40, size=n_dates) * 0.25
  first_free = 0
  if tie:
    val[1] = val[0][::-1]                      # same total, different series
    first_free = 2
  drop = set()
  if missing == 'cells':
    for g in range(first_free, n_geos):
      for d in range(n_dates):
        if rng.random() < 0.25:
          drop.add((g, d))
      if all((g, d) in drop for d in range(n_dates)):
        drop.discard((g, 0))
  elif missing == 'sparse' and first_free < n_geos:
    g = first_free + int(rng.integers(n_geos - first_free))
    keep = int(rng.integers(n_dates))
    for d in range(n_dates):
      if d != keep:
        drop.add((g, d))
  rows = [(ids[g], d, float(val[g, d])) for g in range(n_geos)
          for d in range(n_dates) if (g, d) not in drop]
  order = rng.permutation(len(rows)) if shuffle else range(len(rows))
  return [rows[int(i)] for i in order], ids


def _elig_tables(spec, ids, rng):
  """[(label, [(geo_raw, row)])] or (label, None)."""
  n = len(ids)
  id_kind = spec[2]
  extra = EXTRA_INT_IDS if id_kind == 'int' else EXTRA_STR_IDS

  def draw(geos):
    tab = [(g, LEGAL_ROWS[int(rng.integers(7))]) for g in geos]
    return [tab[int(i)] for i in rng.permutation(len(tab))]

  out = [('none', None)]
  out.append(('equal', draw(ids)))
  out.append(('equal', draw(ids)))
  # Every geo must-exclude but one; every row type on the largest table.
  out.append(('equal-all-types', [(g, LEGAL_ROWS[(i + spec[6] + spec[1]) % 7])
                                  for i, g in enumerate(ids)]))
  k = int(rng.integers(1, n))
  sub = [ids[int(i)] for i in rng.permutation(n)[:k]]
  out.append(('subset', draw(sub)))
  # IDs of the other kind (int in data, str in table and vice versa).
  if id_kind == 'int':
    out.append(('equal-str-ids', [(str(g), r) for g, r in draw(ids)]))
  ex1 = [(extra[0], EXCLUDABLE_ROWS[int(rng.integers(4))])]
  ex2 = ex1 + [(extra[1], EXCLUDABLE_ROWS[int(rng.integers(4))])]
  t = draw(ids) + ex2
  out.append(('exceeding-excludable',
              [t[int(i)] for i in rng.permutation(len(t))]))
  t = draw(sub) + ex1
  out.append(('subset+exceeding-excludable',
              [t[int(i)] for i in rng.permutation(len(t))]))
  t = draw(ids) + [(extra[0], REQUIRED_ROWS[int(rng.integers(3))])]
  out.append(('exceeding-required',
              [t[int(i)] for i in rng.permutation(len(t))]))
  t = draw(ids) + ex1 + [(extra[1], REQUIRED_ROWS[int(rng.integers(3))])]
  out.append(('exceeding-mixed', t))
  out.append(('disjoint-excludable', list(ex2)))
  return out


def _expected_classes(rows_by_ref):
  exp = {f: set() for f in FIELDS}
  for ref, row in rows_by_ref.items():
    exp['all'].add(ref)
    for j, f in enumerate('ctx'):
      if row[j] == 1:
        exp[f].add(ref)
    exp[CLASS[row]].add(ref)
  return exp


def _classes_differ(got, exp):
  for f in FIELDS:
    val = getattr(got, f, None)
    if not isinstance(val, (set, frozenset)) or set(val) != exp[f]:
      return 'class %s: got %r, expected %r' % (f, val, sorted(exp[f],
                                                                key=str))
  return None


def _orders(assignable_sorted, rng, tier):
  a = list(assignable_sorted)
  if len(a) <= 3:
    return [list(p) for k in range(0, len(a) + 1)
            for p in itertools.permutations(a, k)]
  out = [[], list(a), list(a[::-1])]
  n_more = 6 if tier == 'quick' else 20
  for _ in range(n_more):
    k = int(rng.integers(1, len(a) + 1))
    out.append([a[int(i)] for i in rng.permutation(len(a))[:k]])
  uniq = []
  for o in out:
    if o not in uniq:
      uniq.append(o)
  return uniq


# --------------------------------------------------------------------- worker
def _frame_task(task):
  import numpy as np
  import pandas as pd
  from matched_markets.methodology import geoeligibility
  from matched_markets.methodology import tbrmmdata
  spec, tier, seed = task
  n_geos, n_dates, id_kind, date_kind, missing, tie, shuffle, _ = spec
  res = base.MonitorResult('')
  rows, ids = _frame_spec_rows(spec, seed)
  rng = np.random.default_rng([
      seed, 15, n_geos, n_dates, shuffle, spec[7], int(tie),
      {'none': 0, 'cells': 1, 'sparse': 2}[missing], int(id_kind == 'int'),
      int(date_kind == 'ts')])
  if date_kind == 'ts':
    day = [pd.Timestamp(d) for d in DAYS]
  else:
    day = list(DAYS)
  response = 'sales' if spec[7] % 2 == 0 else 'response'
  data = {'date': [day[d] for _, d, _ in rows],
          'geo': [g for g, _, _ in rows],
          response: [v for _, _, v in rows]}
  if spec[7] % 2 == 1:
    data['cost'] = [1.0] * len(rows)      # an unrelated extra column
  cols = ['date', 'geo', response] + (['cost'] if 'cost' in data else [])
  if shuffle:
    cols = cols[::-1]
  frame = pd.DataFrame(data)[cols]
  spec_d = {'n_geos': n_geos, 'n_dates': n_dates, 'geo_ids': id_kind,
            'dates': date_kind, 'missing': missing, 'tie': bool(tie),
            'shuffle': shuffle, 'variant': spec[7],
            'response_column': response,
            'rows': [[g, DAYS[d], v] for g, d, v in rows]}

  # ---- oracle from the raw rows
  cell = {}
  for g, d, v in rows:
    assert (str(g), d) not in cell
    cell[str(g), d] = v
  geos = sorted({str(g) for g, _, _ in rows})
  dates = sorted({d for _, d, _ in rows})           # day indices, chronological
  total = {g: sum(cell.get((g, d), 0.0) for d in dates) for g in geos}
  grand = sum(total.values())
  share = {g: total[g] / grand for g in geos}

  def series(g):
    return [cell.get((g, d), 0.0) for d in dates]

  def viol(what, extra, region=None):
    if len(res.violations) < MAX_VIOLATIONS:
      d = dict(spec_d)
      d.update(extra)
      res.violation(what, d, region=region)

  tuple_probed = False
  for ei, (label, table) in enumerate(_elig_tables(spec, ids, rng)):
    einp = {'eligibility': label,
            'eligibility_rows': None if table is None else [
                [g, list(r)] for g, r in table]}
    if table is None:
      elig = None
      elig_rows = {g: (1, 1, 1) for g in geos}
      absent_required = []
    else:
      elig = geoeligibility.GeoEligibility(pd.DataFrame({
          'geo': pd.Series([g for g, _ in table], dtype=object),
          'control': [r[0] for _, r in table],
          'treatment': [r[1] for _, r in table],
          'exclude': [r[2] for _, r in table]}))
      elig_rows = {str(g): r for g, r in table if str(g) in set(geos)}
      absent_required = sorted(str(g) for g, r in table
                               if str(g) not in geos and r[2] == 0)
    key = (spec, ei)
    try:
      obj = tbrmmdata.TBRMMData(frame.copy(), response, elig)
      status = 'ok'
    except ValueError as e:
      status, obj = 'ValueError', str(e)[:200]
    except Exception as e:  # pylint: disable=broad-except
      status, obj = 'other', repr(e)[:300]
    res.case(key, nontrivial=True,
             sample=dict(spec_d, **einp) if (ei == 6 and n_geos == 3 and
                                             n_dates == 3) else None)
    if status == 'other':
      viol('C15/init/unexpected-exception', dict(einp, exception=obj))
      continue
    if absent_required:
      if status == 'ok':
        viol('C15/eligibility/missing-required-geo-must-raise-ValueError',
             dict(einp, absent_required=absent_required))
      continue
    if status != 'ok':
      viol('C15/init/valid-input-rejected', dict(einp, exception=obj))
      continue

    # ---- canonical frame
    df = obj.df
    idx = list(df.index)
    bad = None
    if sorted(map(str, idx)) != geos or not all(isinstance(g, str)
                                                 for g in idx):
      bad = ('C15/df/one-row-per-geo-str-id', {'index': [repr(g)
                                                          for g in idx]})
    elif list(df.columns) != [day[d] for d in dates]:
      bad = ('C15/df/columns-chronological',
             {'columns': [str(c) for c in df.columns]})
    else:
      arr = df.to_numpy()
      for i, g in enumerate(idx):
        if arr.shape[1] != len(dates) or not all(
            _close(arr[i, j], v) for j, v in enumerate(series(g))):
          bad = ('C15/df/cells-and-missing-zero',
                 {'geo': g, 'got': [float(z) for z in arr[i]],
                  'expected': series(g)})
          break
      if bad is None and any(total[idx[i]] < total[idx[i + 1]]
                             for i in range(len(idx) - 1)):
        bad = ('C15/df/rows-by-decreasing-mean',
               {'index': idx, 'means': [total[g] / len(dates) for g in idx]})
    if bad is None:
      gs = obj.geo_share
      if sorted(map(str, gs.index)) != geos or not all(
          _close(gs[g], share[g]) for g in geos):
        bad = ('C15/geo_share=mean/sum-of-means',
               {'got': {str(k): float(v) for k, v in gs.items()},
                'expected': share})
      elif not isinstance(obj.geos_in_data, (set, frozenset)) or set(
          obj.geos_in_data) != set(geos):
        bad = ('C15/geos_in_data', {'got': repr(obj.geos_in_data)})
    if bad is not None:
      viol(bad[0], dict(einp, **bad[1]))
      continue

    # ---- eligibility reconciliation
    assignable = {g for g, r in elig_rows.items() if r != (0, 0, 1)}
    ge = obj.geo_eligibility
    got_rows = {str(g): tuple(int(z) for z in r)
                for g, r in zip(ge.data.index, ge.data[
                    ['control', 'treatment', 'exclude']].to_numpy())}
    if got_rows != elig_rows or len(ge.data.index) != len(elig_rows):
      viol('C15/eligibility/rows-of-absent-geos-dropped-others-kept',
           dict(einp, got={g: list(r) for g, r in got_rows.items()},
                expected={g: list(r) for g, r in elig_rows.items()}))
      continue
    diff = _classes_differ(ge.get_eligible_assignments(),
                           _expected_classes(elig_rows))
    if diff:
      viol('C15/eligibility/classes', dict(einp, detail=diff))
      continue
    if not isinstance(obj.assignable, (set, frozenset)) or set(
        obj.assignable) != assignable:
      viol('C15/assignable=eligible-in-data-minus-must-exclude',
           dict(einp, got=sorted(map(str, obj.assignable)),
                expected=sorted(assignable)))
      continue

    # ---- unassignable geo in geo_index => ValueError
    a_sorted = sorted(assignable)
    bad_geos = [('not-in-data', 'zzz-unknown')]
    xf = sorted(g for g, r in elig_rows.items() if r == (0, 0, 1))
    if xf:
      bad_geos.append(('must-exclude', xf[0]))
    noelig = sorted(set(geos) - set(elig_rows))
    if noelig:
      bad_geos.append(('in-data-not-in-eligibility', noelig[0]))
    if table is not None:
      dropped = sorted(str(g) for g, _ in table if str(g) not in geos)
      if dropped:
        bad_geos.append(('dropped-eligibility-row', dropped[0]))
    for why, bg in bad_geos:
      for pos in sorted({0, len(a_sorted)}):
        order = a_sorted[:pos] + [bg] + a_sorted[pos:]
        res.case((spec, ei, 'bad', why, pos), nontrivial=True)
        try:
          obj.geo_index = order
        except ValueError:
          continue
        except Exception as e:  # pylint: disable=broad-except
          viol('C15/geo_index/unassignable-geo-wrong-exception',
               dict(einp, geo_index=order, why=why, exception=repr(e)[:300]))
          continue
        viol('C15/geo_index/unassignable-geo-must-raise-ValueError',
             dict(einp, geo_index=order, why=why))

    # ---- chosen orders
    for order in _orders(a_sorted, rng, tier):
      k = len(order)
      res.case((spec, ei, tuple(order)), nontrivial=k > 0)
      oinp = dict(einp, geo_index=list(order))
      try:
        obj.geo_index = list(order)
      except Exception as e:  # pylint: disable=broad-except
        viol('C15/geo_index/assignable-order-rejected',
             dict(oinp, exception=repr(e)[:300]))
        continue
      if list(obj.geo_index) != list(order):
        viol('C15/geo_index/stored', oinp)
        continue
      diff = _classes_differ(
          obj.geo_assignments,
          _expected_classes({i: elig_rows[g] for i, g in enumerate(order)}))
      if diff:
        viol('C15/geo_assignments/index-classes-of-the-order',
             dict(oinp, detail=diff))
        continue
      failed = False
      for m in range(0, k + 1):
        for sub in itertools.combinations(range(k), m):
          want_ts = [sum(cell.get((order[i], d), 0.0) for i in sub)
                     for d in dates]
          want_sh = sum(share[order[i]] for i in sub)
          try:
            got_ts = obj.aggregate_time_series(set(sub))
            got_sh = obj.aggregate_geo_share(set(sub))
          except Exception as e:  # pylint: disable=broad-except
            viol('C15/aggregate/exception',
                 dict(oinp, indices=list(sub), exception=repr(e)[:300]))
            failed = True
            break
          got_ts = np.asarray(got_ts, dtype=float)
          if got_ts.shape != (len(dates),) or not all(
              _close(p, q) for p, q in zip(got_ts, want_ts)):
            viol('C15/aggregate_time_series=sum-of-rows',
                 dict(oinp, indices=list(sub), got=[float(z) for z in got_ts],
                      expected=want_ts))
            failed = True
            break
          if not _close(got_sh, want_sh):
            viol('C15/aggregate_geo_share=sum-of-shares',
                 dict(oinp, indices=list(sub), got=float(got_sh),
                      expected=want_sh))
            failed = True
            break
        if failed:
          break
      if len(res.violations) >= MAX_VIOLATIONS:
        return res

    # ---- the geo index given as a tuple (OrderedGeos allows it)
    if PROBE_TUPLE_GEO_INDEX and not tuple_probed and len(a_sorted) >= 2:
      tuple_probed = True
      order = tuple(a_sorted[:2][::-1])
      res.case((spec, ei, 'tuple', order), nontrivial=True)
      try:
        obj.geo_index = order
        got_ts = np.asarray(obj.aggregate_time_series({0, 1}), dtype=float)
        want_ts = [cell.get((order[0], d), 0.0) + cell.get((order[1], d), 0.0)
                   for d in dates]
        if not all(_close(p, q) for p, q in zip(got_ts, want_ts)):
          viol('C15/geo_index/tuple-order', dict(einp, geo_index=list(order),
                                                 given_as='tuple'),
               region=REGION_TUPLE)
      except Exception as e:  # pylint: disable=broad-except
        viol('C15/geo_index/tuple-order',
             dict(einp, geo_index=list(order), given_as='tuple',
                  exception=repr(e)[:300]), region=REGION_TUPLE)
  return res


def _specs(tier):
  specs = []
  date_counts = (3, 8) if tier == 'quick' else (3, 4, 5, 6, 7, 8)
  variants = (0, 1) if tier == 'quick' else (0, 1, 2, 3, 4, 5)
  for n_geos in (2, 3, 4, 5):
    for n_dates in date_counts:
      for id_kind in ('int', 'str'):
        for date_kind in ('ts', 'iso'):
          for missing in ('none', 'cells', 'sparse'):
            for tie in (0, 1):
              for variant in variants:
                specs.append((n_geos, n_dates, id_kind, date_kind, missing,
                              tie, variant % 2 if tier == 'quick' else (
                                  1 if variant else 0), variant))
  return specs


def run(tier, seed):
  warnings.simplefilter('ignore')
  specs = _specs(tier)
  res = base.MonitorResult(
      'enumerated long-format frames: 2-5 geos x %s dates (non-contiguous '
      'days over month/year/leap boundaries, Timestamp or ISO string) x geo '
      'IDs int/str x missing cells none/random 25%%/one geo with a single row '
      'x two geos with exactly tied means or not x row+column shuffles / '
      'extra column; responses are positive multiples of 0.25 (exact sums); '
      'per frame 10-11 eligibility tables (none, equal, all 7 row types, '
      'subset, str IDs for int data, exceeding with excludable geos, '
      'exceeding with a geo that cannot be excluded => ValueError, disjoint); '
      'per accepted object: all permutations of all subsets of the assignable '
      'geos when <= 3 of them, else empty/sorted/reversed + seeded '
      'sub-permutations; per order ALL index subsets. Oracle: dict '
      '(geo,date)->value from the raw rows. Non-trivial = every construction '
      'decision, every unassignable-geo probe, every non-empty geo_index '
      'order; distinct = (frame spec, eligibility number, order)' %
      ('{3,8}' if tier == 'quick' else '3..8'), exhaustive=False)
  res.bound = ('%d frame specs, <= 5 geos, <= 8 dates, <= 7 geos in the '
               'eligibility table' % len(specs))
  nproc = min(14, multiprocessing.cpu_count())
  ctx = multiprocessing.get_context('fork')
  with ctx.Pool(nproc, initializer=_init, initargs=(common.REPO,)) as pool:
    parts = pool.map(_frame_task, [(s, tier, seed) for s in specs],
                     chunksize=4)
  tagged = {}
  for part in parts:
    res.evaluations += part.evaluations
    res.nontrivial |= part.nontrivial
    for smp in part.samples:
      if len(res.samples) < 5:
        res.samples.append(smp)
    for v in part.violations:
      if v['region'] is not None:
        tagged.setdefault(v['region'], []).append(v)
      else:
        res.violations.append(v)
  res.violations.sort(key=lambda v: len(repr(v['input'])))
  res.violations = res.violations[:MAX_VIOLATIONS]
  for region, vs in sorted(tagged.items()):
    vs.sort(key=lambda v: len(repr(v['input'])))
    res.violations.append(vs[0])           # one witness per known region
    res.notes.append('%s: %d tagged failures' % (region, len(vs)))
  return res


if __name__ == '__main__':
  import argparse
  import time
  ap = argparse.ArgumentParser()
  ap.add_argument('--tier', default='quick')
  ap.add_argument('--seed', type=int, default=0)
  a_ = ap.parse_args()
  _init(common.REPO)
  t0 = time.time()
  r = run(a_.tier, a_.seed)
  print('C15 tier=%s evaluations=%d distinct_nontrivial=%d violations=%d '
        '(untagged %d) wall=%.1fs' % (
            a_.tier, r.evaluations, len(r.nontrivial), len(r.violations),
            sum(1 for v in r.violations if v['region'] is None),
            time.time() - t0))
  for n_ in r.notes:
    print('NOTE', n_)
  for v_ in r.violations[:6]:
    print('VIOLATION', v_['what'], v_['region'],
          str(common.jsonable(v_['input']))[:1500])
