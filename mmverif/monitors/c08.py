"""C08 run-time contract monitor: TBRMMDiagnostics never serves stale values.

Every history (sequence of assignments to x / y and reads of the derived
properties) up to a length bound is replayed on one object; every value read
during the history and every derived quantity after it is compared with what
a freshly built object holding the same current (x, y) reports.
"""
import itertools
import multiprocessing
import sys
import warnings

from mmverif import common
from mmverif.props import base

ID = 'C08'
MAX_VIOLATIONS = 5
N_POINTS = 30
N_TEST = 7

READS = ['corr', 'required_impact', 'pretestfit', 'aatest', 'bbtest', 'dwtest',
         'corr_test', 'tests_ok']
SETS = [('x', 'a'), ('x', 'b'), ('x', None), ('y', 'u'), ('y', 'v')]
OPS = [('set',) + s for s in SETS] + [('read', q) for q in READS]
OP_NAMES = ['x:=a', 'x:=b', 'x:=None', 'y:=u', 'y:=v'] + [
    'read ' + q for q in READS]
N_SETS = len(SETS)

_G = {}     # per-process globals: series, parameters, reference values


def _init(repo, seed):
  warnings.simplefilter('ignore')
  if repo in sys.path:
    sys.path.remove(repo)
  sys.path.insert(0, repo)
  _setup(seed)


def _same(p, q, exact_only=False):
  """Structural equality of two reported values."""
  import numpy as np
  if p is None or q is None:
    return p is None and q is None
  if isinstance(p, (bool, np.bool_)) or isinstance(q, (bool, np.bool_)):
    return (isinstance(p, (bool, np.bool_)) and
            isinstance(q, (bool, np.bool_)) and bool(p) == bool(q))
  if isinstance(p, np.ndarray) or isinstance(q, np.ndarray):
    if not (isinstance(p, np.ndarray) and isinstance(q, np.ndarray)):
      return False
    return p.shape == q.shape and bool(np.array_equal(p, q, equal_nan=True))
  if isinstance(p, tuple) or isinstance(q, tuple):
    if not (isinstance(p, tuple) and isinstance(q, tuple)):
      return False
    if type(p).__name__ != type(q).__name__ or len(p) != len(q):
      return False
    if getattr(p, '_fields', None) != getattr(q, '_fields', None):
      return False
    return all(_same(a, b, exact_only) for a, b in zip(p, q))
  p, q = float(p), float(q)
  if p == q or (p != p and q != q):
    return True
  if exact_only:
    return False
  return abs(p - q) <= 1e-12 * max(abs(p), abs(q))


def _make_series(seed):
  """Series a, b (controls) and u, v (treatments), seeded, such that (a, u)
  and (b, v) are highly correlated and pass all tests while (b, u) and (a, v)
  are uncorrelated and fail, and every derived quantity differs between the
  four pairs."""
  import numpy as np
  from matched_markets.methodology import tbrmmdesignparameters
  from matched_markets.methodology import tbrmmdiagnostics
  par = tbrmmdesignparameters.TBRMMDesignParameters(n_test=N_TEST, iroas=1.0)
  rng = np.random.default_rng([seed, 808])
  for attempt in range(500):
    a = 100.0 + 10.0 * rng.normal(size=N_POINTS)
    u = 50.0 + 1.5 * a + 1.0 * rng.normal(size=N_POINTS)
    b = 80.0 + 12.0 * rng.normal(size=N_POINTS)
    v = 20.0 + 0.7 * b + 0.6 * rng.normal(size=N_POINTS)
    vals = {}
    for xn, x in (('a', a), ('b', b)):
      for yn, y in (('u', u), ('v', v)):
        vals[xn, yn] = {}
        for q in READS:
          d = tbrmmdiagnostics.TBRMMDiagnostics(y, par)
          d.x = x
          vals[xn, yn][q] = getattr(d, q)
    def verdict(pair):
      t = vals[pair]['tests_ok']
      return None if t is None else bool(t)

    ok = (verdict(('a', 'u')) is True and verdict(('b', 'v')) is True and
          verdict(('b', 'u')) is False and verdict(('a', 'v')) is False)
    ok = ok and not bool(vals['b', 'u']['corr_test'])
    if ok:
      pairs = list(vals)
      for q in READS:
        if q in ('corr_test', 'tests_ok'):
          continue
        for p1, p2 in itertools.combinations(pairs, 2):
          if _same(vals[p1][q], vals[p2][q]):
            ok = False
    if ok:
      return {'a': a, 'b': b, 'u': u, 'v': v, 'par': par,
              'attempt': attempt}
  raise RuntimeError('C08 monitor: no suitable series found for seed %r' %
                     seed)


def _setup(seed):
  """Series + reference values of every (x, y) state from FRESH objects, one
  fresh object per quantity (so the reference never depends on read order)."""
  if _G.get('seed') == seed:
    return
  from matched_markets.methodology import tbrmmdiagnostics
  s = _make_series(seed)
  ref = {}
  for xn in ('a', 'b', None):
    for yn in ('u', 'v'):
      ref[xn, yn] = {}
      for q in READS:
        d = tbrmmdiagnostics.TBRMMDiagnostics(s[yn], s['par'])
        if xn is not None:
          d.x = s[xn]
        ref[xn, yn][q] = getattr(d, q)
  _G.clear()
  _G.update(seed=seed, series=s, ref=ref,
            cls=tbrmmdiagnostics.TBRMMDiagnostics)


def _brief(v):
  import numpy as np
  if isinstance(v, tuple):
    return [_brief(x) for x in v]
  if isinstance(v, np.ndarray):
    return 'array(len=%d, sum=%r)' % (len(v), float(v.sum()))
  if isinstance(v, (bool, np.bool_)):
    return bool(v)
  if v is None:
    return None
  return float(v)


def _replay(history, res):
  """Replays one history; returns after recording at most one violation."""
  import numpy as np
  s, ref, cls = _G['series'], _G['ref'], _G['cls']
  d = cls(s['u'], s['par'])
  xn, yn = None, 'u'
  seen_set = False
  nontrivial = False

  def report(what, q, got, step):
    res.violation(what, {
        'seed': _G['seed'], 'n_points': N_POINTS, 'n_test': N_TEST,
        'history': [OP_NAMES[i] for i in history], 'history_codes': list(
            history),
        'step': step, 'quantity': q, 'state': {'x': xn, 'y': yn},
        'got': _brief(got), 'fresh': _brief(ref[xn, yn][q]),
        'series': {k: [float(z) for z in s[k]] for k in 'abuv'}})

  for step, code in enumerate(history):
    op = OPS[code]
    if op[0] == 'set':
      seen_set = True
      if op[1] == 'x':
        d.x = None if op[2] is None else s[op[2]]
        xn = op[2]
      else:
        d.y = s[op[2]]
        yn, xn = op[2], None      # Setting y clears x.
    else:
      nontrivial = nontrivial or seen_set
      got = getattr(d, op[1])
      if not _same(got, ref[xn, yn][op[1]]):
        report('C08/read-during-history-equals-fresh-object', op[1], got, step)
        return nontrivial
  # The series held by the object are the current ones.
  want_x = None if xn is None else s[xn]
  if not ((d.x is None and want_x is None) or (
      d.x is not None and want_x is not None and np.array_equal(
          d.x, want_x))) or not np.array_equal(d.y, s[yn]):
    res.violation('C08/current-series', {
        'seed': _G['seed'], 'history': [OP_NAMES[i] for i in history],
        'state': {'x': xn, 'y': yn}})
    return nontrivial
  # After the history: EVERY derived quantity equals the fresh object's.  The
  # starting point of the read order rotates with the history so that each
  # quantity is also the first one read after some history.
  k = (sum(history) + len(history)) % len(READS)
  for q in READS[k:] + READS[:k]:
    got = getattr(d, q)
    if not _same(got, ref[xn, yn][q]):
      report('C08/after-history-equals-fresh-object', q, got, len(history))
      return nontrivial
  return nontrivial


def _task(task):
  prefix, maxlen = task
  res = base.MonitorResult('')
  n_ops = len(OPS)
  if prefix is None:
    histories = [()] + [(i,) for i in range(n_ops)]
  else:
    histories = (prefix + rest
                 for n in range(0, maxlen - len(prefix) + 1)
                 for rest in itertools.product(range(n_ops), repeat=n))
  for h in histories:
    before = len(res.violations)
    nontrivial = _replay(h, res)
    sample = None
    if len(h) == maxlen and nontrivial and len(res.samples) < 1:
      sample = {'history': [OP_NAMES[i] for i in h], 'seed': _G['seed']}
    res.case(bytes(h), nontrivial=nontrivial, sample=sample)
    if len(res.violations) > before and len(res.violations) >= MAX_VIOLATIONS:
      break
  return res


def _length_family(res, seed):
  """Series of ANOTHER length re-assigned to an object that has already
  served every derived quantity: after each step every derived quantity and
  estimate_required_impact(0.9) equal those of a fresh object."""
  import numpy as np
  s, cls = _G['series'], _G['cls']
  rng = np.random.default_rng([seed, 809])
  fam = {}
  for tag, n in (('short', N_POINTS - 9), ('long', N_POINTS + 26)):
    c = 90.0 + 9.0 * rng.normal(size=n)
    fam[tag] = (c, 30.0 + 1.2 * c + 0.8 * rng.normal(size=n))

  def fresh(x, y):
    out = {}
    for q in READS + ['estimate_required_impact(0.9)']:
      d = cls(y, s['par'])
      d.x = x
      out[q] = (d.estimate_required_impact(0.9) if q.startswith('estimate')
                else getattr(d, q))
    return out

  for order in (('short', 'long'), ('long', 'short'), ('long',), ('short',)):
    d = cls(s['u'], s['par'])
    d.x = s['a']
    hist = ['y:=u', 'x:=a', 'read all']
    for q in READS:
      getattr(d, q)
    d.estimate_required_impact(0.9)
    for tag in order:
      x, y = fam[tag]
      d.y = y
      d.x = x
      hist += ['y:=%s series (len %d)' % (tag, len(y)),
               'x:=%s series' % tag, 'read all']
      want = fresh(x, y)
      res.evaluations += 1
      res.nontrivial.add(('length-family',) + tuple(hist))
      for q in READS + ['estimate_required_impact(0.9)']:
        got = (d.estimate_required_impact(0.9) if q.startswith('estimate')
               else getattr(d, q))
        if not _same(got, want[q]):
          res.violation('C08/after-length-change-equals-fresh-object', {
              'seed': seed, 'history': list(hist), 'quantity': q,
              'got': _brief(got), 'fresh': _brief(want[q]),
              'series_lengths': {t: len(v[1]) for t, v in fam.items()}})
          return


def run(tier, seed):
  warnings.simplefilter('ignore')
  maxlen = 4 if tier == 'quick' else 5
  _setup(seed)
  res = base.MonitorResult(
      'ALL histories of length <= %d over the 13-symbol alphabet {x:=a, x:=b, '
      'x:=None, y:=u, y:=v, read corr / required_impact / pretestfit / aatest '
      '/ bbtest / dwtest / corr_test / tests_ok} on one object created as '
      'TBRMMDiagnostics(u, par); series of length %d, n_test=%d, seeded so '
      'that (a,u),(b,v) are highly correlated and pass all tests while '
      '(b,u),(a,v) are uncorrelated and fail and every numeric derived '
      'quantity differs between the four pairs; every read during the history '
      'and all 8 derived quantities after it are compared (floats exactly or '
      'rel 1e-12, namedtuples field-wise, arrays with array_equal, None with '
      'None) with fresh objects (one per quantity) built from the current '
      '(x, y) (setting y clears x). Non-trivial = the history contains a set '
      'followed by a read; distinct = the history' % (maxlen, N_POINTS,
                                                      N_TEST),
      exhaustive=True)
  res.bound = ('history length <= %d, one fixed seeded quadruple of series, '
               'default parameters with n_test=%d' % (maxlen, N_TEST))
  res.notes.append('series found at attempt %d' % _G['series']['attempt'])
  n_ops = len(OPS)
  tasks = [(None, maxlen)] + [((i, j), maxlen) for i in range(n_ops)
                              for j in range(n_ops)]
  nproc = min(14, multiprocessing.cpu_count())
  ctx = multiprocessing.get_context('fork')
  with ctx.Pool(nproc, initializer=_init,
                initargs=(common.REPO, seed)) as pool:
    parts = pool.map(_task, tasks, chunksize=1)
  for part in parts:
    res.evaluations += part.evaluations
    res.nontrivial |= part.nontrivial
    for smp in part.samples:
      if len(res.samples) < 5:
        res.samples.append(smp)
    res.violations.extend(part.violations)
  _length_family(res, seed)
  res.notes.append('plus a scripted family: series of other lengths (%d, %d) '
                   're-assigned to an object that already served every '
                   'quantity' % (N_POINTS - 9, N_POINTS + 26))
  # Shortest histories first.
  res.violations.sort(key=lambda v: (len(v['input']['history']),
                                     v['input'].get('history_codes', [])))
  res.violations = res.violations[:MAX_VIOLATIONS]
  return res


if __name__ == '__main__':
  import argparse
  import time
  ap = argparse.ArgumentParser()
  ap.add_argument('--tier', default='quick')
  ap.add_argument('--seed', type=int, default=0)
  a_ = ap.parse_args()
  warnings.simplefilter('ignore')
  if common.REPO in sys.path:
    sys.path.remove(common.REPO)
  sys.path.insert(0, common.REPO)
  t0 = time.time()
  r = run(a_.tier, a_.seed)
  print('C08 tier=%s evaluations=%d distinct_nontrivial=%d violations=%d '
        'wall=%.1fs' % (a_.tier, r.evaluations, len(r.nontrivial),
                        len(r.violations), time.time() - t0))
  for v_ in r.violations[:5]:
    d_ = dict(v_['input'])
    d_.pop('series', None)
    print('VIOLATION', v_['what'], v_['region'], common.jsonable(d_))
