"""C06 run-time monitor: the TBR posterior of the cumulative effect equals the
closed-form model (Kerman 2017, eq. 5), is invariant under presentation of the
data, and the summary rows / the design-side fit are coherent with it.

    cd /verif && .venv/bin/python -m mmverif.monitors.c06 --tier quick
"""
import numpy as np

from mmverif.monitors import tbrlib as L
from mmverif.props import base

REGION_LOW_LEVEL = 'C06:one-tailed-level<0.5'
# n_pre == 3: the posterior has 1 degree of freedom (Cauchy); TBR.summary takes
# `estimate` from scipy's t.mean(), which is inf for df == 1, instead of the
# location (the docstring's "median of Delta").
REGION_NPRE3 = 'C06:n_pre=3-estimate-inf'

LEVELS = (0.5, 0.8, 0.9, 0.99, 0.3)
TAILS = (1, 2)
RESCALES = (1.0, 0.5, 2.0)
REPORTS = ('all', 'last')
THRESHOLDS = ('zero', '+delta', '-delta')
SIG_LEVELS = (0.5, 0.8, 0.9, 0.99)


def _tasks(tier, seed):
  rng = np.random.default_rng(seed)
  n_seeds = 1 if tier == 'quick' else 3
  seeds = [int(s) for s in rng.integers(0, 2 ** 31 - 1, n_seeds)]
  tasks = []
  for s in seeds:
    for n_pre in L.N_PRE:
      for n_test in L.N_TEST:
        for n_cool in L.N_COOL:
          tasks.append(dict(seed=s, n_pre=n_pre, n_test=n_test, n_cool=n_cool,
                            tier=tier))
  return tasks


def _in_region(level, tails):
  return tails == 1 and level < 0.5


def _work(task):
  """All checks on one experiment (one set of per-date group totals)."""
  from scipy import stats
  from matched_markets.methodology import tbr as tbr_mod
  from matched_markets.methodology import tbrmmdesignparameters
  from matched_markets.methodology import tbrmmdiagnostics
  col = L.Collector()
  pres_all = L.presentations(task['tier'])
  quick = task['tier'] == 'quick'
  full_grid = {3} if quick else {0, 3, 4}        # full product of arguments
  cover_grid = set() if quick else {1, 2, 5}     # covering design
  ref = {}     # use_cooldown -> (df, loc, scale) of the plain presentation
  for ip, pres in enumerate(pres_all):
    spec = L.default_spec(seed=task['seed'], n_pre=task['n_pre'],
                          n_test=task['n_test'], n_cool=task['n_cool'],
                          cost='zero', **pres)
    frame = L.build(spec)
    sj = L.spec_json(spec)
    dates, per, x, y = L.aggregate(frame, 'response')
    for uc in (False, True):
      orc = L.tbr_oracle(per, x, y, uc)
      model = tbr_mod.TBR(use_cooldown=uc)
      model.fit(frame, 'response')
      t_days = len(orc['loc'])
      odates = dates[orc['idx']]
      # ---- distribution parameters, every rescale
      for rescale in RESCALES:
        inp = dict(spec=sj, use_cooldown=uc, rescale=rescale)
        dist = model.causal_cumulative_distribution(rescale=rescale)
        got_df = float(np.asarray(dist.args[0]))
        got_loc = np.asarray(dist.kwds['loc'], float)
        got_scale = np.asarray(dist.kwds['scale'], float)
        key = L.short_key('dist', L.spec_key(spec), uc, rescale)
        col.case(key, nontrivial=t_days >= 1,
                 sample=dict(inp, check='distribution'))
        if dist.dist.name != 't' or got_df != orc['df']:
          col.violation('C06/posterior/student-t-df=n_pre-2', inp)
        if not L.close(got_loc, rescale * orc['loc'], atol=_atol(y)):
          col.violation('C06/posterior/loc=cumulative-residual', inp)
        if not L.close(got_scale, abs(rescale) * orc['scale']):
          col.violation('C06/posterior/scale=kerman-eq5', inp)
        one = model.causal_cumulative_distribution(time=-1, rescale=rescale)
        if not (L.close(one.kwds['loc'], got_loc[-1]) and
                L.close(one.kwds['scale'], got_scale[-1])):
          col.violation('C06/posterior/time=-1-is-last-day', inp)
        if rescale == 1.0:
          if ip == 0:
            ref[uc] = (got_df, got_loc, got_scale)
          else:
            rdf, rloc, rscale = ref[uc]
            if not (got_df == rdf and
                    L.close(got_loc, rloc, atol=_atol(y)) and
                    L.close(got_scale, rscale)):
              col.violation('C06/invariance/presentation', inp)
      # ---- summary rows
      delta = float(orc['scale'][-1])
      if ip not in full_grid and ip not in cover_grid:
        grid = [(0.9, 1, 'zero', 1.0), (0.8, 2, '+delta', 0.5),
                (0.3, 1, '-delta', 2.0)]
      elif quick or ip in cover_grid:
        # level x tails x threshold in full, rescale cycling through its values
        combos = [(lv, tl, th) for lv in LEVELS for tl in TAILS
                  for th in THRESHOLDS]
        grid = [(lv, tl, th, RESCALES[(i + i // 3) % 3])
                for i, (lv, tl, th) in enumerate(combos)]
      else:
        grid = [(lv, tl, th, rs) for lv in LEVELS for tl in TAILS
                for th in THRESHOLDS for rs in RESCALES]
      for level, tails, thk, rescale in grid:
        thr = {'zero': 0.0, '+delta': delta, '-delta': -delta}[thk]
        thr = thr * rescale
        frames = {}
        for report in REPORTS:
          inp = dict(spec=sj, use_cooldown=uc, level=level, tails=tails,
                     threshold=thr, rescale=rescale, report=report)
          region = REGION_LOW_LEVEL if _in_region(level, tails) else None
          summ = model.summary(level=level, threshold=thr, tails=tails,
                               report=report, rescale=rescale)
          frames[report] = summ
          key = L.short_key('summary', L.spec_key(spec), uc, level, tails, thk,
                            rescale, report)
          col.case(key, nontrivial=(t_days >= 1 and region is None and
                                    task['n_pre'] > 3),
                   sample=dict(inp, check='summary'))
          _check_summary(col, summ, inp, region, orc, odates, level, tails,
                         thr, rescale, report, stats, y)
        if not frames['all'].tail(1).equals(frames['last']):
          col.violation('C06/summary/last-is-tail-of-all',
                        dict(spec=sj, use_cooldown=uc, level=level,
                             tails=tails, threshold=thr, rescale=rescale))
      # ---- design-side fit on the same data (no cooldown)
      if not uc:
        pre = per == L.PRE
        test = per == L.TEST
        for sig in SIG_LEVELS:
          inp = dict(spec=sj, sig_level=sig)
          par = tbrmmdesignparameters.TBRMMDesignParameters(
              n_test=int(test.sum()), iroas=1.0, sig_level=sig)
          diag = tbrmmdiagnostics.TBRMMDiagnostics(y[pre], par)
          diag.x = x[pre]
          fit = diag.tbrfit(float(x[test].mean()), float(y[test].mean()))
          summ = model.summary(level=sig, tails=1, report='last')
          key = L.short_key('design', L.spec_key(spec), sig)
          est = float(summ['estimate'].iloc[0])
          col.case(key, nontrivial=bool(np.isfinite(est)),
                   sample=dict(inp, check='design'))
          low = float(summ['lower'].iloc[0])
          scl = float(summ['scale'].iloc[0])
          tq = float(stats.t.ppf(sig, orc['df']))
          reg3 = (REGION_NPRE3 if task['n_pre'] == 3 and not np.isfinite(est)
                  else None)
          if not L.close(fit.estimate, float(orc['loc'][-1]), atol=_atol(y)):
            col.violation('C06/design/estimate=closed-form', inp)
          if not L.close(fit.estimate, est, atol=_atol(y)):
            col.violation('C06/design/estimate', inp, reg3)
          if not L.close(fit.scale, scl):
            col.violation('C06/design/scale', inp)
          if not L.close(fit.cihw, tq * float(orc['scale'][-1]),
                         atol=1e-12 * scl):
            col.violation('C06/design/cihw=tq*scale', inp)
          if not L.close(fit.cihw, est - low,
                         atol=1e-9 * (abs(est) + abs(low))):
            col.violation('C06/design/half-width=estimate-lower', inp, reg3)
          if not L.close(fit.cihw, float(orc['loc'][-1]) - low,
                         atol=1e-9 * (abs(orc['loc'][-1]) + abs(low))):
            col.violation('C06/design/half-width=loc-lower', inp)
      if col.untagged() > 5:
        return col
  return col


def _atol(y):
  """Absolute tolerance for quantities that are sums of differences of the
  series y (cumulative residuals): floating-point scale of the summands."""
  return 1e-10 * float(np.sum(np.abs(y)))


def _check_summary(col, summ, inp, region, orc, odates, level, tails, thr,
                   rescale, report, stats, y):
  t_days = len(orc['loc'])
  rows = t_days if report == 'all' else 1
  if summ.shape[0] != rows:
    col.violation('C06/summary/rows', inp, region)
    return
  sl = slice(t_days - rows, t_days)
  idx = np.asarray(summ.index).astype('datetime64[ns]').astype(np.int64)
  if not np.array_equal(idx, odates[sl]):
    col.violation('C06/summary/dates', inp, region)
  loc = rescale * orc['loc'][sl]
  scale = abs(rescale) * orc['scale'][sl]
  dof = orc['df']
  alpha = (1.0 - level) / tails
  est = summ['estimate'].to_numpy(float)
  low = summ['lower'].to_numpy(float)
  upp = summ['upper'].to_numpy(float)
  prec = summ['precision'].to_numpy(float)
  prob = summ['probability'].to_numpy(float)
  atol = abs(rescale) * _atol(y)
  # clauses that read the `estimate` column
  ereg = (REGION_NPRE3 if orc['df'] == 1 and not np.all(np.isfinite(est))
          else region)
  btol = atol + 1e-9 * (np.abs(loc) + scale * abs(stats.t.ppf(alpha, dof)))
  if not L.close(est, loc, atol=atol):
    col.violation('C06/summary/estimate=loc', inp, ereg)
  if not L.close(summ['scale'].to_numpy(float), scale):
    col.violation('C06/summary/scale', inp, region)
  exp_low = loc + scale * stats.t.ppf(alpha, dof)
  if not np.all(np.abs(low - exp_low) <= btol + 1e-8 * np.abs(exp_low)):
    col.violation('C06/summary/lower=quantile', inp, region)
  if tails == 1:
    if not np.all(np.isposinf(upp)):
      col.violation('C06/summary/upper=inf-one-tailed', inp, region)
  else:
    exp_upp = loc + scale * stats.t.ppf(1.0 - alpha, dof)
    if not np.all(np.abs(upp - exp_upp) <= btol + 1e-8 * np.abs(exp_upp)):
      col.violation('C06/summary/upper=quantile', inp, region)
  if not (np.all(low <= est) and np.all(est <= upp)):
    col.violation('C06/summary/lower<=estimate<=upper', inp, ereg)
  if not np.all(np.abs(prec - (est - low)) <= btol + 1e-8 * np.abs(prec)):
    col.violation('C06/summary/precision=estimate-lower', inp, ereg)
  if not np.all(np.abs(prec - np.abs(loc - low)) <=
                btol + 1e-8 * np.abs(prec)):
    col.violation('C06/summary/precision=|loc-lower|', inp, region)
  exp_prob = 1.0 - stats.t.cdf((thr - loc) / scale, dof)
  if not L.close(prob, exp_prob, atol=1e-12):
    col.violation('C06/summary/probability', inp, region)
  if not (np.all(summ['level'].to_numpy(float) == level) and
          np.all(summ['posterior_threshold'].to_numpy(float) == thr)):
    col.violation('C06/summary/records-level-threshold', inp, region)


def run(tier, seed):
  res = base.MonitorResult(
      'experiments = seeded per-date group totals (response = scale x shared '
      'random walk + noise, lift in test/cooldown) for n_pre in {3,4,10,40} x '
      'n_test in {1,3,9} x cooldown {0,3} days x seeds; each is presented 6 '
      'ways (1-4 geos per group, 0-2 unassigned geos labelled 0/-1/NaN, extra '
      'days labelled -1/3/NaN, row shuffles); for each presentation and '
      'use_cooldown in {F,T}: posterior parameters for rescale in {1,0.5,2} '
      'against the NumPy closed form and against the plain presentation; '
      'summary() for level in {0.5,0.8,0.9,0.99,0.3} x tails {1,2} x '
      'threshold {0,+-scale_T} x rescale x report {all,last} (thorough: full '
      'product on 3 presentations, covering design on the other 3; quick: level x tails x threshold with '
      'rescale cycling on the richest presentation, 3 configurations on the '
      'others); design-side tbrfit for '
      'sig_level in {0.5,0.8,0.9,0.99}. non-trivial = fit succeeded with >= 1 '
      'analysed day and the input is outside known-finding regions; distinct '
      '= (spec, use_cooldown, call arguments)', exhaustive=False)
  res.bound = ('n_pre <= 40, n_test <= 9, cooldown <= 3 days, <= 4 geos per '
               'group, %d experiments' % len(_tasks(tier, seed)))
  cols = L.pool_map(_work, _tasks(tier, seed))
  L.absorb(res, cols)
  res.notes.append('identity: TBRMMDiagnostics.tbrfit(xt, yt).estimate == TBR '
                   'estimate, .scale == TBR summary scale on the last test '
                   'day, .cihw == t.ppf(sig_level, n-2)*scale == estimate - '
                   'lower of summary(level=sig_level, tails=1)')
  return res


if __name__ == '__main__':
  import sys
  sys.exit(L.main(run, 'c06'))
