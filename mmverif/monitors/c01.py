"""C01 run-time contract: returned designs are legal assignments."""
from mmverif.monitors import searchlib as sl
from mmverif.props import base


def _worker(spec):
  case = sl.Case(spec)
  orc = case.oracle()
  out = {'cases': [], 'viol': [], 'notes': [], 'stats': {}}
  in_region = bool(orc.dropped_must_include)
  for which in ('exhaustive', 'greedy'):
    designs, err, stage = sl.run_search(case, which)
    if err is not None:
      out['notes'].append('%s %s raised %s (case counted as trivial)' % (
          which, stage, type(err).__name__))
      designs = []
    out['cases'].append((sl.key_of(spec, which), bool(designs),
                         {'search': which, 'n_designs_returned': len(designs),
                          'spec': spec}))
    seen = set()
    for pos, d in enumerate(designs):
      t_set, c_set = sl.design_sets(d)
      for clause in orc.legality_failures(t_set, c_set):
        region = None
        if clause == 'must-include-placed' and in_region:
          missing = orc.must_include - (t_set | c_set)
          if missing <= orc.dropped_must_include:
            region = sl.REGION_C01
        if (clause, region) in seen:
          continue
        seen.add((clause, region))
        out['viol'].append((
            'C01/%s/%s' % (which, clause),
            case.describe(search=which, position=pos,
                          treatment=sorted(t_set), control=sorted(c_set),
                          admitted=sorted(orc.admitted),
                          dropped_must_include=sorted(
                              orc.dropped_must_include)), region))
    if in_region:
      out['stats']['cases-in-known-region'] = out['stats'].get(
          'cases-in-known-region', 0) + 1
  return out


def run(tier, seed):
  import numpy as np
  quick = tier == 'quick'
  rng = np.random.default_rng([int(seed), 1])
  pars = sl.par_specs(rng, 150 if quick else 400)
  specs = sl.case_specs(seed, enum_geos=(1, 2, 3, 4),
                        sample_geos=(5,) if quick else (5, 6),
                        n_sample=70 if quick else 260, pars=pars,
                        reps=1 if quick else 4, salt=1)
  res = base.MonitorResult(
      'C01: every eligibility multiset of the seven row types over 1-4 geos '
      '(size order and reversed), seeded tables for 5%s geos (some with a geo '
      'absent from the table) and no-eligibility cases, each paired with a '
      'seeded panel (24/40 days, two noise levels, missing cells, shuffled '
      'rows, int/str IDs) and a seeded parameter object (six constraints '
      'absent/present, n_geos_max, n_designs, n_pretest_max, n_test); both '
      'searches; each returned design checked against the raw eligibility '
      'rows. non-trivial = the search returned at least one design; distinct '
      '= (case spec, search)' % ('' if quick else '-6'))
  res.bound = 'n_geos <= %d, %d cases x 2 searches' % (5 if quick else 6,
                                                       len(specs))
  return sl.sweep(res, _worker, specs)


if __name__ == '__main__':
  sl.main(run, 'c01')
