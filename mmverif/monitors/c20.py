"""C20 run-time contract monitor: expansion of excluded days is exact.

utils.find_days_to_exclude + utils.expand_time_windows against an oracle
written with datetime.date / timedelta only (strptime('%Y/%m/%d') on the
documented format 'YYYY/MM/DD' and 'YYYY/MM/DD - YYYY/MM/DD').
"""
import datetime
import itertools
import multiprocessing
import sys
import warnings

from mmverif import common
from mmverif.props import base

ID = 'C20'
MAX_VIOLATIONS = 5

# Valid entries in the documented format: single days and closed ranges that
# span month, year and leap-day boundaries, with overlaps and nesting.
SINGLES = [
    '2020/02/28', '2020/02/29', '2020/03/01', '2019/12/31', '2020/01/01',
    '2021/02/28', '2021/03/01', '2020/12/31',
]
RANGES = [
    '2020/02/27 - 2020/03/02',   # leap day inside
    '2020/02/29 - 2020/02/29',   # degenerate range on the leap day
    '2020/02/28 - 2020/02/29',
    '2020/03/01 - 2020/03/03',   # adjacent to the first
    '2019/12/30 - 2020/01/02',   # year boundary
    '2020/01/01 - 2020/01/31',   # whole month, overlaps the previous
    '2020/01/31 - 2020/02/01',   # month boundary
    '2021/02/27 - 2021/03/01',   # non-leap February
    '2020/12/30 - 2021/01/01',   # year boundary after a leap year
    '2019/12/25 - 2020/03/05',   # long range covering many others
]
EXTRA_THOROUGH = [
    '2000/02/28 - 2000/03/01',   # century leap year
    '2100/02/28 - 2100/03/01',   # century non-leap year
    '2020/04/30 - 2020/05/01',
    '1999/12/31 - 2000/01/01',
]
MALFORMED = [
    '2020/03/02 - 2020/02/27',            # reversed range
    '2020/01/02 - 2020/01/01',            # reversed by one day
    '2020/01/01 - 2019/12/31',            # reversed across a year boundary
    '2020/03/01 - 2020/02/29',            # reversed across the leap day
    '',                                   # empty string
    ' ',
    '2020/01/01 - 2020/01/02 - 2020/01/03',   # three pieces
    'a - b - c',
    'foo',
    '2020/13/01',
    '2020/02/30',
    '2021/02/29',                         # not a leap year
    '2019/02/29 - 2019/03/01',
    '2020/00/10',
    '2020/01/32',
    '2020/01/01 - foo',
    'foo - 2020/01/01',
    '2020/02/30 - 2020/03/01',
    '2020/01/01 -',                       # missing end
    '- 2020/01/01',                       # missing start
    ' - ',
]


def _init(repo):
  warnings.simplefilter('ignore')
  if repo in sys.path:
    sys.path.remove(repo)
  sys.path.insert(0, repo)


def _parse_day(s):
  return datetime.datetime.strptime(s.strip(), '%Y/%m/%d').date()


def _oracle_windows(entries):
  out = []
  for e in entries:
    parts = e.split(' - ')
    if len(parts) == 1:
      d = _parse_day(parts[0])
      out.append((d, d))
    else:
      assert len(parts) == 2, e
      a, b = _parse_day(parts[0]), _parse_day(parts[1])
      assert a <= b, e
      out.append((a, b))
  return out


def _oracle_days(entries):
  days = set()
  for a, b in _oracle_windows(entries):
    d = a
    while d <= b:
      days.add(d)
      d += datetime.timedelta(days=1)
  return days


def _as_date(pd, ts):
  """Timestamp -> date, None unless it is exactly midnight of a day."""
  if not isinstance(ts, pd.Timestamp) or ts is pd.NaT:
    return None
  d = ts.date()
  if ts != pd.Timestamp(d.year, d.month, d.day):
    return None
  return d


def _check_valid(res, pd, utils, entries, maxlen):
  inp = {'dates_to_exclude': list(entries)}
  res.case(('valid', entries), nontrivial=len(entries) > 0,
           sample=inp if len(entries) == maxlen and len(
               set(entries)) == maxlen else None)
  try:
    windows = utils.find_days_to_exclude(list(entries))
    got = utils.expand_time_windows(windows)
  except Exception as e:  # pylint: disable=broad-except
    res.violation('C20/valid-list-raises', dict(inp, exception=repr(e)[:300]))
    return
  want_w = _oracle_windows(entries)
  got_w = None
  try:
    got_w = [(_as_date(pd, w.first_day), _as_date(pd, w.last_day))
             for w in windows]
  except Exception:  # pylint: disable=broad-except
    pass
  if got_w != want_w:
    res.violation('C20/find_days_to_exclude/windows',
                  dict(inp, got=repr(got_w)[:300]))
    return
  if not isinstance(got, list):
    res.violation('C20/expand/returns-list', dict(inp, got=repr(type(got))))
    return
  dates = [_as_date(pd, t) for t in got]
  if any(d is None for d in dates):
    res.violation('C20/expand/elements-are-days', dict(inp, got=repr(
        got)[:300]))
    return
  want = _oracle_days(entries)
  if len(dates) != len(set(dates)):
    res.violation('C20/expand/each-day-exactly-once',
                  dict(inp, n_returned=len(dates), n_distinct=len(set(
                      dates)), n_expected=len(want)))
    return
  if set(dates) != want:
    res.violation(
        'C20/expand/exactly-the-covered-days',
        dict(inp, missing=sorted(str(d) for d in want - set(dates))[:5],
             extra=sorted(str(d) for d in set(dates) - want)[:5]))

def _check_malformed(res, utils, entries, bad):
  inp = {'dates_to_exclude': list(entries), 'malformed_entry': bad}
  res.case(('malformed', entries), nontrivial=True,
           sample=inp if len(entries) == 3 and len(res.samples) < 4 else None)
  try:
    got = utils.expand_time_windows(utils.find_days_to_exclude(
        list(entries)))
  except ValueError:
    return
  except Exception as e:  # pylint: disable=broad-except
    res.violation('C20/malformed/wrong-exception-type',
                  dict(inp, exception=repr(e)[:300]))
    return
  res.violation('C20/malformed/accepted', dict(inp, got=repr(got)[:200]))


def _absorb(res, part):
  res.evaluations += part.evaluations
  res.nontrivial |= part.nontrivial
  for smp in part.samples:
    if len(res.samples) < 5:
      res.samples.append(smp)
  res.violations.extend(part.violations)
  res.notes.extend(part.notes)


def _valid_task(task):
  """All lists of length n over pool that start with pool[first]."""
  import pandas as pd
  from matched_markets.methodology import utils
  first, pool, n, maxlen = task
  res = base.MonitorResult('')
  if n == 0:
    _check_valid(res, pd, utils, (), maxlen)
    return res
  for rest in itertools.product(pool, repeat=n - 1):
    _check_valid(res, pd, utils, (pool[first],) + rest, maxlen)
    if len(res.violations) >= MAX_VIOLATIONS:
      break
  return res


def run(tier, seed):
  import numpy as np
  import pandas as pd
  from matched_markets.methodology import utils
  warnings.simplefilter('ignore')
  rng = np.random.default_rng(seed)
  maxlen = 3 if tier == 'quick' else 4
  if tier == 'quick':
    pool = SINGLES[:6] + RANGES
  else:
    pool = SINGLES + RANGES + EXTRA_THOROUGH
  res = base.MonitorResult(
      'every list (ordered, with repetition: all permutations, duplicates and '
      'overlaps) of <= %d entries from a pool of %d single days / closed '
      'ranges in the documented YYYY/MM/DD format spanning month, year and '
      'leap-day boundaries: the windows returned by find_days_to_exclude equal '
      'the datetime.date oracle, expand_time_windows of them is a list of '
      'midnight Timestamps without duplicates whose set equals the covered '
      'calendar days; %d malformed entries (reversed ranges, empty string, '
      'three pieces, non-dates, missing end points) alone and inserted at '
      'every position of valid lists of <= 2 entries (seeded sample of the '
      'valid companions) must raise ValueError from the composition. '
      'Non-trivial = non-empty list; distinct = the tuple of entries' %
      (maxlen, len(pool), len(MALFORMED)), exhaustive=False)
  res.bound = 'lists of <= %d entries from a fixed pool of %d entries' % (
      maxlen, len(pool))

  tasks = [(0, pool, 0, maxlen)]
  for n in range(1, maxlen + 1):
    tasks.extend((i, pool, n, maxlen) for i in range(len(pool)))
  nproc = min(14, multiprocessing.cpu_count())
  ctx = multiprocessing.get_context('fork')
  with ctx.Pool(nproc, initializer=_init, initargs=(common.REPO,)) as mp_pool:
    parts = mp_pool.map(_valid_task, tasks[::-1], chunksize=1)[::-1]
  for part in parts:
    _absorb(res, part)
  if len(res.violations) >= MAX_VIOLATIONS:
    res.violations = res.violations[:MAX_VIOLATIONS]
    return res
  # Malformed entries: alone, and at every position of valid companions.
  companions = [()]
  companions += [(e,) for e in pool]
  pairs = list(itertools.product(pool, repeat=2))
  n_pairs = 40 if tier == 'quick' else len(pairs)
  idx = sorted(rng.choice(len(pairs), size=min(n_pairs, len(pairs)),
                          replace=False).tolist())
  companions += [pairs[i] for i in idx]
  for bad in MALFORMED:
    for comp in companions:
      for pos in range(len(comp) + 1):
        entries = comp[:pos] + (bad,) + comp[pos:]
        _check_malformed(res, utils, entries, bad)
        if len(res.violations) >= MAX_VIOLATIONS:
          return res
  # Two malformed entries together.
  for b1, b2 in itertools.product(MALFORMED, repeat=2):
    _check_malformed(res, utils, (b1, b2), b1)
    if len(res.violations) >= MAX_VIOLATIONS:
      return res
  return res


if __name__ == '__main__':
  import argparse
  import time
  ap = argparse.ArgumentParser()
  ap.add_argument('--tier', default='quick')
  ap.add_argument('--seed', type=int, default=0)
  a = ap.parse_args()
  _init(common.REPO)
  t0 = time.time()
  r = run(a.tier, a.seed)
  print('C20 tier=%s evaluations=%d distinct_nontrivial=%d violations=%d '
        'wall=%.1fs' % (a.tier, r.evaluations, len(r.nontrivial),
                        len(r.violations), time.time() - t0))
  for v in r.violations[:5]:
    print('VIOLATION', v['what'], v['region'], common.jsonable(v['input']))
