"""C11 run-time contract: count_max_designs = size of the design space."""
import itertools

import numpy as np

from mmverif.monitors import searchlib as sl
from mmverif.props import base

T_RANGES = (None, [1, 1], [2, 3], [1, 2], [5, 6])
C_RANGES = (None, [1, 2], [2, 2], [3, 6])
G_RATIOS = (None, 0.5, 1.0, 0.01)
SETTINGS = []
for _t, _c, _g in itertools.product(T_RANGES, C_RANGES, G_RATIOS):
  _s = {}
  if _t is not None:
    _s['treatment_geos_range'] = _t
  if _c is not None:
    _s['control_geos_range'] = _c
  if _g is not None:
    _s['geo_ratio_tolerance'] = _g
  SETTINGS.append(_s)


def _worker(spec):
  out = {'cases': [], 'viol': [], 'notes': [], 'stats': {}}
  case = sl.Case(spec)
  orc = case.oracle()
  want = orc.size_ratio_count()
  mm, err = sl.try_call(case.new_mm)
  if err is not None:
    out['notes'].append('constructor raised %s (trivial)' %
                        type(err).__name__)
    out['cases'].append((sl.key_of(spec), False, None))
    return out
  def count_and_generate():
    count = mm.count_max_designs()
    pairs = set()
    for n in mm.treatment_group_size_range():
      for t_group in mm.treatment_group_generator(n):
        for c_group in mm.control_group_generator(t_group):
          pairs.add((frozenset(t_group), frozenset(c_group)))
    return count, pairs
  got, err = sl.try_call(count_and_generate)
  if err is not None:
    out['notes'].append('count/generators raised %s (trivial; C09 domain)' %
                        type(err).__name__)
    out['cases'].append((sl.key_of(spec), False, None))
    return out
  count, pairs = got
  bad = []
  if count != len(pairs):
    bad.append('count-vs-generated-pairs')
  if count != want:
    bad.append('count-vs-brute-force')
  if len(pairs) != want:
    bad.append('generated-pairs-vs-brute-force')
  detail = {'count_max_designs': int(count), 'generated_pairs': len(pairs),
            'brute_force': want, 'admitted': sorted(orc.admitted)}
  if spec.get('search'):
    designs, err, _ = sl.run_search(case, 'exhaustive')
    if err is None:
      detail['exhaustive_designs'] = len(designs)
      out['stats']['searches-run'] = 1
      out['stats']['searches-reaching-the-count'] = int(
          len(designs) == count)
      if len(designs) > count:
        bad.append('exhaustive-evaluates-more-than-count')
  out['cases'].append((sl.key_of(spec), want > 0,
                       dict(detail, spec=spec) if want > 2 else None))
  for what in bad:
    out['viol'].append(('C11/' + what, case.describe(**detail), None))
  return out


def run(tier, seed):
  quick = tier == 'quick'
  rng = np.random.default_rng([int(seed), 11])
  specs, k = [], 0
  per_small, per_large = (3, 2) if quick else (12, 6)
  for n in (1, 2, 3, 4, 5) if quick else (1, 2, 3, 4, 5, 6):
    panels = sl.panel_specs(n, rng, 6)
    if n <= 4:
      tables = sl.elig_multisets(n)
    else:
      tables = sl.elig_samples(n, rng, 60 if quick else (
          300 if n == 5 else 120), absent=True)
      if not quick and n == 5:   # all multisets in size order as well
        tables += [list(ms) for ms in
                   itertools.combinations_with_replacement(range(7), 5)]
    for j, table in enumerate([None] + tables):
      for r in range(per_large if n >= 5 or (quick and n == 4) else per_small):
        par = dict(SETTINGS[k % len(SETTINGS)])
        k += 7 if r else 1       # stride: all settings occur for every n
        par['n_designs'] = 100000
        if n >= 4 and k % 5 == 0:
          par['n_geos_max'] = 3
        search = n <= 4 and len(specs) % (6 if quick else 4) == 0
        if search and len(specs) % 12 == 0:
          par['volume_ratio_tolerance'] = 0.5
        specs.append({'panel': panels[(j + r) % len(panels)], 'elig': table,
                      'par': par, 'search': bool(search)})
  res = base.MonitorResult(
      'C11: every multiset of the seven eligibility row types over 1-4 geos '
      '(size order and reversed), %s, and no-eligibility cases, each with %d (<=4 '
      'geos; quick: <=3) or %d (more geos) of the %d combinations of treatment_geos_range x control_geos_range x '
      'geo_ratio_tolerance (rotating so that every combination occurs for '
      'every geo count; some with n_geos_max=3); count_max_designs() vs the '
      'number of distinct pairs from the two generators vs a brute force '
      'over all control/treatment/neither assignments of the admitted geos; '
      'for a share of the <=4-geo cases the exhaustive search (n_designs '
      '= 100000) must not return more designs than the count. non-trivial = '
      'the brute-force count is positive; distinct = case spec' % (
          'seeded tables for 5 geos' if quick else
          'all multisets (size order) plus seeded tables for 5 geos, seeded '
          'tables for 6 geos', per_small, per_large, len(SETTINGS)))
  res.bound = 'n_geos <= %d, %d cases' % (5 if quick else 6, len(specs))
  return sl.sweep(res, _worker, specs)


if __name__ == '__main__':
  sl.main(run, 'c11')
