"""Deterministic experiment-frame generators shared by the TBR / TBRiROAS
run-time monitors (C05, C06, C07, C18), plus a plain-NumPy aggregation and
closed-form oracle that never touches the repository code.

Frame layout (the one of matched_markets/examples/salesandcost.py and of the
repository tests): long format, one row per (geo, date); index = `geo`,
columns `date` (datetime64), `group`, `period`, `response`, `cost`.
Semantics defaults of methodology/semantics.py: group control=1, treatment=2;
period pre=0, test=1, cooldown=2.  Unassigned geos carry another group label
(0, -1 or NaN), days outside the experiment another period label (-1, 3 or
NaN).

A frame is described by a small JSON-able *spec* dict (see `default_spec`); the
per-date group totals depend only on (seed, n_pre, n_test, n_cool, scale, lift,
cost) -- never on the presentation keys (geos per group, unassigned geos, extra
periods, shuffle) -- so that two specs differing only in presentation keys
describe the same experiment (invariance checks).
"""
import itertools

import numpy as np
import pandas as pd

CONTROL, TREATMENT = 1, 2
PRE, TEST, COOL = 0, 1, 2

N_PRE = (3, 4, 10, 40)
N_TEST = (1, 3, 9)
N_COOL = (0, 3)
COSTS = ('zero', 'tiny', 'variable')
TINY = 1e-13

PRESENTATION_KEYS = ('gc', 'gt', 'n_unassigned', 'ulabel', 'extra_before',
                     'extra_after', 'plabel', 'shuffle', 'pres_seed')


def default_spec(**kw):
  spec = dict(
      seed=0,          # seeds the per-date group totals
      n_pre=10, n_test=3, n_cool=0,
      scale=100.0,     # response = scale x shared random walk + noise
      noise=0.05,      # noise s.d. relative to scale
      lift=0.1,        # per-day lift (fraction of scale) in the test period
      cost='zero',     # 'zero' | 'tiny' | 'variable'
      # ---- presentation keys
      gc=1, gt=1,      # geos in control / treatment
      n_unassigned=0, ulabel=0,     # extra geos outside both groups
      extra_before=0, extra_after=0, plabel=-1,   # days outside the experiment
      shuffle=False, pres_seed=0)
  unknown = set(kw) - set(spec)
  if unknown:
    raise KeyError('unknown spec keys %r' % sorted(unknown))
  spec.update(kw)
  return spec


def spec_key(spec):
  """Hashable identity of a spec."""
  def norm(v):
    if isinstance(v, float) and v != v:
      return 'nan'
    return v
  return tuple((k, norm(spec[k])) for k in sorted(spec))


def spec_json(spec):
  return {k: ('nan' if isinstance(v, float) and v != v else v)
          for k, v in spec.items()}


def base_spec(spec):
  """The plain presentation of the same experiment: one geo per group, no
  unassigned geos, no extra days, rows in date order."""
  b = dict(spec)
  b.update(gc=1, gt=1, n_unassigned=0, ulabel=0, extra_before=0, extra_after=0,
           plabel=-1, shuffle=False, pres_seed=0)
  return b


def group_totals(spec):
  """Per-date group totals of the experiment days (pre, test, cooldown).

  Returns a dict of float arrays of length n_pre+n_test+n_cool:
  period, xr, yr (control / treatment response), xc, yc (control / treatment
  cost).
  """
  n_pre, n_test, n_cool = spec['n_pre'], spec['n_test'], spec['n_cool']
  n = n_pre + n_test + n_cool
  rng = np.random.default_rng([int(spec['seed']), n_pre, n_test, n_cool, 7])
  scale = float(spec['scale'])
  walk = 10.0 + np.cumsum(rng.normal(0.0, 1.0, n))
  period = np.array([PRE] * n_pre + [TEST] * n_test + [COOL] * n_cool)
  ratio = rng.uniform(0.5, 2.0)
  xr = scale * (walk + spec['noise'] * rng.normal(0.0, 1.0, n))
  yr = scale * (3.0 + ratio * walk + spec['noise'] * rng.normal(0.0, 1.0, n))
  in_test = period == TEST
  in_cool = period == COOL
  yr = yr + scale * spec['lift'] * (in_test + 0.3 * in_cool)
  # costs
  spend = scale * 0.2 * rng.uniform(0.5, 1.5, n)      # incremental spend
  kind = spec['cost']
  if kind == 'zero':
    xc = np.zeros(n)
    yc = np.where(in_test, spend, 0.0)
  elif kind == 'tiny':
    xc = TINY * rng.uniform(0.1, 1.0, n)
    yc = np.where(in_test, spend, TINY * rng.uniform(0.1, 1.0, n))
  elif kind == 'variable':
    cwalk = 5.0 + 0.2 * np.cumsum(rng.normal(0.0, 1.0, n))
    cwalk = np.abs(cwalk) + 1.0
    cratio = rng.uniform(0.5, 2.0)
    xc = scale * 0.05 * (cwalk + 0.05 * rng.normal(0.0, 1.0, n))
    yc = scale * 0.05 * (0.5 + cratio * cwalk + 0.05 * rng.normal(0.0, 1.0, n))
    yc = yc + np.where(in_test, spend, 0.0)
  elif kind == 'control_dark':
    # both groups spend before the test; the control group goes dark from the
    # first test day on (a variable-cost experiment: non-incremental spend in
    # the pre-period only)
    cwalk = np.abs(5.0 + 0.2 * np.cumsum(rng.normal(0.0, 1.0, n))) + 1.0
    cratio = rng.uniform(0.5, 2.0)
    xc = scale * 0.05 * (cwalk + 0.05 * rng.normal(0.0, 1.0, n))
    yc = scale * 0.05 * (0.5 + cratio * cwalk + 0.05 * rng.normal(0.0, 1.0, n))
    xc = np.where(period == PRE, xc, 0.0)
    yc = yc + np.where(in_test, spend, 0.0)
  else:
    raise KeyError(kind)
  return dict(period=period, xr=xr, yr=yr, xc=xc, yc=yc)


def _split(total, k, rng):
  """Split a series of totals across k geos (k x n array summing to total)."""
  if k == 1:
    return total[None, :].copy()
  w = rng.uniform(0.2, 1.0, (k, 1)) * rng.uniform(0.8, 1.2, (k, len(total)))
  w = w / w.sum(axis=0, keepdims=True)
  parts = w * total[None, :]
  # put the rounding residue on the last geo so that the sum is as close as
  # floating point allows
  parts[-1] = total - parts[:-1].sum(axis=0)
  return parts


def build(spec, resp_mult=1.0, cost_mult=1.0, resp_shift=0.0):
  """Build the long-format frame of `spec`.  `resp_mult`, `cost_mult` multiply
  the response / cost columns of every row."""
  tot = group_totals(spec)
  n_in = len(tot['period'])
  eb, ea = int(spec['extra_before']), int(spec['extra_after'])
  n_all = eb + n_in + ea
  prng = np.random.default_rng([int(spec['pres_seed']), int(spec['seed']), 11])
  dates = pd.date_range('2020-01-01', periods=n_all, freq='D')
  plabel = spec['plabel']
  period = np.concatenate([np.full(eb, plabel, dtype=float),
                           tot['period'].astype(float),
                           np.full(ea, plabel, dtype=float)])
  scale = float(spec['scale'])

  def pad(series, kind):
    """Values of the group totals on the extra days."""
    if kind == 'resp':
      before = scale * prng.uniform(5.0, 15.0, eb)
      after = scale * prng.uniform(5.0, 15.0, ea)
    elif spec['cost'] == 'variable':
      before = scale * 0.05 * prng.uniform(1.0, 5.0, eb)
      after = scale * 0.05 * prng.uniform(1.0, 5.0, ea)
    else:
      before, after = np.zeros(eb), np.zeros(ea)
    return np.concatenate([before, series, after])

  rows = []
  geo_id = itertools.count(1)
  for label, k, r, c in ((CONTROL, spec['gc'], tot['xr'], tot['xc']),
                         (TREATMENT, spec['gt'], tot['yr'], tot['yc'])):
    rparts = _split(pad(r, 'resp'), k, prng)
    cparts = _split(pad(c, 'cost'), k, prng)
    for j in range(k):
      g = next(geo_id)
      rows.append(pd.DataFrame({
          'geo': g, 'date': dates, 'group': float(label), 'period': period,
          'response': rparts[j], 'cost': cparts[j]}))
  for _ in range(int(spec['n_unassigned'])):
    g = next(geo_id)
    resp = scale * prng.uniform(1.0, 20.0, n_all)
    if spec['cost'] == 'variable':
      cost = scale * 0.05 * prng.uniform(1.0, 5.0, n_all)
    else:
      cost = np.zeros(n_all)
    rows.append(pd.DataFrame({
        'geo': g, 'date': dates, 'group': float(spec['ulabel']),
        'period': period, 'response': resp, 'cost': cost}))
  df = pd.concat(rows, ignore_index=True)
  if not (df['group'].isna().any()):
    df['group'] = df['group'].astype(int)
  if not (df['period'].isna().any()):
    df['period'] = df['period'].astype(int)
  if resp_mult != 1.0:
    df['response'] = df['response'] * resp_mult
  if resp_shift != 0.0:
    df['response'] = df['response'] + resp_shift
  if cost_mult != 1.0:
    df['cost'] = df['cost'] * cost_mult
  if spec['shuffle']:
    perm = prng.permutation(len(df))
    df = df.iloc[perm]
  return df.set_index('geo')


def frame_from_totals(period, x, y, xc=None, yc=None):
  """One geo per group frame from literal per-date totals."""
  n = len(period)
  dates = pd.date_range('2020-01-01', periods=n, freq='D')
  xc = np.zeros(n) if xc is None else xc
  yc = np.zeros(n) if yc is None else yc
  c = pd.DataFrame({'geo': 1, 'date': dates, 'group': CONTROL,
                    'period': np.asarray(period, dtype=int),
                    'response': np.asarray(x, float),
                    'cost': np.asarray(xc, float)})
  t = pd.DataFrame({'geo': 2, 'date': dates, 'group': TREATMENT,
                    'period': np.asarray(period, dtype=int),
                    'response': np.asarray(y, float),
                    'cost': np.asarray(yc, float)})
  return pd.concat([c, t], ignore_index=True).set_index('geo')


# --------------------------------------------------------------------------
# Independent oracle (plain NumPy on the raw frame)
# --------------------------------------------------------------------------
def aggregate(df, col):
  """Per-date totals of `col` for control and treatment from the RAW frame,
  with plain Python/NumPy (no groupby).  Returns dates (sorted, as int64 ns),
  period per date, x (control), y (treatment); only dates on which the
  control or treatment group has rows are kept."""
  dates = df['date'].to_numpy().astype('datetime64[ns]').astype(np.int64)
  group = df['group'].to_numpy(dtype=float)
  period = df['period'].to_numpy(dtype=float)
  vals = df[col].to_numpy(dtype=float)
  acc = {}
  for d, g, p, v in zip(dates.tolist(), group.tolist(), period.tolist(),
                        vals.tolist()):
    if g != CONTROL and g != TREATMENT:
      continue
    slot = acc.setdefault(d, [[], [], p])
    slot[0 if g == CONTROL else 1].append(v)
    if not (slot[2] == slot[2]) or (p == p and p > slot[2]):
      slot[2] = p
  ds = sorted(acc)
  # math.fsum would be exactly rounded; pandas uses plain summation, the
  # difference is ~1e-16 relative and the comparison tolerance is 1e-8.
  x = np.array([float(np.sum(acc[d][0])) for d in ds])
  y = np.array([float(np.sum(acc[d][1])) for d in ds])
  per = np.array([acc[d][2] for d in ds], dtype=float)
  return np.array(ds, dtype=np.int64), per, x, y


def ols(x, y):
  """Simple linear regression y = a + b x: a, b, residuals, sigma^2, Sxx.
  Degenerate x (Sxx == 0) gives the minimum-norm least-squares solution (the
  one `numpy.linalg.pinv`, hence statsmodels, returns)."""
  x = np.asarray(x, float)
  y = np.asarray(y, float)
  n = len(x)
  xbar, ybar = x.mean(), y.mean()
  sxx = float(np.sum((x - xbar) ** 2))
  if sxx > 0:
    b = float(np.sum((x - xbar) * (y - ybar)) / sxx)
    a = ybar - b * xbar
  else:
    # columns (1, x) collinear: minimum-norm solution on span{(1, xbar)}
    b = ybar * xbar / (1.0 + xbar ** 2)
    a = ybar / (1.0 + xbar ** 2)
  resid = y - a - b * x
  s2 = float(np.sum(resid ** 2) / (n - 2)) if n > 2 else float('nan')
  return a, b, resid, s2, sxx


def tbr_oracle(per, x, y, use_cooldown, periods=None):
  """Closed-form posterior of the cumulative effect (Kerman 2017, eq. 5).

  Returns dict: df, loc[t], scale[t] (t = 1..T over the analysed days), a, b,
  resid (pre-period), idx (positions of the analysed days), effect (pointwise).
  """
  pre = per == PRE
  if periods is None:
    periods = (TEST, COOL) if use_cooldown else (TEST,)
  ana = np.zeros(len(per), dtype=bool)
  for p in periods:
    ana |= per == p
  xp, yp = x[pre], y[pre]
  n = len(xp)
  a, b, resid, s2, sxx = ols(xp, yp)
  xt, yt = x[ana], y[ana]
  eff = yt - a - b * xt
  t = np.arange(1, len(xt) + 1, dtype=float)
  xbar = xp.mean()
  dev = np.cumsum(xt) - t * xbar
  if sxx > 0:
    var = s2 * (t + t ** 2 / n + dev ** 2 / sxx)
  elif s2 == 0.0:
    var = np.zeros(len(t))      # exact fit of a constant: point mass
  else:
    var = np.full(len(t), np.nan)
  return dict(df=n - 2, loc=np.cumsum(eff), scale=np.sqrt(var), a=a, b=b,
              resid=resid, idx=np.flatnonzero(ana), effect=eff, n=n,
              sigma2=s2, sxx=sxx)


def close(a, b, rtol=1e-8, atol=0.0):
  """Element-wise |a-b| <= atol + rtol*max(|a|,|b|); equal infinities and
  matching NaNs count as close."""
  a = np.asarray(a, float)
  b = np.asarray(b, float)
  if a.shape != b.shape:
    try:
      a, b = np.broadcast_arrays(a, b)
    except ValueError:
      return False
  with np.errstate(all='ignore'):
    same = (a == b) | (np.isnan(a) & np.isnan(b))
    ok = np.abs(a - b) <= atol + rtol * np.maximum(np.abs(a), np.abs(b))
    ok = ok & np.isfinite(a) & np.isfinite(b)
  return bool(np.all(same | ok))


def presentations(tier):
  """Presentation variants (dicts of presentation keys)."""
  nan = float('nan')
  pres = [
      dict(gc=1, gt=1),
      dict(gc=2, gt=3, shuffle=True, pres_seed=1),
      dict(gc=4, gt=1, n_unassigned=2, ulabel=0, shuffle=True, pres_seed=2),
      dict(gc=3, gt=4, n_unassigned=1, ulabel=-1, extra_before=3,
           extra_after=2, plabel=-1, shuffle=True, pres_seed=3),
      dict(gc=1, gt=2, n_unassigned=1, ulabel=nan, extra_before=2,
           extra_after=0, plabel=nan, shuffle=False, pres_seed=4),
      dict(gc=2, gt=2, extra_before=0, extra_after=4, plabel=3, shuffle=True,
           pres_seed=5),
  ]
  return pres


# --------------------------------------------------------------------------
# Worker-pool plumbing shared by the monitors
# --------------------------------------------------------------------------
def _worker_init(repo):
  import os
  import sys
  import warnings
  if not sys.path or sys.path[0] != repo:
    sys.path.insert(0, repo)
  warnings.simplefilter('ignore')
  np.seterr(all='ignore')
  os.environ.setdefault('OMP_NUM_THREADS', '1')


def pool_map(func, tasks, procs=14):
  """Ordered map of `func` over `tasks` in worker processes whose sys.path
  starts with the repository under test."""
  import multiprocessing as mp
  from mmverif import common
  tasks = list(tasks)
  _worker_init(common.REPO)
  procs = max(1, min(int(procs), len(tasks)))
  if procs == 1:
    return [func(t) for t in tasks]
  # import the heavy modules once, before forking, so that workers inherit them
  import matched_markets.methodology.tbr_iroas  # noqa: F401
  import matched_markets.methodology.tbrmmdiagnostics  # noqa: F401
  with mp.Pool(procs, initializer=_worker_init,
               initargs=(common.REPO,)) as pool:
    return pool.map(func, tasks, chunksize=1)


def short_key(*parts):
  """Compact, process-independent hashable identity of an input."""
  import hashlib
  return hashlib.md5(repr(parts).encode()).hexdigest()[:20]


class Collector:
  """What a worker sends back: executed cases and contract failures."""

  def __init__(self):
    self.cases = []        # (key, nontrivial, sample or None)
    self.violations = []   # (what, input, region)
    self._nsample = 0

  def case(self, key, nontrivial=True, sample=None):
    if sample is not None:
      self._nsample += 1
      if self._nsample > 2:
        sample = None
    self.cases.append((key, bool(nontrivial), sample))

  def violation(self, what, inp, region=None):
    # keep the message small: a few per clause and region are enough
    same = sum(1 for w, _, r in self.violations if w == what and r == region)
    if same < 3:
      self.violations.append((what, inp, region))

  def untagged(self):
    return sum(1 for _, _, r in self.violations if r is None)


def absorb(res, collectors, per_region=3, max_untagged=5):
  """Merge worker collectors into a MonitorResult: every case is counted; at
  most `per_region` violations per (clause, known region) and `max_untagged`
  violations outside known regions are recorded."""
  seen = {}
  untagged = 0
  for col in collectors:
    for key, nontrivial, sample in col.cases:
      res.case(key, nontrivial=nontrivial, sample=sample)
    for what, inp, region in col.violations:
      if region is None:
        if untagged >= max_untagged:
          continue
        untagged += 1
      else:
        k = (what, region)
        if seen.get(k, 0) >= per_region:
          continue
        seen[k] = seen.get(k, 0) + 1
      res.violation(what, inp, region)
  return res


def main(run, name):
  """Shared __main__ of the monitors."""
  import argparse
  import sys
  import time
  from mmverif import common
  ap = argparse.ArgumentParser(prog='python -m mmverif.monitors.' + name)
  ap.add_argument('--tier', default='quick', choices=['quick', 'thorough'])
  ap.add_argument('--seed', type=int, default=0)
  args = ap.parse_args()
  sys.path.insert(0, common.REPO)
  t0 = time.time()
  res = run(args.tier, args.seed)
  wall = time.time() - t0
  untagged = [v for v in res.violations if v['region'] is None]
  tagged = [v for v in res.violations if v['region'] is not None]
  print('%s tier=%s repo=%s' % (name, args.tier, common.REPO))
  print('evaluations=%d distinct_nontrivial=%d violations=%d '
        '(known-region=%d) wall=%.1fs' % (
            res.evaluations, len(res.nontrivial), len(untagged), len(tagged),
            wall))
  for reg in sorted({v['region'] for v in tagged}):
    vs = [v for v in tagged if v['region'] == reg]
    print('  region %s: %d recorded, e.g. %s' % (reg, len(vs), vs[0]['what']))
  for v in untagged[:5]:
    print('  VIOLATION %s input=%s' % (v['what'],
                                       str(common.jsonable(v['input']))[:600]))
  for n in res.notes[:5]:
    print('  note: ' + n)
  return 1 if untagged else 0
