"""C18 run-time monitor: TBRiROAS.estimate_pointwise_and_cumulative_effect is
well-formed for any experiment fitted with cooldown.

    cd /verif && .venv/bin/python -m mmverif.monitors.c18 --tier quick
"""
import numpy as np

from mmverif.monitors import tbrlib as L
from mmverif.props import base

# ---- known-finding regions -------------------------------------------------
REGION_LOW_LEVEL = 'C06:one-tailed-level<0.5'
# The frame has at least one date whose period label is none of pre / test /
# cooldown (e.g. -1, 3 or NaN) and on which the treatment group has rows: the
# treatment vector is taken over ALL dates but the bounds over the experiment
# dates only, so the call raises ValueError (length mismatch) for every metric,
# level and tails.
REGION_EXTRA_DATES = 'C18:dates-outside-experiment'
# Non-constant branch (metric tbr_response, or tbr_cost in the variable-cost
# scenario), tail probability < 0.5, and the scale of the cumulative posterior
# decreases somewhere: exists analysed day t >= 2 with
#   t + t^2/n + D_t^2/Sxx < (t-1) + (t-1)^2/n + D_{t-1}^2/Sxx,
#   D_t = sum_{s<=t} (x_s - mean_pre(x)).
# The pointwise bounds are first differences of the cumulative quantiles,
# lower_t = e_t - q (s_t - s_{t-1}), so lower_t > estimate_t and the series
# container raises ValueError('lower bound is not smaller than point
# estimate.').
REGION_SCALE_DECREASES = 'C18:cumulative-scale-decreases'
# tails == 1 and level == 0.5 (tail probability exactly 0.5) on the
# non-constant branch: both bounds coincide with the estimate mathematically,
# but are computed by another floating-point route (first differences of
# cumulative sums), so the exact comparison of the container fails on rounding.
REGION_HALF = 'C18:one-tailed-level=0.5-rounding'

LEVELS = (0.5, 0.8, 0.9, 0.99, 0.3)
TAILS = (1, 2)
METRICS = (('tbr_response', 'response'), ('tbr_cost', 'cost'))


def presentations():
  nan = float('nan')
  return [
      dict(gc=1, gt=1),
      dict(gc=2, gt=3, shuffle=True, pres_seed=1),
      dict(gc=4, gt=1, n_unassigned=2, ulabel=0, shuffle=True, pres_seed=2),
      dict(gc=1, gt=2, n_unassigned=1, ulabel=nan, pres_seed=3),
      dict(gc=3, gt=4, n_unassigned=1, ulabel=-1, shuffle=True, pres_seed=4),
      # dates outside the experiment (known region)
      dict(gc=2, gt=2, extra_before=3, extra_after=2, plabel=-1, shuffle=True,
           pres_seed=5),
      dict(gc=1, gt=1, extra_after=4, plabel=3, pres_seed=6),
      dict(gc=1, gt=2, extra_before=2, plabel=nan, pres_seed=7),
  ]


def _tasks(tier, seed):
  rng = np.random.default_rng(seed)
  n_seeds = 2 if tier == 'quick' else 12
  seeds = [int(s) for s in rng.integers(0, 2 ** 31 - 1, n_seeds)]
  pres = presentations()
  tasks = []
  i = 0
  for s in seeds:
    for n_pre in L.N_PRE:
      for n_test in L.N_TEST:
        for n_cool in L.N_COOL:
          for cost in L.COSTS + ('control_dark',):
            # 5 of 8 slots go to frames without extra dates
            j = (0, 1, 5, 2, 3, 6, 4, 0, 7, 1)[i % 10]
            i += 1
            # every third frame is analysed by an object that was fitted
            # (and asked for a report) on ANOTHER frame of the same shape
            # before: the report must be that of the current fit
            tasks.append(dict(seed=s, n_pre=n_pre, n_test=n_test,
                              n_cool=n_cool, cost=cost, pres=pres[j],
                              refit=(i % 3 == 0)))
  return tasks


def _work(task):
  from scipy import stats
  from matched_markets.methodology import tbr_iroas
  col = L.Collector()
  spec = L.default_spec(seed=task['seed'], n_pre=task['n_pre'],
                        n_test=task['n_test'], n_cool=task['n_cool'],
                        cost=task['cost'], **task['pres'])
  sj = L.spec_json(spec)
  frame = L.build(spec)
  extra = spec['extra_before'] + spec['extra_after'] > 0
  model = tbr_iroas.TBRiROAS(use_cooldown=True)
  if task.get('refit'):
    other = L.build(L.default_spec(
        seed=task['seed'] + 1, n_pre=task['n_pre'], n_test=task['n_test'],
        n_cool=task['n_cool'], cost=task['cost'], **task['pres']))
    try:
      model.fit(other)
      for metric, _ in METRICS:
        model.estimate_pointwise_and_cumulative_effect(metric=metric,
                                                       level=0.9, tails=2)
      model.summary(level=0.9, posterior_threshold=0.0, tails=1,
                    random_state=1)
    except Exception:  # pylint: disable=broad-except
      pass           # the earlier use is only there to leave state behind
    sj = dict(sj, refit_after_seed=task['seed'] + 1)
  model.fit(frame)
  fixed = bool(model._is_fixed_cost_scenario())   # label checked by C07
  for metric, column in METRICS:
    dates, per, x, y = L.aggregate(frame, column)
    orc = L.tbr_oracle(per, x, y, True)
    in_exp = (per == L.PRE) | (per == L.TEST) | (per == L.COOL)
    pre = per[in_exp] == L.PRE
    constant = fixed and metric == 'tbr_cost'
    decreasing = (not constant) and bool(np.any(np.diff(orc['scale']) < 0))
    atol = 1e-10 * float(np.sum(np.abs(y)))
    tbr_model = getattr(model, metric)
    for level in LEVELS:
      for tails in TAILS:
        tail_p = (1.0 - level) / tails
        if extra:
          region = REGION_EXTRA_DATES
        elif tails == 1 and level < 0.5:
          region = REGION_LOW_LEVEL
        elif decreasing and tail_p < 0.5:
          region = REGION_SCALE_DECREASES
        elif tails == 1 and level == 0.5 and not constant:
          region = REGION_HALF
        else:
          region = None
        inp = dict(spec=sj, metric=metric, level=level, tails=tails,
                   fixed_cost_scenario=fixed)
        key = L.short_key(L.spec_key(spec), metric, level, tails)
        try:
          out = model.estimate_pointwise_and_cumulative_effect(
              metric=metric, level=level, tails=tails)
        except Exception as e:  # pylint: disable=broad-except
          col.case(key, nontrivial=False)
          col.violation('C18/report-succeeds',
                        dict(inp, error='%s: %s' % (type(e).__name__,
                                                    str(e)[:120])), region)
          continue
        col.case(key, nontrivial=region is None,
                 sample=dict(inp, days=int(in_exp.sum())))
        cf, pw, cum = (out.counterfactual, out.pointwise_difference,
                       out.cumulative_effect)
        bad = False
        for name, ser, n_rows in (('counterfactual', cf, int(in_exp.sum())),
                                  ('pointwise_difference', pw,
                                   int(in_exp.sum())),
                                  ('cumulative_effect', cum,
                                   len(orc['idx']))):
          e = ser['estimate'].to_numpy(float)
          lo = ser['lower'].to_numpy(float)
          up = ser['upper'].to_numpy(float)
          if len(e) != n_rows:
            col.violation('C18/%s/one-row-per-date' % name, inp, region)
            bad = True
            continue
          if not (np.all(np.isfinite(e)) and np.all(np.isfinite(lo)) and
                  np.all(np.isfinite(up))):
            col.violation('C18/%s/finite' % name, inp, region)
            bad = True
          elif not (np.all(lo <= e) and np.all(e <= up)):
            col.violation('C18/%s/lower<=estimate<=upper' % name, inp, region)
          d = ser['date'].to_numpy().astype('datetime64[ns]').astype(np.int64)
          want = dates[in_exp] if name != 'cumulative_effect' else dates[
              orc['idx']]
          if not np.array_equal(d, want):
            col.violation('C18/%s/dates' % name, inp, region)
            bad = True
        if bad:
          continue
        observed = y[in_exp]
        if not L.close(cf['estimate'].to_numpy(float) +
                       pw['estimate'].to_numpy(float), observed, atol=atol):
          col.violation('C18/counterfactual+difference=observed', inp, region)
        if not L.close(pw['estimate'].to_numpy(float)[pre], orc['resid'],
                       atol=atol):
          col.violation('C18/pre-period-difference=ols-residuals', inp, region)
        if not L.close(pw['estimate'].to_numpy(float)[~pre], orc['effect'],
                       atol=atol):
          col.violation('C18/test-period-difference=causal-effect', inp,
                        region)
        # cumulative effect on the last date vs the TBR posterior
        loc, scale, dof = float(orc['loc'][-1]), float(
            orc['scale'][-1]), orc['df']
        q_lo = float(stats.t.ppf(tail_p, dof))
        q_up = float(stats.t.ppf(1.0 - tail_p, dof))
        qtol = atol + 1e-9 * (abs(loc) + scale * max(abs(q_lo), abs(q_up)))
        last = cum.iloc[-1]
        if not L.close(float(last['estimate']), loc, atol=atol):
          col.violation('C18/cumulative-last/estimate=incremental-effect', inp,
                        region)
        if not (L.close(float(last['lower']), loc + scale * q_lo, atol=qtol)
                and L.close(float(last['upper']), loc + scale * q_up,
                            atol=qtol)):
          col.violation('C18/cumulative-last/bounds=posterior-quantiles', inp,
                        region)
        if scale > 0:
          dist = tbr_model.causal_cumulative_distribution(time=-1)
          if not (L.close(float(last['estimate']), float(dist.kwds['loc']),
                          atol=atol) and
                  L.close(float(last['lower']), float(dist.ppf(tail_p)),
                          atol=qtol) and
                  L.close(float(last['upper']), float(dist.ppf(1 - tail_p)),
                          atol=qtol)):
            col.violation('C18/cumulative-last=causal_cumulative_distribution',
                          inp, region)
    if col.untagged() > 5:
      return col
  return col


def run(tier, seed):
  tasks = _tasks(tier, seed)
  res = base.MonitorResult(
      'experiment frames from mmverif.monitors.tbrlib: n_pre in {3,4,10,40} x '
      'n_test in {1,3,9} x cooldown {0,3} days x cost scenario {zero, '
      'tiny(1e-13), variable} x seeds, cycling through 8 presentations (1-4 '
      'geos per group, unassigned geos labelled 0/-1/NaN, shuffles; 3 of them '
      'with dates outside the experiment); fit with use_cooldown=True (every '
      'third frame on an object already fitted and used on another frame), then '
      'estimate_pointwise_and_cumulative_effect for metric in {tbr_response, '
      'tbr_cost} x level in {0.5,0.8,0.9,0.99,0.3} x tails in {1,2}, checked '
      'against a NumPy recomputation from the raw frame. non-trivial = the '
      'call returned and the input is outside every known-finding region; '
      'distinct = (spec, metric, level, tails)', exhaustive=False)
  res.bound = ('n_pre <= 40, n_test <= 9, cooldown <= 3 days, %d frames' %
               len(tasks))
  L.absorb(res, L.pool_map(_work, tasks))
  return res


if __name__ == '__main__':
  import sys
  sys.exit(L.main(run, 'c18'))
