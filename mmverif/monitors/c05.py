"""C05 run-time monitor: required impact is calibrated to the TBR post-analysis
at the stated power.

    cd /verif && .venv/bin/python -m mmverif.monitors.c05 --tier quick

Identities asserted (n = pretest length, T = n_test, q(p) = t.ppf(p, n-2)):
  phi    = F(1, n-1).ppf(flevel)
  dx*^2  = phi (n+1) var0(x) / (T (n-1))
  sigma  = std(y, ddof=2) sqrt(1 - corr^2)     (== residual s.d. of y ~ x when
                                                corr = corr(x, y))
  SCALE  = T sigma sqrt((1 + dx*^2/var0(x))/n + 1/T)
  estimate_required_impact(corr) == (q(sig) + q(power)) SCALE
and on the experiment frame [pretest (x, y)] + [T test days with control
== mean(x) +- dx*, treatment == a + b control + impact/T]:
  TBR.summary(level=sig, tails=1): estimate == impact, scale == SCALE,
     lower == estimate - q(sig) scale == q(power) SCALE, precision == q(sig)
     SCALE (sig >= 0.5);
  TBRMMDiagnostics.tbrfit(mean(x) +- dx*, mean(treatment test)):
     estimate == impact, scale == SCALE, cihw == q(sig) SCALE.
"""
import numpy as np

from mmverif.monitors import tbrlib as L
from mmverif.props import base

REGION = 'C05:sig+power<=1'

N_PRE = (5, 10, 30, 90)
N_TEST = (1, 7, 14, 28)
LEVELS = (0.6, 0.8, 0.9, 0.95)
LOW_PAIRS = ((0.4, 0.4), (0.5, 0.5), (0.3, 0.6), (0.4, 0.6))
FLEVELS = (0.9, 0.95, 0.99)
CORRS = (0.0, 0.1, 0.3, 0.5, 0.7, 0.9, 0.99, 0.995)
MULTS = (0.125, 2.0, 1024.0)
SHIFTS = (128.0, -4096.0)


def _series(n, seed, tight=False):
  """Seeded pretest pair: control = level + random walk, treatment = affine in
  the control plus noise (residual variance > 0).  `tight` pairs are almost
  collinear (correlation above the default rho_max = 0.995), so that the
  required impact is exercised at correlations no cap should touch."""
  rng = np.random.default_rng([seed, n, 5])
  x = 200.0 + 10.0 * np.cumsum(rng.normal(0, 1, n)) + rng.normal(0, 2, n)
  b = rng.uniform(0.3, 3.0)
  sd = rng.uniform(2.0, 20.0)
  if tight:
    sd = 0.02 * b * float(np.std(x))
  y = 50.0 + b * x + rng.normal(0, sd, n)
  return x, y


def _tasks(tier, seed):
  rng = np.random.default_rng(seed)
  n_seeds = 1 if tier == 'quick' else 8
  seeds = [int(s) for s in rng.integers(0, 2 ** 31 - 1, n_seeds)]
  tasks = []
  for s in seeds:
    for n in N_PRE:
      for n_test in N_TEST:
        for chunk in range(4):
          tasks.append(dict(seed=s, n=n, n_test=n_test, chunk=chunk))
  return tasks


def _work(task):
  from scipy import stats
  from matched_markets.methodology import tbr as tbr_mod
  from matched_markets.methodology import tbrmmdesignparameters as dp
  from matched_markets.methodology import tbrmmdiagnostics as dg
  col = L.Collector()
  n, n_test, seed = task['n'], task['n_test'], task['seed']
  x, y = _series(n, seed, tight=(task['chunk'] == 3))
  var0 = float(np.var(x))                 # ddof = 0
  rho = float(np.corrcoef(x, y)[0, 1])
  a, b, resid, s2, sxx = L.ols(x, y)
  pairs = [(s, p) for s in LEVELS for p in LEVELS] + list(LOW_PAIRS)
  pairs = pairs[task['chunk']::4]
  for sig, power in pairs:
    for flevel in FLEVELS:
      inp = dict(series_seed=seed, n=n, n_test=n_test, sig_level=sig,
                 power_level=power, flevel=flevel,
                 tight=(task['chunk'] == 3), corr=rho,
                 generator='mmverif.monitors.c05._series(n, series_seed, '
                           'tight)')
      par = dp.TBRMMDesignParameters(n_test=n_test, iroas=1.0, sig_level=sig,
                                     power_level=power, flevel=flevel)
      in_region = sig + power <= 1.0 + 1e-12
      region = REGION if in_region else None
      key = L.short_key(seed, n, n_test, sig, power, flevel)
      col.case(key, nontrivial=s2 > 0 and not in_region, sample=inp)
      diag = dg.TBRMMDiagnostics(y, par)
      dof = n - 2
      q_sig = float(stats.t.ppf(sig, dof))
      q_pow = float(stats.t.ppf(power, dof))
      phi = float(stats.f(1, n - 1).ppf(flevel))
      dx2 = phi * (n + 1) * var0 / (n_test * (n - 1))
      sd2 = float(np.std(y, ddof=2))

      def scale_of(corr):
        sigma = sd2 * np.sqrt(1.0 - corr ** 2)
        return n_test * sigma * np.sqrt((1.0 + dx2 / var0) / n + 1.0 / n_test)

      # (a) closed form, on a grid of correlations and at the actual one
      for corr in CORRS + tuple(-c for c in CORRS[1:]) + (rho,):
        got = diag.estimate_required_impact(corr)
        want = (q_sig + q_pow) * scale_of(corr)
        if not L.close(got, want, atol=1e-12 * scale_of(corr)):
          col.violation('C05/closed-form', dict(inp, corr=corr))
          break
      # (a') the real post-analysis detects exactly that lift
      diag.x = x
      impact = float(diag.required_impact)
      scale = float(scale_of(rho))
      if not L.close(impact, (q_sig + q_pow) * scale, atol=1e-12 * scale):
        col.violation('C05/required_impact-property', inp)
      for sign in (1.0, -1.0):
        xt = float(x.mean() + sign * np.sqrt(dx2))
        x_test = np.full(n_test, xt)
        y_test = a + b * x_test + impact / n_test
        frame = L.frame_from_totals(
            [L.PRE] * n + [L.TEST] * n_test,
            np.concatenate([x, x_test]), np.concatenate([y, y_test]))
        model = tbr_mod.TBR(use_cooldown=False)
        model.fit(frame, 'response')
        summ = model.summary(level=sig, tails=1, report='last')
        est = float(summ['estimate'].iloc[0])
        low = float(summ['lower'].iloc[0])
        scl = float(summ['scale'].iloc[0])
        prec = float(summ['precision'].iloc[0])
        # absolute floor: the figures are sums of differences of the series
        atol = 1e-10 * float(np.sum(np.abs(y_test))) + 1e-9 * abs(
            q_sig * scale)
        inp2 = dict(inp, displaced=sign)
        if not L.close(est, impact, atol=atol):
          col.violation('C05/post-analysis/estimate=lift', inp2)
        if not L.close(scl, scale):
          col.violation('C05/post-analysis/scale=SCALE', inp2)
        if not L.close(low, q_pow * scale, atol=atol):
          col.violation('C05/post-analysis/lower=q_power*scale', inp2)
        if not L.close(low, est - q_sig * scl, atol=atol):
          col.violation('C05/post-analysis/lower=estimate-q_sig*scale', inp2)
        if not L.close(prec, abs(q_sig) * scale, atol=atol):
          col.violation('C05/post-analysis/precision=|q_sig|*scale', inp2)
        fit = diag.tbrfit(xt, float(y_test.mean()))
        if not (L.close(fit.estimate, impact, atol=atol) and
                L.close(fit.scale, scale) and
                L.close(fit.cihw, q_sig * scale, atol=1e-12 * scale) and
                L.close(fit.sigma, np.sqrt(s2))):
          col.violation('C05/design-side-fit', inp2)
      # (b) linear in the response unit, (c) level-shift invariant
      base_imp = [diag_impact(dg, y, par, c) for c in (0.0, 0.6, -0.95)]
      for mult in MULTS:
        got = [diag_impact(dg, mult * y, par, c) for c in (0.0, 0.6, -0.95)]
        d2 = dg.TBRMMDiagnostics(mult * y, par)
        d2.x = mult * x
        d3 = dg.TBRMMDiagnostics(y, par)
        d3.x = mult * x
        if not (L.close(got, [mult * v for v in base_imp]) and
                L.close(d2.required_impact, mult * impact,
                        atol=1e-12 * mult * scale) and
                L.close(d3.required_impact, impact, atol=1e-12 * scale)):
          col.violation('C05/linear-scaling', dict(inp, mult=mult))
      for shift in SHIFTS:
        got = [diag_impact(dg, y + shift, par, c) for c in (0.0, 0.6, -0.95)]
        d2 = dg.TBRMMDiagnostics(y + shift, par)
        d2.x = x - 3.0 * shift
        if not (L.close(got, base_imp, atol=1e-12 * scale) and
                L.close(d2.required_impact, impact, atol=1e-10 * scale)):
          col.violation('C05/level-shift', dict(inp, shift=shift))
      # (d) symmetric in corr and strictly decreasing in |corr|
      vals = [diag.estimate_required_impact(c) for c in CORRS]
      neg = [diag.estimate_required_impact(-c) for c in CORRS]
      if not L.close(vals, neg, atol=1e-12 * scale):
        col.violation('C05/symmetric-in-corr', inp, None)
      if not all(v1 > v2 for v1, v2 in zip(vals, vals[1:])):
        col.violation('C05/strictly-decreasing-in-|corr|',
                      dict(inp, corrs=list(CORRS), impacts=vals), region)
      if col.untagged() > 5:
        return col
  return col


def diag_impact(dg, y, par, corr):
  return float(dg.TBRMMDiagnostics(y, par).estimate_required_impact(corr))


def run(tier, seed):
  tasks = _tasks(tier, seed)
  res = base.MonitorResult(
      'pretest pairs (x, y) = seeded random walk and an affine image plus '
      'noise, n in {5,10,30,90} x seeds; parameters n_test in {1,7,14,28} x '
      '(sig_level, power_level) in {0.6,0.8,0.9,0.95}^2 plus the sum<=1 '
      'pairs (0.4,0.4),(0.5,0.5),(0.3,0.6),(0.4,0.6) x flevel in '
      '{0.9,0.95,0.99}; per case: closed form on 16 correlations, the real '
      'TBR post-analysis on the constructed experiment frame (control '
      'displaced by +-dx*), the design-side tbrfit, scaling by 2^-3/2/2^10, '
      'level shifts, symmetry and strict monotonicity in |corr|. non-trivial '
      '= residual variance > 0 and sig_level + power_level > 1; distinct = '
      '(series seed, n, n_test, sig, power, flevel)', exhaustive=False)
  res.bound = ('n <= 90, n_test <= 28, %d (series, n_test) pairs' %
               (len(tasks) // 4))
  L.absorb(res, L.pool_map(_work, tasks))
  res.notes.append(
      'identities: required_impact == (q(sig)+q(power))*SCALE; TBR summary('
      'level=sig, tails=1) on the displaced frame: estimate == impact, scale '
      '== SCALE, lower == q(power)*SCALE; tbrfit: estimate == impact, scale '
      '== SCALE, cihw == q(sig)*SCALE')
  return res


if __name__ == '__main__':
  import sys
  sys.exit(L.main(run, 'c05'))
