"""C10 run-time contract: no hidden state in the search API."""
import copy
import dataclasses

import numpy as np

from mmverif.monitors import searchlib as sl
from mmverif.props import base

PROPS = ('geos_over_budget', 'geos_too_large', 'geos_must_include',
         'geos_within_constraints', 'geo_assignments')
CALLS = PROPS + ('size_range', 'count', 'tgen', 'cgen', 'exhaustive',
                 'greedy', 'results')
SEARCHES = ('exhaustive', 'greedy')


def _norm(v):
  """Comparable, JSON-friendly image of an answer."""
  if isinstance(v, (set, frozenset)):
    return ('set', frozenset(v))
  if isinstance(v, range):
    return ('range', tuple(v))
  if isinstance(v, (list, tuple)):
    return tuple(_norm(x) for x in v)
  if hasattr(v, 'treatment_geos') and hasattr(v, 'score'):
    return ('design',) + sl.design_sets(v) + (sl.score_tuple(v),)
  if dataclasses.is_dataclass(v):
    return tuple((f.name, _norm(getattr(v, f.name)))
                 for f in dataclasses.fields(v))
  return v


def _same(a, b):
  if isinstance(a, tuple) and isinstance(b, tuple):
    return len(a) == len(b) and all(_same(x, y) for x, y in zip(a, b))
  if isinstance(a, float) or isinstance(b, float):
    return (isinstance(a, (int, float)) and isinstance(b, (int, float)) and
            sl.close(a, b))
  return type(a) == type(b) and a == b   # pylint: disable=unidiomatic-typecheck


def _call(mm, call, case):
  """Answer of one call (normalised), exceptions included as answers."""
  name = call[0]
  def go():
    if name in PROPS:
      return getattr(mm, name)
    if name == 'size_range':
      return mm.treatment_group_size_range()
    if name == 'count':
      return mm.count_max_designs()
    if name == 'tgen':
      return list(mm.treatment_group_generator(call[1]))
    if name == 'cgen':
      return list(mm.control_group_generator(set(call[1])))
    if name in SEARCHES:
      return getattr(mm, name + '_search')()
    if name == 'results':
      return mm.search_results()
    raise AssertionError(name)
  val, err = sl.try_call(go)
  if err is not None:
    return ('raised', type(err).__name__, str(err)[:200])
  return _norm(val)


def _resolve(case, seq):
  """Turn ('cgen', n, j) into a concrete treatment group: the j-th group the
  generator of a fresh object yields for size n ({0} when there is none)."""
  out = []
  for call in seq:
    call = tuple(call)
    if call[0] == 'cgen':
      mm, err = sl.try_call(case.new_mm)
      groups = []
      if err is None:
        groups, err = sl.try_call(
            lambda: list(mm.treatment_group_generator(call[1])))
      group = sorted(groups[call[2] % len(groups)]) if groups else [0]
      call = ('cgen', [int(g) for g in group])
    out.append(call)
  return out


def _worker(spec):
  out = {'cases': [], 'viol': [], 'notes': [], 'stats': {}}
  case = sl.Case(spec)
  seq = _resolve(case, spec['seq'])
  frame0 = case.frame.copy(deep=True)
  par = case.par()
  par0 = copy.deepcopy(dataclasses.asdict(par))
  mm, err = sl.try_call(lambda: case.new_mm(par=par))
  if err is not None:
    out['cases'].append((sl.key_of(spec), False, None))
    return out
  bad, last_search, found_designs, n_calls = [], None, False, 0
  for i, call in enumerate(seq):
    if call[0] == 'results':
      if last_search is None:     # AttributeError on a fresh object: skipped
        continue
      got, want = _call(mm, call, case), last_search
    else:
      got = _call(mm, call, case)
      fresh, err = sl.try_call(case.new_mm)
      if err is not None:
        continue
      want = _call(fresh, call, case)
    n_calls += 1
    if not _same(got, want):
      bad.append(('call-%s-differs-from-fresh-object' % call[0],
                  {'position': i, 'got': repr(got)[:400],
                   'fresh': repr(want)[:400]}))
    if call[0] in SEARCHES and got[:1] != ('raised',):
      last_search = got
      found_designs = found_designs or len(got) > 0
      for rep in (1, 2):          # repeated retrieval
        again = _call(mm, ('results',), case)
        if not _same(again, got):
          bad.append(('search_results-repeat-%d-differs' % rep,
                      {'position': i, 'search': repr(got)[:400],
                       'again': repr(again)[:400]}))
          break
  if dataclasses.asdict(par) != par0:
    bad.append(('parameters-modified',
                {'before': par0, 'after': dataclasses.asdict(par)}))
  if not (list(case.frame.columns) == list(frame0.columns) and
          case.frame.equals(frame0) and
          list(case.frame.index) == list(frame0.index)):
    bad.append(('input-frame-modified', {}))
  out['cases'].append((sl.key_of(spec), found_designs and n_calls >= 2,
                       {'sequence': seq, 'spec': spec}))
  out['stats']['calls-compared'] = n_calls
  seen = set()
  for what, detail in bad:
    if what in seen:
      continue
    seen.add(what)
    out['viol'].append(('C10/' + what,
                        case.describe(sequence=seq, detail=detail), None))
  return out


def _sequence(rng, n_geos):
  length = int(rng.integers(2, 7))
  seq = []
  for _ in range(length):
    # searches are drawn more often than each single query
    name = CALLS[int(rng.integers(len(CALLS)))] if rng.random() < 0.65 else (
        SEARCHES + ('results',))[int(rng.integers(3))]
    if name == 'tgen':
      seq.append(['tgen', int(rng.integers(0, n_geos + 1))])
    elif name == 'cgen':
      seq.append(['cgen', int(rng.integers(1, max(2, n_geos))),
                  int(rng.integers(8))])
    else:
      seq.append([name])
  return seq


def run(tier, seed):
  quick = tier == 'quick'
  rng = np.random.default_rng([int(seed), 10])
  pars = sl.par_specs(rng, 150 if quick else 400, n_designs=(1, 3),
                      p_present=0.3)
  specs = sl.case_specs(seed, enum_geos=(2,) if quick else (2, 3),
                        sample_geos=(3, 4) if quick else (4, 5),
                        n_sample=190 if quick else 500, pars=pars,
                        n_default=20, salt=10)
  for s in specs:
    s['seq'] = _sequence(rng, s['panel']['n_geos'])
  res = base.MonitorResult(
      'C10: seeded call sequences (length 2-6) over the five constraint-set '
      'properties, treatment_group_size_range, count_max_designs, the two '
      'group generators (seeded sizes / groups), both searches and '
      'search_results on ONE object; every answer (exceptions included) is '
      'compared with the answer of a freshly built object to the same call; '
      'search_results() is compared with the latest search of the sequence '
      '(skipped before the first search) and called twice more after each '
      'search; dataclasses.asdict(parameters) and the input frame are '
      'compared with deep copies taken before. Inputs: eligibility multisets '
      '/ seeded tables up to %d geos x panels x parameter objects. '
      'non-trivial = some search in the sequence returned a design and at '
      'least two calls were compared; distinct = (case spec, sequence)' %
      (4 if quick else 5))
  res.bound = 'n_geos <= %d, sequence length <= 6, %d sequences' % (
      4 if quick else 5, len(specs))
  return sl.sweep(res, _worker, specs)


if __name__ == '__main__':
  sl.main(run, 'c10')
