"""C17 run-time contract monitor: TBRMMDesignParameters domain.

The constructor must succeed exactly when every field is in its documented
domain (class docstring) and raise ValueError otherwise.  The domain oracle
DOMAIN below is a table of plain predicates written from the docstring, not
from the validation helpers of the repository.
"""
import decimal
import fractions
import itertools
import math
import sys
import warnings

from mmverif import common
from mmverif.props import base

ID = 'C17'
MAX_VIOLATIONS = 5
INF = float('inf')
NAN = float('nan')


def _init(repo):
  warnings.simplefilter('ignore')
  if repo in sys.path:
    sys.path.remove(repo)
  sys.path.insert(0, repo)


# ------------------------------------------------------------------ oracle
def _num(v):
  """A Python number of type int (bool included) or float."""
  return isinstance(v, (int, float))


def _integral(v):
  if isinstance(v, int):
    return True
  return isinstance(v, float) and v == v and abs(v) != INF and (
      math.floor(v) == v)


def _pair(v):
  return isinstance(v, tuple) and len(v) == 2 and _num(v[0]) and _num(v[1])


def _opt(pred):
  return lambda v: v is None or pred(v)


def _int_at_least(k):
  return lambda v: _num(v) and _integral(v) and v >= k


def _int_pair(v):
  return (_pair(v) and _integral(v[0]) and _integral(v[1]) and
          1 <= v[0] <= v[1] < INF)


DOMAIN = {
    'n_test': _int_at_least(1),
    'iroas': lambda v: _num(v) and v >= 0,
    'volume_ratio_tolerance': _opt(lambda v: _num(v) and v > 0),
    'geo_ratio_tolerance': _opt(lambda v: _num(v) and v > 0),
    'treatment_share_range': _opt(lambda v: _pair(v) and 0 < v[0] < v[1] < 1),
    'budget_range': _opt(lambda v: _pair(v) and 0 <= v[0] < v[1] < INF),
    'treatment_geos_range': _opt(_int_pair),
    'control_geos_range': _opt(_int_pair),
    'n_geos_max': _opt(_int_at_least(2)),
    'n_pretest_max': _int_at_least(3),
    'n_designs': _int_at_least(1),
    'sig_level': lambda v: _num(v) and 0 < v < 1,
    'power_level': lambda v: _num(v) and 0 < v < 1,
    'min_corr': lambda v: _num(v) and 0.8 <= v < 1,
    'rho_max': lambda v: _num(v) and 0.9 <= v < 1,
    'flevel': lambda v: _num(v) and 0.9 <= v < 1,
}
FIELDS = list(DOMAIN)
# The numeric bounds that appear in the documented domain of each field.
BOUNDS = {
    'n_test': [1], 'iroas': [0.0], 'volume_ratio_tolerance': [0.0],
    'geo_ratio_tolerance': [0.0], 'treatment_share_range': [0.0, 1.0],
    'budget_range': [0.0, INF], 'treatment_geos_range': [1, INF],
    'control_geos_range': [1, INF], 'n_geos_max': [2], 'n_pretest_max': [3],
    'n_designs': [1], 'sig_level': [0.0, 1.0], 'power_level': [0.0, 1.0],
    'min_corr': [0.8, 1.0], 'rho_max': [0.9, 1.0], 'flevel': [0.9, 1.0],
}
RANGE_FIELDS = ['treatment_share_range', 'budget_range',
                'treatment_geos_range', 'control_geos_range']
DOC_DEFAULTS = {
    'volume_ratio_tolerance': None, 'geo_ratio_tolerance': None,
    'treatment_share_range': None, 'budget_range': None,
    'treatment_geos_range': None, 'control_geos_range': None,
    'n_geos_max': None, 'n_pretest_max': 90, 'n_designs': 1,
    'sig_level': 0.9, 'power_level': 0.8, 'min_corr': 0.8, 'rho_max': 0.995,
    'flevel': 0.9,
}
BASELINES = [
    dict(n_test=14, iroas=3.0, volume_ratio_tolerance=0.1,
         geo_ratio_tolerance=0.25, treatment_share_range=(0.2, 0.6),
         budget_range=(10.0, 1000.0), treatment_geos_range=(2, 5),
         control_geos_range=(1, 8), n_geos_max=10, n_pretest_max=60,
         n_designs=3, sig_level=0.9, power_level=0.8, min_corr=0.85,
         rho_max=0.99, flevel=0.95),
    dict(n_test=7, iroas=1.0),
]


def _nbrs(b):
  import numpy as np
  if isinstance(b, float) and abs(b) == INF:
    return [float(np.nextafter(b, 0.0))]
  b = float(b)
  return [float(np.nextafter(b, -INF)), float(np.nextafter(b, INF))]


def _scalar_grid(field):
  g = []
  for b in BOUNDS[field]:
    g.append(b)
    if isinstance(b, int):
      g.append(float(b))
    elif abs(b) != INF and b == math.floor(b):
      g.append(int(b))
    g.extend(_nbrs(b))
  g += [0, 1, -1, 2, 3, 0.0, 1.0, -1.0, -0.0, INF, -INF, NAN, True, False,
        None, 'x', '1', '', [1, 2], [], {}, (), (1,), (1, 2), (1, 2, 3),
        (2, 1), (1, 1), (0.2, 0.5), 0.5, 1.5, 2.0, 3.0, 2.5, 0.95, 0.85, 0.8,
        0.9, 0.999999, 7, 100, 10 ** 6, 10 ** 400, -10 ** 400, 1e308, -1e308,
        5e-324, 1e-300, 2 ** 53, float(2 ** 53), 2 ** 53 + 1,
        decimal.Decimal('1'), fractions.Fraction(1, 2),
        fractions.Fraction(3, 1), complex(1, 0), b'1', object]
  return g


def _pair_scalars(field):
  s = []
  for b in BOUNDS[field]:
    s.append(b)
    if isinstance(b, int):
      s.append(float(b))
    s.extend(_nbrs(b))
  s += [0, 1, -1, 2, 3, 5, 0.5, 0.25, 0.75, 2.0, 3.0, 2.5, 1.5, INF, -INF,
        NAN, True, False, None, 'x', 10 ** 400, 1e308, (1, 2), [1]]
  return s


def _range_grid(field):
  s = _pair_scalars(field)
  g = list(_scalar_grid(field))
  g += [(a, b) for a in s for b in s]
  g += [[0.2, 0.5], [1, 2], [2, 5], (0.2, 0.5, 0.7), (2,), ((1, 2),),
        (2, 3, 4), ((1, 2), (3, 4)), {1, 2}, range(1, 3)]
  return g


def _vkey(v):
  """Hashable identity of a grid value that separates 1 / 1.0 / True."""
  if isinstance(v, tuple):
    return ('tuple',) + tuple(_vkey(x) for x in v)
  r = repr(v)
  if len(r) > 40:
    r = r[:20] + '..%d' % len(r)
  return (type(v).__name__, r)


def _show(v):
  if isinstance(v, tuple):
    return [_show(x) for x in v]
  r = repr(v)
  if isinstance(v, int) and not isinstance(v, bool) and len(r) > 30:
    sign = '-' if v < 0 else ''
    return '%s10**%d (python int)' % (sign, len(r) - 1 - len(sign))
  return '%s:%s' % (type(v).__name__, r[:60])


def _region(field, value, accepted, expected):
  """Known disagreement regions between the code and the documented domain
  (none recorded on the unchanged tree)."""
  del field, value, accepted, expected
  return None


def run(tier, seed):
  import numpy as np
  from matched_markets.methodology import tbrmmdesignparameters
  cls = tbrmmdesignparameters.TBRMMDesignParameters
  warnings.simplefilter('ignore')
  rng = np.random.default_rng(seed)
  n_pairs = 20000 if tier == 'quick' else 400000
  res = base.MonitorResult(
      'one field at a time around two valid baselines (all fields given / '
      'only the required ones): per-field grid of each documented bound, its '
      'numpy.nextafter neighbours, 0, +-1, +-inf, NaN, True/False, None, '
      'strings, lists, tuples of arity 0-3, reversed and equal pairs, integral '
      'and non-integral floats, +-10**400, Decimal/Fraction/complex; for the '
      'four range fields all pairs over a 30-value scalar grid; plus %d seeded '
      'random simultaneous changes of two fields; accepted iff the plain '
      'predicate DOMAIN (from the class docstring) holds for every field, '
      'otherwise ValueError (any other exception type is a violation); '
      'defaults; == / != of independently built objects. Non-trivial = every '
      'construction (each is one accept/reject decision); distinct = '
      '(baseline, field(s), type+repr of the value(s))' % n_pairs,
      exhaustive=False)
  res.bound = ('per-field boundary grids, one field at a time + %d random '
               'field pairs' % n_pairs)

  grids = {}
  for f in FIELDS:
    grids[f] = _range_grid(f) if f in RANGE_FIELDS else _scalar_grid(f)

  def build(kwargs):
    try:
      return 'ok', cls(**kwargs)
    except ValueError as e:
      return 'ValueError', str(e)[:200]
    except Exception as e:  # pylint: disable=broad-except
      return 'other', repr(e)[:300]

  def judge(kwargs, changed, key):
    expected = all(DOMAIN[f](kwargs.get(f, DOC_DEFAULTS.get(f)))
                   for f in FIELDS if f in kwargs or f in DOC_DEFAULTS)
    if 'n_test' not in kwargs or 'iroas' not in kwargs:
      raise AssertionError('baseline must give the required fields')
    status, obj = build(kwargs)
    inp = {'changed': {f: _show(kwargs[f]) for f in changed},
           'baseline': {f: _show(v) for f, v in kwargs.items()
                        if f not in changed},
           'expected': 'accept' if expected else 'ValueError',
           'got': status if status == 'ok' else '%s: %s' % (status, obj)}
    res.case(key, nontrivial=True,
             sample=inp if len(changed) == 1 and isinstance(
                 kwargs[changed[0]], float) and len(res.samples) < 5 and (
                     len(res.samples) < res.evaluations // 300) else None)
    if len(res.violations) >= MAX_VIOLATIONS:
      return status, obj
    f0 = changed[0] if changed else None
    region = _region(f0, kwargs.get(f0), status == 'ok', expected)
    if status == 'other':
      res.violation('C17/rejects-only-with-ValueError', inp, region=region)
    elif expected and status != 'ok':
      res.violation('C17/value-in-documented-domain-rejected', inp,
                    region=region)
    elif not expected and status == 'ok':
      res.violation('C17/value-outside-documented-domain-accepted', inp,
                    region=region)
    return status, obj

  # Baselines themselves and the defaults.
  for bi, bl in enumerate(BASELINES):
    status, obj = judge(dict(bl), [], ('baseline', bi))
    if status != 'ok':
      continue
    for f in FIELDS:
      want = bl.get(f, DOC_DEFAULTS.get(f))
      got = getattr(obj, f)
      if not (got == want and type(got) is type(want)):
        res.violation('C17/defaults-and-stored-values',
                      {'field': f, 'got': _show(got), 'expected': _show(want),
                       'baseline': bi})
  # Positional construction: (n_test, iroas) are the first two fields.
  res.case(('positional',), nontrivial=True)
  try:
    p = cls(5, 2.5)
    if (p.n_test, p.iroas) != (5, 2.5) or any(
        getattr(p, f) != v or type(getattr(p, f)) is not type(v)
        for f, v in DOC_DEFAULTS.items()):
      res.violation('C17/defaults-and-stored-values',
                    {'call': 'TBRMMDesignParameters(5, 2.5)', 'got': repr(p)})
  except Exception as e:  # pylint: disable=broad-except
    res.violation('C17/value-in-documented-domain-rejected',
                  {'call': 'TBRMMDesignParameters(5, 2.5)',
                   'exception': repr(e)})
  # Required fields cannot be omitted (TypeError of the dataclass signature is
  # Python's, not the contract's) -- not asserted.

  # One field at a time.
  accepted = {}        # (baseline, field) -> list of accepted values
  for bi, bl in enumerate(BASELINES):
    for f in FIELDS:
      for v in grids[f]:
        kw = dict(bl)
        kw[f] = v
        status, _ = judge(kw, [f], (bi, f, _vkey(v)))
        if status == 'ok':
          accepted.setdefault((bi, f), []).append(v)
      if len(res.violations) >= MAX_VIOLATIONS:
        return res

  # Equality compares field values.
  for (bi, f), vals in sorted(accepted.items()):
    bl = BASELINES[bi]
    ref = cls(**bl)
    base_v = bl.get(f, DOC_DEFAULTS.get(f))
    seen = set()
    for v in vals:
      k = _vkey(v)
      if k in seen:
        continue
      seen.add(k)
      kw = dict(bl)
      kw[f] = v
      a, b = cls(**kw), cls(**kw)
      same_as_base = (v == base_v) if not (v is None or base_v is None) else (
          v is None and base_v is None)
      res.case(('eq', bi, f, k), nontrivial=True)
      inp = {'field': f, 'value': _show(v), 'baseline_value': _show(base_v),
             'baseline': bi}
      ok = (a is not b) and (a == b) and not (a != b) and (a == a)
      if not ok:
        res.violation('C17/equality/equal-fields-are-equal', inp)
      elif (a == ref) != same_as_base or (ref == a) != same_as_base or (
          (a != ref) == same_as_base):
        res.violation('C17/equality/differs-iff-a-field-differs', inp)
      if len(res.violations) >= MAX_VIOLATIONS:
        return res
  # Objects that differ in exactly one field, both values non-baseline.
  for (bi, f), vals in sorted(accepted.items()):
    uniq = []
    for v in vals:
      if v is not None and not any(v == u for u in uniq):
        uniq.append(v)
    for v1, v2 in itertools.combinations(uniq[:8], 2):
      kw1, kw2 = dict(BASELINES[bi]), dict(BASELINES[bi])
      kw1[f], kw2[f] = v1, v2
      res.case(('neq', bi, f, _vkey(v1), _vkey(v2)), nontrivial=True)
      if cls(**kw1) == cls(**kw2) or not cls(**kw1) != cls(**kw2):
        res.violation('C17/equality/differs-iff-a-field-differs',
                      {'field': f, 'values': [_show(v1), _show(v2)],
                       'baseline': bi})
        if len(res.violations) >= MAX_VIOLATIONS:
          return res

  # Seeded random pairs of fields changed together.
  for _ in range(n_pairs):
    bi = int(rng.integers(len(BASELINES)))
    i, j = rng.choice(len(FIELDS), size=2, replace=False)
    f1, f2 = FIELDS[int(i)], FIELDS[int(j)]
    v1 = grids[f1][int(rng.integers(len(grids[f1])))]
    v2 = grids[f2][int(rng.integers(len(grids[f2])))]
    kw = dict(BASELINES[bi])
    kw[f1], kw[f2] = v1, v2
    a, b = sorted([(f1, _vkey(v1)), (f2, _vkey(v2))])
    judge(kw, [f1, f2], (bi, a, b))
    if len(res.violations) >= MAX_VIOLATIONS:
      return res
  return res


if __name__ == '__main__':
  import argparse
  import time
  ap = argparse.ArgumentParser()
  ap.add_argument('--tier', default='quick')
  ap.add_argument('--seed', type=int, default=0)
  a_ = ap.parse_args()
  _init(common.REPO)
  t0 = time.time()
  r = run(a_.tier, a_.seed)
  print('C17 tier=%s evaluations=%d distinct_nontrivial=%d violations=%d '
        'wall=%.1fs' % (a_.tier, r.evaluations, len(r.nontrivial),
                        len(r.violations), time.time() - t0))
  for v_ in r.violations[:5]:
    print('VIOLATION', v_['what'], v_['region'],
          common.jsonable(v_['input']))
