"""Shared plumbing: paths, exit codes, evidence writer, known findings."""
import hashlib
import json
import os
import sys
import time

VERIF = os.path.dirname(os.path.dirname(os.path.abspath(__file__)))
REPO = os.environ.get('MMVERIF_REPO', '/repo')
METH = os.path.join(REPO, 'matched_markets', 'methodology')
# self-tests against scratch copies (seeded changes, mutants) redirect their
# evidence and replay files so that /verif/evidence only ever describes runs
# against the real working tree
EVIDENCE_DIR = os.environ.get('MMVERIF_EVIDENCE_DIR') or os.path.join(
    VERIF, 'evidence')
REPLAY_DIR = os.environ.get('MMVERIF_REPLAY_DIR') or os.path.join(
    VERIF, 'replays')
KNOWN_FINDINGS = os.path.join(VERIF, 'known_findings.json')

EXIT_OK, EXIT_VIOLATION, EXIT_UNDECIDED, EXIT_ERROR = 0, 1, 2, 3


def repo_file(rel):
  return os.path.join(REPO, rel)


def sha256_file(path):
  with open(path, 'rb') as f:
    return hashlib.sha256(f.read()).hexdigest()


def load_known_findings():
  if not os.path.exists(KNOWN_FINDINGS):
    return {'findings': [], 'fixed': []}
  with open(KNOWN_FINDINGS) as f:
    return json.load(f)


def findings_for(pid):
  return [f for f in load_known_findings().get('findings', [])
          if f.get('property') == pid]


def jsonable(x, depth=0):
  """Best-effort conversion of run-time objects to JSON-able samples."""
  import numbers
  if depth > 6:
    return repr(x)[:200]
  if x is None or isinstance(x, (bool, str)):
    return x
  if isinstance(x, numbers.Integral):
    return int(x)
  if isinstance(x, numbers.Real):
    x = float(x)
    if x != x or x in (float('inf'), float('-inf')):
      return repr(x)
    return x
  if isinstance(x, dict):
    return {str(k): jsonable(v, depth + 1) for k, v in x.items()}
  if isinstance(x, (list, tuple)):
    return [jsonable(v, depth + 1) for v in x]
  if isinstance(x, (set, frozenset)):
    try:
      return [jsonable(v, depth + 1) for v in sorted(x)]
    except TypeError:
      return [jsonable(v, depth + 1) for v in x]
  return repr(x)[:300]


def write_replay(pid, name, payload):
  d = os.path.join(REPLAY_DIR, pid)
  os.makedirs(d, exist_ok=True)
  safe = ''.join(c if c.isalnum() or c in '-_.' else '_' for c in name)[:120]
  path = os.path.join(d, safe + '.json')
  with open(path, 'w') as f:
    json.dump(jsonable(payload), f, indent=1)
  return path


def write_evidence(pid, tier, seed, level, coverage, assumptions, wall_s,
                   violations):
  os.makedirs(EVIDENCE_DIR, exist_ok=True)
  ev = {
      'property_id': pid,
      'tier': tier,
      'seed': int(seed),
      'level': level,
      'coverage': jsonable(coverage),
      'assumptions': list(assumptions),
      'wall_s': round(float(wall_s), 3),
      'violations': int(violations),
  }
  path = os.path.join(EVIDENCE_DIR, pid + '.json')
  tmp = path + '.tmp%d' % os.getpid()
  with open(tmp, 'w') as f:
    json.dump(ev, f, indent=1)
  os.replace(tmp, path)
  return path


class Timer:

  def __init__(self):
    self.t0 = time.time()

  def elapsed(self):
    return time.time() - self.t0


def eprint(*a):
  print(*a, file=sys.stderr, flush=True)
