#!/bin/bash
# ./check.sh <ID> quick|thorough      run one property check
# ./check.sh --replay <file>          replay a reported violation on the current tree
set -u
cd "$(dirname "$0")"
./setup.sh >/dev/null 2>&1 || { echo "CHECKER-ERROR setup failed"; exit 3; }
export PYTHONDONTWRITEBYTECODE=1
if [ "${1:-}" = "--replay" ]; then
  exec .venv/bin/python -m mmverif.replay "$2"
fi
exec .venv/bin/python -m mmverif.check "$1" --tier "${2:-quick}"
