#!/bin/bash
# ./check.sh <ID> quick|thorough      run one property check
# ./check.sh --replay <file>          show a replay file
set -u
cd "$(dirname "$0")"
if [ "${1:-}" = "--replay" ]; then
  exec cat "$2"
fi
./setup.sh >/dev/null 2>&1 || { echo "CHECKER-ERROR setup failed"; exit 3; }
export PYTHONDONTWRITEBYTECODE=1
exec .venv/bin/python -m mmverif.check "$1" --tier "${2:-quick}"
